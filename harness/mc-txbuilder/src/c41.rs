//! C41 — signing keeps the witness set in step with the signature map.
//!
//! SEQ / model checking: breadth-first search over histories of
//! `sign` / `add_signature` / `remove_signature` on two real built
//! transactions (a minimal one and one with every witness-set section
//! populated), each history replayed on a fresh clone of the built object.
//! Oracle after every call (all readings of `tx_bytes` through refcbor, all
//! signature checks through ed25519-dalek):
//!   * no panic;
//!   * the body byte span and `tx_hash` are those of the freshly built tx;
//!   * the (vkey, signature) witnesses, as a multiset, are exactly the entries
//!     of `signatures` (so at most one witness per key);
//!   * every witness verifies over the 32-byte transaction id;
//!   * the signature map itself is what the calls so far leave (bookkeeping of the calls: the
//!     last `sign` / `add_signature` of a key decides its signature, `remove_signature` removes it).

use crate::c40::{self, Ev};
use ed25519_dalek::{Signer, SigningKey, Verifier, VerifyingKey};
use mc_core::bfs::{self, Outcome};
use mc_core::{catch, cov, json, refcbor, Ctx, Level, Value};
use pallas_crypto::key::ed25519::{PublicKey, SecretKey};
use pallas_txbuilder::{BuildConway, BuiltTransaction, StagingTransaction};
use std::collections::BTreeMap;
use std::sync::atomic::{AtomicU64, Ordering};
use std::sync::Mutex;

fn seed(k: u8) -> [u8; 32] {
    [0x10 + k; 32]
}
fn dalek(k: u8) -> SigningKey {
    SigningKey::from_bytes(&seed(k))
}
fn pk_bytes(k: u8) -> [u8; 32] {
    dalek(k).verifying_key().to_bytes()
}

/// A valid signature of `msg` by key `k` that differs from the deterministic one: RFC 8032
/// signing with another nonce prefix.
fn alt_signature(k: u8, msg: &[u8]) -> [u8; 64] {
    use ed25519_dalek::hazmat::{raw_sign, ExpandedSecretKey};
    let mut esk = ExpandedSecretKey::from(&seed(k));
    esk.hash_prefix[0] ^= 0x5a;
    raw_sign::<ed25519_dalek::Sha512>(&esk, msg, &dalek(k).verifying_key()).to_bytes()
}

#[derive(Clone, Debug, PartialEq, Eq)]
pub enum Op {
    /// `sign(&SecretKey(seed k))`
    Sign(u8),
    /// `add_signature(pk(k), signature made out of band (dalek) over tx_hash)`
    AddSig(u8),
    /// `add_signature(pk(k), a SECOND valid signature over tx_hash)`: same key and message, other
    /// nonce (ed25519 admits many valid signatures per key and message; a hardware wallet or a
    /// randomised signer yields one that differs from the one `sign` computes)
    AddSigAlt(u8),
    /// `remove_signature(pk(k))`; key 2 never signs (always absent)
    Remove(u8),
}

impl Op {
    fn name(&self) -> &'static str {
        match self {
            Op::Sign(_) => "sign",
            Op::AddSig(_) | Op::AddSigAlt(_) => "add_signature",
            Op::Remove(_) => "remove_signature",
        }
    }
    fn describe(&self) -> String {
        match self {
            Op::Sign(k) => format!("sign(k{k})"),
            Op::AddSig(k) => format!("add_signature(pk(k{k}), valid signature)"),
            Op::AddSigAlt(k) => format!("add_signature(pk(k{k}), second valid signature (other nonce))"),
            Op::Remove(k) => format!("remove_signature(pk(k{k}))"),
        }
    }
}

fn alphabet() -> Vec<Op> {
    vec![Op::Sign(0), Op::Sign(1), Op::AddSig(0), Op::AddSig(1), Op::Remove(0), Op::Remove(1), Op::Remove(2), Op::AddSigAlt(0), Op::AddSigAlt(1)]
}

fn apply(bt: BuiltTransaction, op: &Op) -> Result<BuiltTransaction, String> {
    match op {
        Op::Sign(k) => bt.sign(&SecretKey::from(seed(*k))),
        Op::AddSig(k) => {
            let sig = dalek(*k).sign(&bt.tx_hash.0).to_bytes();
            bt.add_signature(PublicKey::from(pk_bytes(*k)), sig)
        }
        Op::AddSigAlt(k) => {
            let sig = alt_signature(*k, &bt.tx_hash.0);
            bt.add_signature(PublicKey::from(pk_bytes(*k)), sig)
        }
        Op::Remove(k) => bt.remove_signature(PublicKey::from(pk_bytes(*k))),
    }
    .map_err(|e| format!("{e:?}"))
}

fn base_histories() -> Vec<(&'static str, Vec<Ev>)> {
    use Ev::*;
    vec![
        ("minimal: 1 input, 1 output, fee", vec![Input(0), Output(0), Fee(170_000)]),
        (
            "rich: 2 inputs, asset/datum/script outputs, mint, datum, native+plutus scripts, spend redeemer, aux data, signer, network id, language view",
            vec![
                Input(0), Input(1), Output(1), Output(2), Fee(200_000), Mint(0, 0, 5), Datum(1), Script(0), Script(3), SpendRdmr(0, 0, true),
                Aux(0), Signer(0), NetworkId(1), AddLanguage(2), CollInput(1), RefInput(1), ValidFrom(10), InvalidFrom(20),
            ],
        ),
    ]
}

fn build(hist: &[Ev]) -> BuiltTransaction {
    let mut st = StagingTransaction::new();
    for e in hist {
        st = match catch(move || c40::apply_real_pub(st, e)) {
            Ok(Ok(s)) => s,
            other => mc_core::report::machinery_failure(&format!("cannot stage base transaction at {e:?}: {:?}", other.map(|_| ()).map_err(|p| p.message))),
        };
    }
    match catch(move || st.build_conway_raw()) {
        Ok(Ok(b)) => b,
        other => mc_core::report::machinery_failure(&format!("cannot build base transaction: {:?}", other.map(|r| r.map(|_| ())).map_err(|p| p.message))),
    }
}

/// (body span, witnesses) read from the transaction bytes with refcbor.
fn read_tx(bytes: &[u8]) -> Result<(Vec<u8>, Vec<(Vec<u8>, Vec<u8>)>), String> {
    let top = refcbor::parse_one(bytes).map_err(|e| format!("not well-formed CBOR: {e:?}"))?;
    let arr = top.as_array().ok_or("transaction is not an array")?;
    if arr.len() < 2 {
        return Err("transaction array too short".into());
    }
    let body = arr[0].span(bytes).to_vec();
    let mut wits = vec![];
    if let Some(v) = arr[1].map_get(0) {
        for w in v.untagged().as_array().ok_or("vkey witnesses are not an array")? {
            let pair = w.as_array().ok_or("vkey witness is not an array")?;
            if pair.len() != 2 {
                return Err("vkey witness is not a pair".into());
            }
            wits.push((pair[0].as_bytes().ok_or("vkey not bytes")?, pair[1].as_bytes().ok_or("signature not bytes")?));
        }
    }
    Ok((body, wits))
}

#[derive(Default)]
struct Best {
    count: u64,
    hist: Vec<Op>,
    what: String,
    extra: Value,
    shortest: Vec<((usize, String), String, Vec<String>)>,
}

#[derive(Default)]
struct Acc {
    evaluations: AtomicU64,
    witnesses_verified: AtomicU64,
    removals_that_removed: AtomicU64,
    replacements: AtomicU64,
    max_witnesses: AtomicU64,
    op_errs: Mutex<BTreeMap<String, u64>>,
    violations: Mutex<BTreeMap<String, Best>>,
}

fn rank(h: &[Op]) -> (usize, String) {
    let a = alphabet();
    (h.len(), h.iter().map(|o| char::from(b'a' + a.iter().position(|x| x == o).unwrap_or(25) as u8)).collect())
}

struct Base {
    label: &'static str,
    built: BuiltTransaction,
    body: Vec<u8>,
    tx_hash: [u8; 32],
}

fn run_history(acc: &Acc, base: &Base, hist: &[Op]) -> Outcome {
    let report = |fp: String, what: String, extra: Value| {
        let mut v = acc.violations.lock().unwrap();
        let e = v.entry(fp).or_default();
        e.count += 1;
        let r = rank(hist);
        if e.shortest.len() < 6 || r < e.shortest.last().unwrap().0 {
            e.shortest.push((r, base.label.to_string(), hist.iter().map(|o| o.describe()).collect()));
            e.shortest.sort();
            e.shortest.dedup();
            e.shortest.truncate(6);
        }
        if e.count == 1 || (rank(hist), base.label) < (rank(&e.hist), e.extra["base_transaction"].as_str().unwrap_or("")) {
            e.hist = hist.to_vec();
            e.what = what;
            e.extra = json!({"base_transaction": base.label, "base_tx_bytes": hex::encode(&base.built.tx_bytes.0), "history": hist.iter().map(|o| o.describe()).collect::<Vec<_>>(), "events": format!("{hist:?}"), "detail": extra});
        }
    };
    let mut bt = base.built.clone();
    let mut before_last: Option<usize> = None;
    // bookkeeping of the calls: key -> the signature the last sign / add_signature call gave it
    let mut expect: BTreeMap<Vec<u8>, Vec<u8>> = BTreeMap::new();
    for (n, op) in hist.iter().enumerate() {
        match op {
            Op::Sign(k) | Op::AddSig(k) => {
                expect.insert(pk_bytes(*k).to_vec(), dalek(*k).sign(&base.tx_hash).to_bytes().to_vec());
            }
            Op::AddSigAlt(k) => {
                expect.insert(pk_bytes(*k).to_vec(), alt_signature(*k, &base.tx_hash).to_vec());
            }
            Op::Remove(k) => {
                expect.remove(&pk_bytes(*k).to_vec());
            }
        }
        if n + 1 == hist.len() {
            before_last = read_tx(&bt.tx_bytes.0).ok().map(|x| x.1.len());
        }
        let b = bt;
        bt = match catch(move || apply(b, op)) {
            Err(p) => {
                report(
                    format!("{} in {}", p.site(), op.name()),
                    format!("{} panicked: {} at {}", op.name(), p.message, p.location),
                    json!({"panic": p.message, "location": p.location}),
                );
                return Outcome::Violation;
            }
            Ok(Err(e)) => {
                *acc.op_errs.lock().unwrap().entry(format!("{}: {e}", op.name())).or_default() += 1;
                return Outcome::Skip;
            }
            Ok(Ok(b)) => b,
        };
    }
    acc.evaluations.fetch_add(1, Ordering::Relaxed);
    let key = c40::state_key(&mc_core::serde_json::to_value(&bt).unwrap_or(Value::Null));
    let after = hist.last().map(|o| o.name()).unwrap_or("build");
    let bytes_hex = hex::encode(&bt.tx_bytes.0);
    let mut bad = false;
    let mut fail = |fp: String, what: String| {
        report(fp, what, json!({"tx_bytes": bytes_hex}));
        bad = true;
    };
    match read_tx(&bt.tx_bytes.0) {
        Err(e) => fail(format!("tx-bytes:unreadable after {after}"), format!("transaction bytes unreadable after {after}: {e}")),
        Ok((body, wits)) => {
            if body != base.body {
                fail(format!("body-bytes-changed after {after}"), format!("body bytes changed: {} -> {}", hex::encode(&base.body), hex::encode(&body)));
            }
            if bt.tx_hash.0 != base.tx_hash {
                fail(format!("tx-hash-changed after {after}"), format!("tx_hash changed: {} -> {}", hex::encode(base.tx_hash), hex::encode(bt.tx_hash.0)));
            }
            let mut listed: Vec<(Vec<u8>, Vec<u8>)> = bt.signatures.iter().flat_map(|m| m.iter()).map(|(k, v)| (k.0.to_vec(), v.0.to_vec())).collect();
            listed.sort();
            let mut got = wits.clone();
            got.sort();
            let by_calls: Vec<(Vec<u8>, Vec<u8>)> = expect.iter().map(|(k, v)| (k.clone(), v.clone())).collect();
            if listed != by_calls {
                fail(
                    format!("signature-map:differs-from-the-calls after {after}"),
                    format!(
                        "the signature map lists {:?} but the calls so far leave {:?} (key prefix, signature prefix)",
                        listed.iter().map(|w| (hex::encode(&w.0[..4]), hex::encode(&w.1[..4]))).collect::<Vec<_>>(),
                        by_calls.iter().map(|w| (hex::encode(&w.0[..4]), hex::encode(&w.1[..4]))).collect::<Vec<_>>()
                    ),
                );
            }
            acc.max_witnesses.fetch_max(got.len() as u64, Ordering::Relaxed);
            let mut per_key: BTreeMap<&Vec<u8>, usize> = BTreeMap::new();
            for (k, _) in &wits {
                *per_key.entry(k).or_default() += 1;
            }
            if let Some((k, n)) = per_key.iter().find(|(_, n)| **n > 1) {
                fail(
                    format!("witness-set:duplicate-vkey after {after}"),
                    format!("{n} witnesses for public key {} after {after}; signature map lists {} key(s)", hex::encode(k), listed.len()),
                );
            } else if got != listed {
                fail(
                    format!("witness-set:differs-from-signature-map after {after}"),
                    format!(
                        "witness vkeys {:?} but the signature map lists {:?}",
                        got.iter().map(|w| hex::encode(&w.0[..4])).collect::<Vec<_>>(),
                        listed.iter().map(|w| hex::encode(&w.0[..4])).collect::<Vec<_>>()
                    ),
                );
            }
            for (vk, sig) in &wits {
                let ok = <[u8; 32]>::try_from(&vk[..])
                    .ok()
                    .and_then(|b| VerifyingKey::from_bytes(&b).ok())
                    .zip(<[u8; 64]>::try_from(&sig[..]).ok().map(|s| ed25519_dalek::Signature::from_bytes(&s)))
                    .map(|(k, s)| k.verify(&base.tx_hash, &s).is_ok())
                    .unwrap_or(false);
                if ok {
                    acc.witnesses_verified.fetch_add(1, Ordering::Relaxed);
                } else {
                    fail(format!("witness-set:invalid-signature after {after}"), format!("witness of {} does not verify over the transaction id", hex::encode(vk)));
                }
            }
            if let (Some(Op::Remove(_)), Some(n)) = (hist.last(), before_last) {
                if got.len() < n {
                    acc.removals_that_removed.fetch_add(1, Ordering::Relaxed);
                }
            }
            if let (Some(Op::Sign(_) | Op::AddSig(_) | Op::AddSigAlt(_)), Some(n)) = (hist.last(), before_last) {
                if listed.len() == n {
                    acc.replacements.fetch_add(1, Ordering::Relaxed);
                }
            }
        }
    }
    if bad {
        Outcome::Violation
    } else {
        Outcome::State(key)
    }
}

pub fn run(ctx: Ctx) -> ! {
    // pallas' public keys for the pool must be the dalek ones (the oracle signs with dalek).
    for k in 0..2u8 {
        let (a, b) = (dalek(k).sign(&[7u8; 32]).to_bytes(), alt_signature(k, &[7u8; 32]));
        let ok = dalek(k).verifying_key().verify(&[7u8; 32], &ed25519_dalek::Signature::from_bytes(&b)).is_ok();
        if a == b || !ok {
            mc_core::report::machinery_failure("the second signature is not a distinct valid signature");
        }
    }
    for k in 0..3u8 {
        let p = SecretKey::from(seed(k)).public_key();
        if p.as_ref() != pk_bytes(k) {
            mc_core::report::machinery_failure("pallas and dalek derive different public keys from the same seed");
        }
    }
    let bases: Vec<Base> = base_histories()
        .into_iter()
        .map(|(label, h)| {
            let built = build(&h);
            let (body, wits) = read_tx(&built.tx_bytes.0).unwrap_or_else(|e| mc_core::report::machinery_failure(&format!("base tx unreadable: {e}")));
            if !wits.is_empty() || built.signatures.as_ref().map(|m| !m.is_empty()).unwrap_or(false) {
                mc_core::report::machinery_failure("freshly built tx already has witnesses");
            }
            let tx_hash = built.tx_hash.0;
            Base { label, built, body, tx_hash }
        })
        .collect();
    let acc = Acc::default();

    if let Some(p) = &ctx.replay {
        let v: Value = match std::fs::read_to_string(p).ok().and_then(|s| mc_core::serde_json::from_str(&s).ok()) {
            Some(v) => v,
            None => mc_core::report::machinery_failure(&format!("cannot read replay file {p:?}")),
        };
        let want: Vec<String> = v["case"]["history"].as_array().map(|a| a.iter().filter_map(|x| x.as_str().map(String::from)).collect()).unwrap_or_default();
        let hist: Vec<Op> = want
            .iter()
            .map(|d| alphabet().into_iter().find(|o| o.describe() == *d).unwrap_or_else(|| mc_core::report::machinery_failure(&format!("unknown op {d}"))))
            .collect();
        let label = v["case"]["base_transaction"].as_str().unwrap_or("");
        let base = bases.iter().find(|b| b.label == label).unwrap_or(&bases[0]);
        let o = run_history(&acc, base, &hist);
        println!("replay C41 on '{}': {} calls -> {}", base.label, hist.len(), match o { Outcome::State(_) => "oracle holds", Outcome::Violation => "violation", Outcome::Skip => "a call returned Err" });
        for (fp, b) in acc.violations.lock().unwrap().iter() {
            println!("  [{fp}] {}", b.what);
        }
        std::process::exit(0);
    }

    let depth = if ctx.thorough { 6 } else { 4 };
    let alpha = alphabet();
    let mut stats = vec![];
    for base in &bases {
        let init = c40::state_key(&mc_core::serde_json::to_value(&base.built).unwrap_or(Value::Null));
        if !matches!(run_history(&acc, base, &[]), Outcome::State(_)) {
            ctx.note("oracle fails on a freshly built transaction");
        }
        let s = bfs::explore(init, |_h: &[Op]| alpha.clone(), |h: &[Op]| run_history(&acc, base, h), &bfs::Config { max_depth: depth, max_states: 10_000_000, parallel: true });
        stats.push((base.label, s));
    }

    // Named scenarios of DESIGN.md section 7, each on its own accumulator (diagnostic listing;
    // the exploration above already contains them).
    let named: Vec<(&str, Vec<Op>)> = vec![
        ("removal of an absent key on an unsigned transaction", vec![Op::Remove(2)]),
        ("removal of the last signature", vec![Op::Sign(0), Op::Remove(0)]),
        ("removal of an absent key next to one signature", vec![Op::Sign(0), Op::Remove(2)]),
        ("removal of one of two signatures", vec![Op::Sign(0), Op::Sign(1), Op::Remove(0)]),
        ("signing twice with one key", vec![Op::Sign(0), Op::Sign(0)]),
        ("add_signature for a key that already signed", vec![Op::Sign(0), Op::AddSig(0)]),
        ("add_signature replacing a signature by a different valid one", vec![Op::Sign(0), Op::AddSigAlt(0)]),
        ("sign replacing an out-of-band signature", vec![Op::AddSigAlt(0), Op::Sign(0)]),
    ];
    let named_results: Vec<Value> = named
        .iter()
        .map(|(label, h)| {
            let a = Acc::default();
            let o = run_history(&a, &bases[0], h);
            let fps: Vec<String> = a.violations.lock().unwrap().keys().cloned().collect();
            json!({"scenario": label, "history": h.iter().map(|o| o.describe()).collect::<Vec<_>>(),
                   "outcome": match o { Outcome::State(_) => "oracle holds", Outcome::Violation => "violation", Outcome::Skip => "call returned Err" }, "fingerprints": fps})
        })
        .collect();

    let viols = std::mem::take(&mut *acc.violations.lock().unwrap());
    let mut order: Vec<(&String, &Best)> = viols.iter().collect();
    order.sort_by_key(|(fp, b)| (rank(&b.hist), (*fp).clone()));
    for (fp, b) in order {
        let mut extra = b.extra.clone();
        extra["shortest_histories_with_this_fingerprint"] = json!(b.shortest.iter().map(|x| json!({"base": x.1.split(':').next(), "history": x.2})).collect::<Vec<_>>());
        ctx.violation(fp.clone(), format!("{} (shortest history: {:?})", b.what, b.hist.iter().map(|o| o.describe()).collect::<Vec<_>>()), extra);
        for _ in 1..b.count {
            ctx.violation(fp.clone(), "", Value::Null);
        }
    }

    let states: usize = stats.iter().map(|s| s.1.states).sum();
    let transitions: usize = stats.iter().map(|s| s.1.transitions).sum();
    let verified = acc.witnesses_verified.load(Ordering::Relaxed);
    if states < 4 || verified == 0 || acc.max_witnesses.load(Ordering::Relaxed) < 2 {
        mc_core::report::machinery_failure(&format!("vacuous exploration: states={states}, witnesses verified={verified}"));
    }
    let mut samples: Vec<String> = stats.iter().flat_map(|s| s.1.samples.iter().cloned()).collect();
    samples.truncate(10);
    let cov = cov! {
        "states" => states,
        "transitions" => transitions,
        "traces_validated_against_impl" => acc.evaluations.load(Ordering::Relaxed),
        "samples" => samples,
        "max_depth" => stats.iter().map(|s| s.1.max_depth).max().unwrap_or(0),
        "fixpoint" => stats.iter().all(|s| s.1.fixpoint),
        "explorations" => stats.iter().map(|(l, s)| json!({"base_transaction": l, "depth_bound": depth, "depth_reached": s.max_depth, "states": s.states, "transitions": s.transitions,
            "per_depth_new_states": s.per_depth_new_states, "fixpoint": s.fixpoint, "capped": s.capped, "pruned_at_violation": s.pruned})).collect::<Vec<_>>(),
        "alphabet" => alpha.iter().map(|o| o.describe()).collect::<Vec<_>>(),
        "witnesses_verified_with_dalek" => verified,
        "max_witnesses_in_a_state" => acc.max_witnesses.load(Ordering::Relaxed),
        "removals_that_removed_a_witness" => acc.removals_that_removed.load(Ordering::Relaxed),
        "sign_or_add_on_a_key_already_listed" => acc.replacements.load(Ordering::Relaxed),
        "named_scenarios" => named_results,
        "calls_returning_err" => json!(*acc.op_errs.lock().unwrap()),
        "distinct_outcomes" => 1 + viols.len(),
        "exhaustive" => true,
        "rule" => "state = canonical serde_json form of the real BuiltTransaction (hashed); transition = one sign/add_signature/remove_signature call replayed with its whole history on a fresh clone of the built transaction; oracle evaluated after every transition; a state at which the oracle fails is not expanded",
    };
    ctx.finish(
        Level::ModelChecking,
        cov,
        &[
            "key pool: two signing keys (sign, add_signature with the deterministic signature, add_signature with a second valid signature made with another nonce) and one key that never signs (removal of an absent key)",
            "two base transactions built by the real builder; witnesses read from tx_bytes with the independent CBOR reader",
            "add_signature is only called with valid signatures (an invalid one supplied by the caller is outside the statement)",
        ],
    )
}
