//! Protocol transition tables (`/verif/spec/<protocol>.json`, transcribed from
//! the Ouroboros network specification — data, not code) and their shape
//! check.

use mc_core::Value;
use std::collections::{BTreeMap, BTreeSet, VecDeque};
use std::path::Path;

#[derive(Debug, Clone)]
pub struct Table {
    pub protocol: String,
    pub initial: String,
    /// state -> agency ("client" | "server" | "nobody")
    pub states: BTreeMap<String, String>,
    /// (from, msg) -> to
    pub edges: BTreeMap<(String, String), String>,
}

impl Table {
    pub fn load(root: &Path, protocol: &str) -> Result<Table, String> {
        let p = root.join("spec").join(format!("{protocol}.json"));
        let s = std::fs::read_to_string(&p).map_err(|e| format!("cannot read {p:?}: {e}"))?;
        let v: Value = serde_json::from_str(&s).map_err(|e| format!("{p:?}: {e}"))?;
        let get = |k: &str| v.get(k).ok_or(format!("{p:?}: missing key {k}"));
        if get("protocol")?.as_str() != Some(protocol) {
            return Err(format!("{p:?}: protocol name does not match file name"));
        }
        let initial = get("initial")?.as_str().ok_or("initial not a string")?.to_string();
        let mut states = BTreeMap::new();
        for (k, st) in get("states")?.as_object().ok_or("states not an object")? {
            let a = st.get("agency").and_then(|a| a.as_str()).ok_or(format!("state {k}: no agency"))?;
            states.insert(k.clone(), a.to_string());
        }
        let mut edges = BTreeMap::new();
        for t in get("transitions")?.as_array().ok_or("transitions not an array")? {
            let f = |k: &str| t.get(k).and_then(|x| x.as_str()).map(|x| x.to_string()).ok_or(format!("transition without {k}: {t}"));
            let key = (f("from")?, f("msg")?);
            if edges.insert(key.clone(), f("to")?).is_some() {
                return Err(format!("{protocol}: duplicate transition {key:?}"));
            }
        }
        let t = Table { protocol: protocol.to_string(), initial, states, edges };
        t.check_shape()?;
        Ok(t)
    }

    pub fn next(&self, state: &str, msg: &str) -> Option<&str> {
        self.edges.get(&(state.to_string(), msg.to_string())).map(|s| s.as_str())
    }

    pub fn messages(&self) -> BTreeSet<String> {
        self.edges.keys().map(|(_, m)| m.clone()).collect()
    }

    /// Shape of a mini-protocol table: declared endpoints, agency in
    /// {client, server, nobody}, exactly the states without agency are
    /// terminal, every state reachable from the initial one, a terminal state
    /// reachable from every state.
    pub fn check_shape(&self) -> Result<(), String> {
        let p = &self.protocol;
        if !self.states.contains_key(&self.initial) {
            return Err(format!("{p}: initial state {} not declared", self.initial));
        }
        for ((f, m), t) in &self.edges {
            if !self.states.contains_key(f) || !self.states.contains_key(t) {
                return Err(format!("{p}: transition {f} --{m}--> {t} uses an undeclared state"));
            }
        }
        for (s, a) in &self.states {
            let exits = self.edges.keys().filter(|(f, _)| f == s).count();
            match a.as_str() {
                "nobody" => {
                    if exits != 0 {
                        return Err(format!("{p}: terminal state {s} has outgoing messages"));
                    }
                }
                "client" | "server" => {
                    if exits == 0 {
                        return Err(format!("{p}: state {s} has agency {a} but no outgoing message"));
                    }
                }
                other => return Err(format!("{p}: state {s} has unknown agency {other}")),
            }
        }
        // forward reachability from the initial state
        let mut seen = BTreeSet::new();
        let mut q = VecDeque::from([self.initial.clone()]);
        seen.insert(self.initial.clone());
        while let Some(s) = q.pop_front() {
            for ((f, _), t) in &self.edges {
                if *f == s && seen.insert(t.clone()) {
                    q.push_back(t.clone());
                }
            }
        }
        if seen.len() != self.states.len() {
            let missing: Vec<_> = self.states.keys().filter(|s| !seen.contains(*s)).collect();
            return Err(format!("{p}: states unreachable from {}: {missing:?}", self.initial));
        }
        // a terminal state is reachable from every state
        for s in self.states.keys() {
            let mut seen = BTreeSet::from([s.clone()]);
            let mut q = VecDeque::from([s.clone()]);
            let mut ok = false;
            while let Some(x) = q.pop_front() {
                if self.states[&x] == "nobody" {
                    ok = true;
                    break;
                }
                for ((f, _), t) in &self.edges {
                    if *f == x && seen.insert(t.clone()) {
                        q.push_back(t.clone());
                    }
                }
            }
            if !ok {
                return Err(format!("{p}: no terminal state reachable from {s}"));
            }
        }
        Ok(())
    }
}
