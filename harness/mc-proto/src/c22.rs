pub fn run(_ctx: mc_core::Ctx) -> ! { mc_core::report::machinery_failure("todo") }
