//! C22 — every mini-protocol message of both stacks encodes to exactly one
//! well-formed CBOR item and decodes back to an equal message.
//!
//! GRID / exploration: `msgs::all_cases` enumerates every message variant of
//! every protocol of pallas-network and pallas-network2 with boundary payload
//! shapes (complete enumeration of that finite grid). Oracle per case
//! (`msgs::roundtrip`): the encoding is accepted by the independent strict
//! parser `mc_core::refcbor::parse_one` as exactly one item (declared lengths
//! equal contents, no trailing byte; cross-checked with ciborium), the pallas
//! decoder accepts it, and the decoded value re-encodes to the same bytes and
//! has the same Debug rendering (version tables rendered sorted).
//!
//! A message-level failure is attributed to the innermost component codec
//! whose stand-alone round trip fails (probes), so that one defective payload
//! codec yields one fingerprint however many messages embed it.

use crate::msgs::{self, Case, Failure};
use mc_core::{cov, json, Ctx, Level, Value};
use rayon::prelude::*;
use std::collections::{BTreeMap, BTreeSet};

/// Every message variant that must be present in the grid (vacuity guard).
const EXPECTED: &[(&str, &str, &[&str])] = &[
    ("pallas-network", "handshake-n2n", &["Propose", "Accept", "Refuse", "QueryReply"]),
    ("pallas-network", "handshake-n2c", &["Propose", "Accept", "Refuse", "QueryReply"]),
    ("pallas-network", "chainsync-n2n", &["RequestNext", "AwaitReply", "RollForward", "RollBackward", "FindIntersect", "IntersectFound", "IntersectNotFound", "Done"]),
    ("pallas-network", "chainsync-n2c", &["RequestNext", "AwaitReply", "RollForward", "RollBackward", "FindIntersect", "IntersectFound", "IntersectNotFound", "Done"]),
    ("pallas-network", "blockfetch", &["RequestRange", "ClientDone", "StartBatch", "NoBlocks", "Block", "BatchDone"]),
    ("pallas-network", "txsubmission", &["Init", "RequestTxIds", "ReplyTxIds", "RequestTxs", "ReplyTxs", "Done"]),
    ("pallas-network", "keepalive", &["KeepAlive", "ResponseKeepAlive", "Done"]),
    ("pallas-network", "peersharing", &["ShareRequest", "SharePeers", "Done"]),
    ("pallas-network", "localstate", &["Acquire", "Failure", "Acquired", "Query", "Result", "ReAcquire", "Release", "Done"]),
    ("pallas-network", "localtxsubmission", &["SubmitTx", "AcceptTx", "RejectTx", "Done"]),
    ("pallas-network", "localmsgsubmission", &["SubmitTx", "AcceptTx", "RejectTx", "Done"]),
    ("pallas-network", "localmsgnotification", &["RequestMessagesNonBlocking", "ReplyMessagesNonBlocking", "RequestMessagesBlocking", "ReplyMessagesBlocking", "ClientDone"]),
    (
        "pallas-network",
        "txmonitor",
        &["Acquire", "AwaitAcquire", "Acquired", "RequestHasTx", "RequestNextTx", "RequestSizeAndCapacity", "ResponseHasTx", "ResponseNextTx", "ResponseSizeAndCapacity", "Release", "Done"],
    ),
    ("pallas-network2", "handshake-n2n", &["Propose", "Accept", "Refuse", "QueryReply"]),
    ("pallas-network2", "handshake-n2c", &["Propose", "Accept", "Refuse", "QueryReply"]),
    ("pallas-network2", "chainsync-n2n", &["RequestNext", "AwaitReply", "RollForward", "RollBackward", "FindIntersect", "IntersectFound", "IntersectNotFound", "Done"]),
    ("pallas-network2", "chainsync-n2c", &["RequestNext", "AwaitReply", "RollForward", "RollBackward", "FindIntersect", "IntersectFound", "IntersectNotFound", "Done"]),
    ("pallas-network2", "blockfetch", &["RequestRange", "ClientDone", "StartBatch", "NoBlocks", "Block", "BatchDone"]),
    ("pallas-network2", "txsubmission", &["Init", "RequestTxIds", "ReplyTxIds", "RequestTxs", "ReplyTxs", "Done"]),
    ("pallas-network2", "keepalive", &["KeepAlive", "ResponseKeepAlive", "Done"]),
    ("pallas-network2", "peersharing", &["ShareRequest", "SharePeers", "Done"]),
    ("pallas-network2", "leiosnotify", &["RequestNext", "BlockAnnouncement", "BlockOffer", "BlockTxsOffer", "Votes", "Done"]),
    ("pallas-network2", "leiosfetch", &["BlockRequest", "Block", "BlockTxsRequest", "BlockTxs", "Done"]),
];

fn clip(s: &str, n: usize) -> String {
    if s.len() <= n {
        s.to_string()
    } else {
        let mut k = n;
        while !s.is_char_boundary(k) {
            k -= 1;
        }
        format!("{}… ({} chars)", &s[..k], s.len())
    }
}

struct Res {
    idx: usize,
    bytes: Option<Vec<u8>>,
    debug: String,
    failure: Option<Failure>,
    /// (blamed label, failure at that level, its bytes)
    blamed: Option<(String, Failure, Option<Vec<u8>>)>,
}

fn run_case(idx: usize, c: &Case) -> Res {
    let o = (c.run)();
    let mut blamed = None;
    if let Some(f) = &o.failure {
        if f.kind == "oracle-disagreement" {
            mc_core::report::machinery_failure(&format!("C22: reference parsers disagree on {}/{}/{}/{}: {}", c.stack, c.protocol, c.variant, c.shape, f.detail));
        }
        for (label, probe) in &c.probes {
            let po = probe();
            if let Some(pf) = po.failure {
                if pf.kind == "oracle-disagreement" {
                    mc_core::report::machinery_failure(&format!("C22: reference parsers disagree on component {label}: {}", pf.detail));
                }
                blamed = Some((label.clone(), pf, po.bytes));
                break;
            }
        }
        if blamed.is_none() {
            blamed = Some((c.type_label.clone(), f.clone(), o.bytes.clone()));
        }
    }
    Res { idx, bytes: o.bytes, debug: o.debug, failure: o.failure, blamed }
}

pub fn run(ctx: Ctx) -> ! {
    let mut cases = msgs::all_cases(ctx.thorough);
    // --replay: run only the case recorded in the replay file
    if let Some(p) = &ctx.replay {
        let v: Value = std::fs::read_to_string(p).ok().and_then(|s| serde_json::from_str(&s).ok()).unwrap_or_else(|| mc_core::report::machinery_failure("C22: unreadable replay file"));
        let g = |k: &str| v["case"][k].as_str().unwrap_or("").to_string();
        let (st, pr, va, sh) = (g("stack"), g("protocol"), g("variant"), g("shape"));
        cases.retain(|c| c.stack == st && c.protocol == pr && c.variant == va && c.shape == sh);
        if cases.is_empty() {
            mc_core::report::machinery_failure("C22: replay case not found in the grid");
        }
    } else {
        // vacuity guard: every variant of every protocol is in the grid
        let have: BTreeSet<(String, String, String)> = cases.iter().map(|c| (c.stack.to_string(), c.protocol.to_string(), c.variant.clone())).collect();
        for (st, pr, vs) in EXPECTED {
            for v in *vs {
                if !have.contains(&(st.to_string(), pr.to_string(), v.to_string())) {
                    mc_core::report::machinery_failure(&format!("C22: no case for {st}/{pr}/{v}"));
                }
            }
        }
    }
    let results: Vec<Res> = cases.par_iter().enumerate().map(|(i, c)| run_case(i, c)).collect();

    let mut distinct: BTreeSet<Vec<u8>> = BTreeSet::new();
    let mut per_proto: BTreeMap<String, (usize, usize, BTreeSet<String>)> = BTreeMap::new();
    let mut samples: Vec<Value> = vec![];
    let mut failing_samples: Vec<Value> = vec![];
    let mut kinds: BTreeMap<String, usize> = BTreeMap::new();
    let mut v6: BTreeMap<String, Value> = BTreeMap::new();
    let mut passed = 0usize;
    for r in &results {
        let c = &cases[r.idx];
        let e = per_proto.entry(format!("{}/{}", c.stack, c.protocol)).or_default();
        e.0 += 1;
        e.2.insert(c.variant.clone());
        if let Some(b) = &r.bytes {
            distinct.insert(b.clone());
        }
        if c.protocol == "peersharing" && c.shape == "one[v6:2001:db8::1:3001]" {
            // the SharePeers message and the address item inside it
            if let Some(b) = &r.bytes {
                let inner = &b[3..b.len() - 1];
                let items = {
                    // count the items that follow the array head of the address
                    let mut pos = 1;
                    let mut n = 0;
                    while pos < inner.len() {
                        match mc_core::refcbor::parse_at(inner, pos) {
                            Ok(node) => {
                                pos = node.end;
                                n += 1;
                            }
                            Err(_) => break,
                        }
                    }
                    n
                };
                v6.insert(
                    c.stack.to_string(),
                    json!({"message": hex::encode(b), "peer_address": hex::encode(inner), "array_head_declares": inner[0] & 0x1f, "items_present": items,
                           "strict_parse": format!("{:?}", mc_core::refcbor::parse_one(inner).map(|_| "ok"))}),
                );
            }
        }
        match (&r.failure, &r.blamed) {
            (None, _) => {
                passed += 1;
                e.1 += 1;
                if samples.len() < 8 && r.idx % 97 == 5 {
                    samples.push(json!({"stack": c.stack, "protocol": c.protocol, "variant": c.variant, "shape": c.shape, "bytes": clip(&hex::encode(r.bytes.as_ref().unwrap()), 160), "verdict": "ok"}));
                }
            }
            (Some(f), Some((label, bf, bbytes))) => {
                *kinds.entry(bf.kind.to_string()).or_default() += 1;
                let fp = match &bf.panic_site {
                    Some(site) => format!("{site}|{}:{label}", c.stack),
                    None => format!("{}:{}:{label}", bf.kind, c.stack),
                };
                let what = format!(
                    "{} {}::{}/{}: {} ({}); attributed to {label}: {} — {}",
                    c.stack,
                    c.protocol,
                    c.variant,
                    c.shape,
                    f.kind,
                    clip(&f.detail, 200),
                    bf.kind,
                    clip(&bf.detail, 300)
                );
                let case = json!({
                    "stack": c.stack, "protocol": c.protocol, "variant": c.variant, "shape": c.shape,
                    "message": clip(&r.debug, 800),
                    "message_bytes": r.bytes.as_ref().map(|b| clip(&hex::encode(b), 800)),
                    "message_failure": {"kind": f.kind, "detail": clip(&f.detail, 800)},
                    "blamed_component": label,
                    "component_bytes": bbytes.as_ref().map(|b| clip(&hex::encode(b), 800)),
                    "component_failure": {"kind": bf.kind, "detail": clip(&bf.detail, 800)},
                });
                if failing_samples.len() < 6 {
                    failing_samples.push(json!({"stack": c.stack, "protocol": c.protocol, "variant": c.variant, "shape": c.shape, "fingerprint": fp, "bytes": r.bytes.as_ref().map(|b| clip(&hex::encode(b), 160))}));
                }
                ctx.violation(fp, what, case);
            }
            (Some(_), None) => unreachable!(),
        }
    }
    if ctx.replay.is_none() {
        if passed < 500 || distinct.len() < 500 {
            mc_core::report::machinery_failure(&format!("C22: only {passed} passing cases / {} distinct encodings — grid not exercised", distinct.len()));
        }
        if v6.len() != 2 {
            mc_core::report::machinery_failure("C22: IPv6 peer address case missing");
        }
    }
    samples.extend(failing_samples);
    let pp: BTreeMap<String, Value> = per_proto.into_iter().map(|(k, (n, ok, vs))| (k, json!({"cases": n, "passed": ok, "variants": vs}))).collect();
    let cov = cov! {
        "evaluations" => results.len(),
        "distinct_nontrivial" => distinct.len(),
        "rule" => "evaluation = one message value (variant x payload shape of the grid in msgs/*.rs) put through encode -> strict single-item parse (refcbor, cross-checked with ciborium) -> decode -> re-encode/Debug comparison; non-trivial = distinct encodings produced by the pallas encoder on which the strict parser was evaluated",
        "samples" => samples,
        "exhaustive" => true,
        "cases_passed" => passed,
        "cases_failed" => results.len() - passed,
        "failure_kinds_at_blamed_component" => kinds,
        "per_protocol" => pp,
        "peer_address_v6" => v6,
        "tier_note" => "quick and thorough enumerate the same grid",
    };
    ctx.finish(
        Level::Exploration,
        cov,
        &[
            "payload values are boundary shapes (0/1/3 entries, integer head-width edges, origin/specific points, IPv4/IPv6), not all values",
            "only representable field combinations: n2n VersionData with peer_sharing and query both present or both absent; HeaderContent byron_prefix present iff variant 0",
            "equality of decoded and original message judged by Debug rendering (hash-map version tables rendered sorted) and identical re-encoding, since most Message types do not implement PartialEq",
            "local-state query/result payloads are AnyCbor at message level; typed v16 Request values and a few typed results are additionally decoded back from the decoded message",
            "local-tx-submission rejections: every variant of every failure enum with simple payloads; large payload types (certificates, gov actions, outputs, purposes) one value per variant",
        ],
    )
}
