fn main() {
    let ctx = mc_core::Ctx::from_args();
    match ctx.prop.as_str() {
        "C22" => mc_proto::c22::run(ctx),
        "C24" => mc_proto::c24::run(ctx),
        "C26" => mc_proto::c26::run(ctx),
        p => mc_core::report::machinery_failure(&format!("mc-proto does not serve {p}")),
    }
}
