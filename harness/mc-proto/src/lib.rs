//! mc-proto: mini-protocol message codecs (C22), pallas-network2 protocol
//! state machines against the specification tables (C24), chain-sync
//! rollback buffer against a list model (C26).
//!
//! The message enumerators are exposed as a library (`msgs::all_messages`) so
//! that other harness crates can seed their own sweeps with one encoded
//! message per variant of every mini-protocol of both stacks.

pub mod c22;
pub mod c24;
pub mod c26;
pub mod msgs;
pub mod spec;
