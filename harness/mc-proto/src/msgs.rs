//! Message enumerators: one or more values per variant of every mini-protocol
//! message type of pallas-network (`miniprotocols::*`) and pallas-network2
//! (`protocol::*`), with boundary payload shapes, plus the round-trip oracle
//! used by C22.
//!
//! Library use: [`all_messages`] returns `(stack, protocol, variant, bytes)`
//! for every case whose encoder produced bytes.

use mc_core::catch;
use mc_core::refcbor;
use pallas_codec::minicbor;
use std::fmt::Debug;

pub mod localtx;
pub mod net1;
pub mod net2;

#[derive(Debug, Clone)]
pub struct Failure {
    /// malformed-cbor | encode-error | decode-error | reencode-differs |
    /// value-differs | panic-in-encode | panic-in-decode | oracle-disagreement
    pub kind: &'static str,
    pub detail: String,
    /// `PanicInfo::site()` for the panic kinds.
    pub panic_site: Option<String>,
}

#[derive(Debug, Clone)]
pub struct Outcome {
    pub bytes: Option<Vec<u8>>,
    pub debug: String,
    pub failure: Option<Failure>,
}

type Run = Box<dyn Fn() -> Outcome + Send + Sync>;

pub struct Case {
    pub stack: &'static str,
    pub protocol: &'static str,
    /// Message variant (Rust name).
    pub variant: String,
    /// Payload shape of this case.
    pub shape: String,
    /// Type label blamed when the message-level check fails and no probe does.
    pub type_label: String,
    pub run: Run,
    /// Stand-alone round trips of component values, innermost first; consulted
    /// only to attribute a message-level failure to the responsible codec.
    pub probes: Vec<(String, Run)>,
}

impl Case {
    pub fn probe<T>(mut self, label: &str, v: T) -> Self
    where
        T: minicbor::Encode<()> + for<'b> minicbor::Decode<'b, ()> + Debug + Send + Sync + 'static,
    {
        self.probes.push((label.to_string(), Box::new(move || roundtrip(&v, &|x| format!("{x:?}")))));
        self
    }
    pub fn label(mut self, l: &str) -> Self {
        self.type_label = l.to_string();
        self
    }
}

pub fn mk<T>(stack: &'static str, protocol: &'static str, variant: &str, shape: &str, v: T) -> Case
where
    T: minicbor::Encode<()> + for<'b> minicbor::Decode<'b, ()> + Debug + Send + Sync + 'static,
{
    mk_with(stack, protocol, variant, shape, v, |x| format!("{x:?}"))
}

pub fn mk_with<T>(stack: &'static str, protocol: &'static str, variant: &str, shape: &str, v: T, render: fn(&T) -> String) -> Case
where
    T: minicbor::Encode<()> + for<'b> minicbor::Decode<'b, ()> + Debug + Send + Sync + 'static,
{
    Case {
        stack,
        protocol,
        variant: variant.to_string(),
        shape: shape.to_string(),
        type_label: format!("{protocol}::Message::{variant}"),
        run: Box::new(move || roundtrip(&v, &render)),
        probes: vec![],
    }
}

fn fail(bytes: Option<Vec<u8>>, debug: String, kind: &'static str, detail: String, site: Option<String>) -> Outcome {
    Outcome { bytes, debug, failure: Some(Failure { kind, detail, panic_site: site }) }
}

/// Strict well-formedness by the independent parser, cross-checked with
/// ciborium. `Ok(())` = exactly one well-formed item.
pub fn strict_single_item(bytes: &[u8]) -> Result<(), Failure> {
    let strict = refcbor::parse_one(bytes);
    let cib: Result<ciborium::Value, _> = ciborium::de::from_reader(bytes);
    match &strict {
        Ok(n) => {
            if n.to_vec() != bytes {
                return Err(Failure { kind: "oracle-disagreement", detail: "refcbor re-encoding differs from its input".into(), panic_site: None });
            }
            if cib.is_err() {
                return Err(Failure { kind: "oracle-disagreement", detail: format!("refcbor accepts, ciborium rejects: {:?}", cib.err()), panic_site: None });
            }
            Ok(())
        }
        Err(refcbor::Error::Trailing(at)) => Err(Failure {
            kind: "malformed-cbor",
            detail: format!("one item ends at byte {at} of {}, trailing bytes follow", bytes.len()),
            panic_site: None,
        }),
        Err(e) => {
            if cib.is_ok() {
                return Err(Failure { kind: "oracle-disagreement", detail: format!("refcbor rejects ({e:?}), ciborium accepts"), panic_site: None });
            }
            Err(Failure { kind: "malformed-cbor", detail: format!("strict parser: {e:?}; ciborium: {}", cib.err().map(|e| format!("{e:?}")).unwrap_or_default()), panic_site: None })
        }
    }
}

/// encode -> strict single item -> decode -> same bytes and same rendering.
pub fn roundtrip<T>(v: &T, render: &dyn Fn(&T) -> String) -> Outcome
where
    T: minicbor::Encode<()> + for<'b> minicbor::Decode<'b, ()>,
{
    let debug = match catch(|| render(v)) {
        Ok(s) => s,
        Err(p) => return fail(None, String::new(), "panic-in-encode", format!("Debug panicked: {} at {}", p.message, p.location), Some(p.site())),
    };
    let bytes = match catch(|| minicbor::to_vec(v)) {
        Err(p) => return fail(None, debug, "panic-in-encode", format!("{} at {}", p.message, p.location), Some(p.site())),
        Ok(Err(e)) => return fail(None, debug, "encode-error", format!("{e}"), None),
        Ok(Ok(b)) => b,
    };
    if let Err(f) = strict_single_item(&bytes) {
        return Outcome { bytes: Some(bytes), debug, failure: Some(f) };
    }
    let back: T = match catch(|| minicbor::decode::<T>(&bytes)) {
        Err(p) => return fail(Some(bytes), debug, "panic-in-decode", format!("{} at {}", p.message, p.location), Some(p.site())),
        Ok(Err(e)) => return fail(Some(bytes), debug, "decode-error", format!("{e}"), None),
        Ok(Ok(b)) => b,
    };
    let bytes2 = match catch(|| minicbor::to_vec(&back)) {
        Err(p) => return fail(Some(bytes), debug, "panic-in-encode", format!("re-encoding the decoded value: {} at {}", p.message, p.location), Some(p.site())),
        Ok(Err(e)) => return fail(Some(bytes), debug, "encode-error", format!("re-encoding the decoded value: {e}"), None),
        Ok(Ok(b)) => b,
    };
    if bytes2 != bytes {
        return fail(Some(bytes), debug, "reencode-differs", format!("decoded value re-encodes to {}", hex::encode(&bytes2)), None);
    }
    let d2 = render(&back);
    if d2 != debug {
        return fail(Some(bytes), debug, "value-differs", format!("decoded value renders as {d2}"), None);
    }
    Outcome { bytes: Some(bytes), debug, failure: None }
}

pub fn all_cases(thorough: bool) -> Vec<Case> {
    let mut v = vec![];
    net1::cases(&mut v, thorough);
    net2::cases(&mut v, thorough);
    v
}

/// One encoded message per case (several payload shapes per variant) of every
/// mini-protocol of both stacks: `(stack, protocol, "Variant/shape", bytes)`.
/// Cases whose encoder fails or panics are omitted.
pub fn all_messages() -> Vec<(&'static str, &'static str, String, Vec<u8>)> {
    all_cases(false)
        .into_iter()
        .filter_map(|c| {
            let o = (c.run)();
            o.bytes.map(|b| (c.stack, c.protocol, format!("{}/{}", c.variant, c.shape), b))
        })
        .collect()
}

// ------------------------------------------------------------------ shared
// The six protocols that exist in both stacks with the same shapes. Expanded
// inside `net1` / `net2`, where `hs`, `cs`, `ka`, `ps`, `txs`, `Point`, `TxMsg`,
// `PortT` and `STACK` name the stack's own items.

#[macro_export]
macro_rules! shared_protocol_cases {
    () => {
        fn vt_sorted<D: std::fmt::Debug + Clone>(t: &hs::VersionTable<D>) -> String {
            let mut v: Vec<(&u64, &D)> = t.values.iter().collect();
            v.sort_by_key(|x| *x.0);
            format!("{v:?}")
        }
        fn hs_render<D: std::fmt::Debug + Clone>(m: &hs::Message<D>) -> String {
            match m {
                hs::Message::Propose(t) => format!("Propose({})", vt_sorted(t)),
                hs::Message::QueryReply(t) => format!("QueryReply({})", vt_sorted(t)),
                other => format!("{other:?}"),
            }
        }
        pub fn points() -> Vec<(&'static str, Point)> {
            vec![
                ("origin", Point::Origin),
                ("slot0", Point::Specific(0, vec![0u8; 32])),
                ("slot23", Point::Specific(23, vec![0x17; 32])),
                ("slotmax", Point::Specific(u64::MAX, vec![0xff; 32])),
            ]
        }
        pub fn tips() -> Vec<(&'static str, cs::Tip)> {
            vec![
                ("tip-origin-0", cs::Tip(Point::Origin, 0)),
                ("tip-specific-24", cs::Tip(Point::Specific(1 << 32, vec![0xab; 32]), 24)),
                ("tip-specific-max", cs::Tip(Point::Specific(u64::MAX, vec![0xff; 32]), u64::MAX)),
            ]
        }
        fn refuse_reasons() -> Vec<(&'static str, hs::RefuseReason)> {
            vec![
                ("mismatch-empty", hs::RefuseReason::VersionMismatch(vec![])),
                ("mismatch-3", hs::RefuseReason::VersionMismatch(vec![7, 13, u64::MAX])),
                ("decode-error-empty", hs::RefuseReason::HandshakeDecodeError(0, String::new())),
                ("decode-error-text", hs::RefuseReason::HandshakeDecodeError(13, "unknown version \u{00e9}\u{4e16}".into())),
                ("refused", hs::RefuseReason::Refused(32784, "x".repeat(300))),
            ]
        }
        fn handshake_for<D>(out: &mut Vec<Case>, proto: &'static str, datas: Vec<(&'static str, D)>, versions: [u64; 3])
        where
            D: std::fmt::Debug + Clone + Send + Sync + 'static + minicbor::Encode<()> + for<'b> minicbor::Decode<'b, ()>,
        {
            // tables with 0, 1 and 3 entries, every version data value used
            let mut tables: Vec<(String, hs::VersionTable<D>)> = vec![("table0".into(), hs::VersionTable { values: Default::default() })];
            for (dn, d) in &datas {
                tables.push((format!("table1[{dn}]"), hs::VersionTable { values: [(versions[0], d.clone())].into_iter().collect() }));
            }
            for i in 0..datas.len() {
                let vals = (0..3).map(|k| (versions[k], datas[(i + k) % datas.len()].1.clone())).collect();
                tables.push((format!("table3[{}..]", datas[i].0), hs::VersionTable { values: vals }));
            }
            for (tn, t) in &tables {
                out.push(mk_with(STACK, proto, "Propose", tn, hs::Message::<D>::Propose(t.clone()), hs_render::<D>));
                out.push(mk_with(STACK, proto, "QueryReply", tn, hs::Message::<D>::QueryReply(t.clone()), hs_render::<D>));
            }
            for (dn, d) in &datas {
                for v in [0u64, versions[0], u64::MAX] {
                    out.push(mk_with(STACK, proto, "Accept", &format!("v{v}/{dn}"), hs::Message::<D>::Accept(v, d.clone()), hs_render::<D>).probe("handshake::VersionData", d.clone()));
                }
            }
            for ((rn, r), (_, r2)) in refuse_reasons().into_iter().zip(refuse_reasons()) {
                out.push(mk_with(STACK, proto, "Refuse", rn, hs::Message::<D>::Refuse(r), hs_render::<D>).probe("handshake::RefuseReason", r2));
            }
        }
        fn handshake(out: &mut Vec<Case>) {
            // only field combinations the wire format can represent:
            // peer_sharing and query are present together or absent together
            let mut n2n = vec![];
            for (mn, magic) in [("magic0", 0u64), ("mainnet", 764824073), ("magicmax", u64::MAX)] {
                for mode in [false, true] {
                    n2n.push((Box::leak(format!("{mn}/{mode}/short").into_boxed_str()) as &'static str, hs::n2n::VersionData::new(magic, mode, None, None)));
                    for (ps_, q) in [(0u8, false), (1, true), (255, false)] {
                        n2n.push((
                            Box::leak(format!("{mn}/{mode}/ps{ps_}/q{q}").into_boxed_str()) as &'static str,
                            hs::n2n::VersionData::new(magic, mode, Some(ps_), Some(q)),
                        ));
                    }
                }
            }
            handshake_for(out, "handshake-n2n", n2n, [13, 14, 15]);
            let mut n2c = vec![];
            for (mn, magic) in [("magic0", 0u64), ("magic23", 23), ("mainnet", 764824073), ("magicmax", u64::MAX)] {
                for q in [None, Some(false), Some(true)] {
                    n2c.push((Box::leak(format!("{mn}/{q:?}").into_boxed_str()) as &'static str, hs::n2c::VersionData::new(magic, q)));
                }
            }
            handshake_for(out, "handshake-n2c", n2c, [32784, 32778, 1]);
        }
        fn headers() -> Vec<(&'static str, cs::HeaderContent)> {
            vec![
                ("byron-min", cs::HeaderContent { variant: 0, byron_prefix: Some((0, 0)), cbor: vec![] }),
                ("byron-max", cs::HeaderContent { variant: 0, byron_prefix: Some((255, u64::MAX)), cbor: vec![0x5a; 300] }),
                ("shelley", cs::HeaderContent { variant: 1, byron_prefix: None, cbor: vec![0x80] }),
                ("conway", cs::HeaderContent { variant: 6, byron_prefix: None, cbor: vec![0x82, 0x01, 0x02] }),
                ("era255", cs::HeaderContent { variant: 255, byron_prefix: None, cbor: vec![0xa5; 70000] }),
            ]
        }
        fn chainsync_common<C>(out: &mut Vec<Case>, proto: &'static str)
        where
            C: std::fmt::Debug + Send + Sync + 'static + minicbor::Encode<()> + for<'b> minicbor::Decode<'b, ()>,
        {
            out.push(mk(STACK, proto, "RequestNext", "-", cs::Message::<C>::RequestNext));
            out.push(mk(STACK, proto, "AwaitReply", "-", cs::Message::<C>::AwaitReply));
            out.push(mk(STACK, proto, "Done", "-", cs::Message::<C>::Done));
            for (pn, p) in points() {
                for (tn, t) in tips() {
                    out.push(mk(STACK, proto, "RollBackward", &format!("{pn}/{tn}"), cs::Message::<C>::RollBackward(p.clone(), t.clone())).probe("Point", p.clone()).probe("chainsync::Tip", t.clone()));
                    out.push(mk(STACK, proto, "IntersectFound", &format!("{pn}/{tn}"), cs::Message::<C>::IntersectFound(p.clone(), t.clone())));
                }
            }
            for (tn, t) in tips() {
                out.push(mk(STACK, proto, "IntersectNotFound", tn, cs::Message::<C>::IntersectNotFound(t)));
            }
            let ps: Vec<Point> = points().into_iter().map(|x| x.1).collect();
            for n in [0usize, 1, 3, 4] {
                out.push(mk(STACK, proto, "FindIntersect", &format!("{n}-points"), cs::Message::<C>::FindIntersect(ps[..n].to_vec())));
            }
            out.push(mk(STACK, proto, "FindIntersect", "30-points", cs::Message::<C>::FindIntersect((0..30).map(|i| Point::Specific(i * 1000, vec![i as u8; 32])).collect())));
        }
        fn chainsync(out: &mut Vec<Case>) {
            chainsync_common::<cs::HeaderContent>(out, "chainsync-n2n");
            for (hn, h) in headers() {
                for (tn, t) in tips() {
                    out.push(
                        mk(STACK, "chainsync-n2n", "RollForward", &format!("{hn}/{tn}"), cs::Message::RollForward(h.clone(), t.clone()))
                            .probe("chainsync::HeaderContent", cs::HeaderContent { variant: h.variant, byron_prefix: h.byron_prefix, cbor: h.cbor.clone() }),
                    );
                }
            }
            chainsync_common::<cs::BlockContent>(out, "chainsync-n2c");
            for (bn, b) in [("empty", vec![]), ("small", vec![0x82, 0x00, 0x80]), ("24", vec![0x11; 24]), ("256", vec![0x22; 256]), ("65536", vec![0x33; 65536])] {
                for (tn, t) in tips() {
                    out.push(mk(STACK, "chainsync-n2c", "RollForward", &format!("{bn}/{tn}"), cs::Message::RollForward(cs::BlockContent(b.clone()), t.clone())));
                }
            }
            // content-skipping flavour
            chainsync_common::<cs::SkippedContent>(out, "chainsync-skip");
            for (tn, t) in tips() {
                out.push(mk(STACK, "chainsync-skip", "RollForward", tn, cs::Message::RollForward(cs::SkippedContent, t)));
            }
        }
        fn keepalive(out: &mut Vec<Case>) {
            for c in [0u16, 23, 24, 255, 256, 65535] {
                out.push(mk(STACK, "keepalive", "KeepAlive", &format!("cookie{c}"), ka::Message::KeepAlive(c)));
                out.push(mk(STACK, "keepalive", "ResponseKeepAlive", &format!("cookie{c}"), ka::Message::ResponseKeepAlive(c)));
            }
            out.push(mk(STACK, "keepalive", "Done", "-", ka::Message::Done));
        }
        fn peer_addrs() -> Vec<(String, ps::PeerAddress)> {
            use std::net::{Ipv4Addr, Ipv6Addr};
            let mut v = vec![];
            for port in [0 as PortT, 3001, 65535, PortT::MAX] {
                if v.iter().any(|x: &(String, ps::PeerAddress)| x.0.ends_with(&format!(":{port}"))) {
                    continue;
                }
                for (an, a) in [("0.0.0.0", Ipv4Addr::new(0, 0, 0, 0)), ("10.0.0.1", Ipv4Addr::new(10, 0, 0, 1)), ("255.255.255.255", Ipv4Addr::new(255, 255, 255, 255))] {
                    v.push((format!("v4:{an}:{port}"), ps::PeerAddress::V4(a, port)));
                }
                for (an, a) in [
                    ("::", Ipv6Addr::new(0, 0, 0, 0, 0, 0, 0, 0)),
                    ("2001:db8::1", Ipv6Addr::new(0x2001, 0xdb8, 0, 0, 0, 0, 0, 1)),
                    ("ffff:..:ffff", Ipv6Addr::new(0xffff, 0xffff, 0xffff, 0xffff, 0xffff, 0xffff, 0xffff, 0xffff)),
                ] {
                    v.push((format!("v6:{an}:{port}"), ps::PeerAddress::V6(a, port)));
                }
            }
            v
        }
        fn peersharing(out: &mut Vec<Case>) {
            for n in [0u8, 23, 24, 255] {
                out.push(mk(STACK, "peersharing", "ShareRequest", &format!("amount{n}"), ps::Message::ShareRequest(n)));
            }
            out.push(mk(STACK, "peersharing", "Done", "-", ps::Message::Done));
            out.push(mk(STACK, "peersharing", "SharePeers", "empty", ps::Message::SharePeers(vec![])));
            let addrs = peer_addrs();
            for (an, a) in &addrs {
                let which = if matches!(a, ps::PeerAddress::V4(..)) { "peersharing::PeerAddress::V4" } else { "peersharing::PeerAddress::V6" };
                out.push(mk(STACK, "peersharing", "SharePeers", &format!("one[{an}]"), ps::Message::SharePeers(vec![a.clone()])).probe(which, a.clone()));
            }
            let v4: Vec<ps::PeerAddress> = addrs.iter().filter(|a| matches!(a.1, ps::PeerAddress::V4(..))).map(|a| a.1.clone()).collect();
            let v6: Vec<ps::PeerAddress> = addrs.iter().filter(|a| matches!(a.1, ps::PeerAddress::V6(..))).map(|a| a.1.clone()).collect();
            out.push(mk(STACK, "peersharing", "SharePeers", "three-v4", ps::Message::SharePeers(v4[..3].to_vec())).probe("peersharing::PeerAddress::V4", v4[0].clone()));
            out.push(mk(STACK, "peersharing", "SharePeers", "v4-v6-v4", ps::Message::SharePeers(vec![v4[0].clone(), v6[1].clone(), v4[1].clone()])).probe("peersharing::PeerAddress::V6", v6[1].clone()));
        }
        fn txsubmission(out: &mut Vec<Case>) {
            let p = "txsubmission";
            out.push(mk(STACK, p, "Init", "-", TxMsg::Init));
            out.push(mk(STACK, p, "Done", "-", TxMsg::Done));
            for b in [false, true] {
                for (a, r) in [(0u16, 0u16), (0, 1), (23, 24), (255, 256), (65535, 65535)] {
                    out.push(mk(STACK, p, "RequestTxIds", &format!("blocking={b}/ack{a}/req{r}"), TxMsg::RequestTxIds(b, a, r)));
                }
            }
            let ids: Vec<(&str, txs::EraTxId)> = vec![
                ("era0-empty-id", txs::EraTxId(0, vec![])),
                ("era6-id32", txs::EraTxId(6, vec![0xaa; 32])),
                ("era65535-id32", txs::EraTxId(65535, vec![0xff; 32])),
            ];
            let all_ids: Vec<txs::EraTxId> = ids.iter().map(|x| x.1.clone()).collect();
            out.push(mk(STACK, p, "ReplyTxIds", "empty", TxMsg::ReplyTxIds(vec![])));
            out.push(mk(STACK, p, "RequestTxs", "empty", TxMsg::RequestTxs(vec![])));
            out.push(mk(STACK, p, "ReplyTxs", "empty", TxMsg::ReplyTxs(vec![])));
            for (n, id) in &ids {
                for size in [0u32, 16384, u32::MAX] {
                    out.push(mk(STACK, p, "ReplyTxIds", &format!("one[{n}/size{size}]"), TxMsg::ReplyTxIds(vec![txs::TxIdAndSize(id.clone(), size)])).probe("txsubmission::EraTxId", id.clone()));
                }
                out.push(mk(STACK, p, "RequestTxs", &format!("one[{n}]"), TxMsg::RequestTxs(vec![id.clone()])));
            }
            out.push(mk(STACK, p, "ReplyTxIds", "three", TxMsg::ReplyTxIds(all_ids.iter().map(|i| txs::TxIdAndSize(i.clone(), 500)).collect())));
            out.push(mk(STACK, p, "RequestTxs", "three", TxMsg::RequestTxs(all_ids.clone())));
            let bodies: Vec<(&str, txs::EraTxBody)> = vec![
                ("era0-empty", txs::EraTxBody(0, vec![])),
                ("era6-small", txs::EraTxBody(6, vec![0x84, 0xa0, 0xa0, 0xf5, 0xf6])),
                ("era65535-16k", txs::EraTxBody(65535, vec![0x77; 16384])),
            ];
            for (n, b) in &bodies {
                out.push(mk(STACK, p, "ReplyTxs", &format!("one[{n}]"), TxMsg::ReplyTxs(vec![b.clone()])).probe("txsubmission::EraTxBody", b.clone()));
            }
            out.push(mk(STACK, p, "ReplyTxs", "three", TxMsg::ReplyTxs(bodies.iter().map(|b| b.1.clone()).collect())));
        }
        pub fn shared(out: &mut Vec<Case>) {
            handshake(out);
            chainsync(out);
            keepalive(out);
            peersharing(out);
            txsubmission(out);
        }
    };
}
