pub fn all_messages() -> Vec<(&'static str, &'static str, String, Vec<u8>)> { vec![] }
