//! C26 — chain-sync `RollbackBuffer` against a `Vec<Point>` list model.
//!
//! SEQ / model checking. A state is the history that reaches it; every history
//! is replayed on a fresh real `RollbackBuffer` and on the model, and every
//! observable is compared after every operation. Canonical key = buffer
//! contents (fully observable through `peek()`; the struct has no other
//! field). `roll_forward` is enabled only while the buffer holds fewer than L
//! points, which closes the space: the search runs to fixpoint, so the verdict
//! covers operation sequences of any length that keep the buffer <= L.
//!
//! Model (from the doc comments and the five unit tests of buffer.rs, nothing
//! more):
//!  * roll_forward(p): append p at the back.
//!  * roll_back(p): p buffered => `Handled`, everything up to (and including)
//!    p is kept, everything after it dropped; p not buffered => `OutOfScope`
//!    and the buffer is emptied. When a point is buffered twice (the property's
//!    quantifier forces duplicates) the list model scans from the oldest entry,
//!    so "up to it" ends at the FIRST occurrence: the later copy lies after the
//!    roll-back point and is dropped with the rest.
//!  * pop_with_depth(k): with n points buffered, n >= k returns the n-k oldest
//!    points oldest-first and keeps the k newest; n < k returns nothing and
//!    changes nothing.
//!  * position(p): index of the first entry equal to p, None when
//!    absent; size / latest / oldest / peek as named.

use mc_core::bfs::{self, Outcome};
use mc_core::{catch, cov, json, Ctx, Level};
use pallas_network::miniprotocols::chainsync::{RollbackBuffer, RollbackEffect};
use pallas_network::miniprotocols::Point;
use std::sync::atomic::{AtomicU64, Ordering::Relaxed};

#[derive(Clone, Copy, Debug, PartialEq, Eq)]
pub enum Op {
    Fwd(u8),
    Back(u8),
    Pop(usize),
}

/// a, b, c are inserted; d never is. b and c share a slot (equality must look
/// at the hash), d shares the slot of a (a miss that differs only in the hash).
/// Second pass: b is the origin point (a `Point` variant of its own, with no slot and no hash).
static ORIGIN_PASS: std::sync::atomic::AtomicBool = std::sync::atomic::AtomicBool::new(false);

fn point(i: u8) -> Point {
    match i {
        0 => Point::Specific(10, vec![0x0a; 32]),
        1 if ORIGIN_PASS.load(Relaxed) => Point::Origin,
        1 => Point::Specific(20, vec![0x0b; 32]),
        2 => Point::Specific(20, vec![0x0c; 32]),
        _ => Point::Specific(10, vec![0x0d; 32]),
    }
}

fn name(p: &Point) -> char {
    for i in 0..4u8 {
        if *p == point(i) {
            return (b'a' + i) as char;
        }
    }
    '?'
}

fn render(v: &[Point]) -> String {
    v.iter().map(name).collect()
}

const POPS: [usize; 4] = [0, 1, 2, 5];

struct Diag {
    dup_rollbacks: AtomicU64,
    dup_first: AtomicU64,
    dup_last: AtomicU64,
    handled: AtomicU64,
    out_of_scope: AtomicU64,
    pops_nonempty: AtomicU64,
    pops_too_deep: AtomicU64,
    observations: AtomicU64,
}

type Fail = (String, String);

/// Apply `op` to the real buffer and to the model, compare every observable.
fn step(real: &mut RollbackBuffer, model: &mut Vec<Point>, op: Op, diag: Option<&Diag>) -> Result<(), Fail> {
    let opname = match op {
        Op::Fwd(_) => "roll_forward",
        Op::Back(_) => "roll_back",
        Op::Pop(_) => "pop_with_depth",
    };
    let fail = |obs: &str, what: String| -> Fail { (format!("model-mismatch:RollbackBuffer::{opname}:{obs}"), what) };
    match op {
        Op::Fwd(i) => {
            real.roll_forward(point(i));
            model.push(point(i));
        }
        Op::Back(i) => {
            let p = point(i);
            let before = model.clone();
            let eff = real.roll_back(&p);
            let got: Vec<Point> = real.peek().cloned().collect();
            let occ: Vec<usize> = before.iter().enumerate().filter(|(_, q)| **q == p).map(|(k, _)| k).collect();
            if occ.is_empty() {
                if !matches!(eff, RollbackEffect::OutOfScope) {
                    return Err(fail("effect", format!("roll_back({}) on [{}]: point not buffered but effect is Handled", name(&p), render(&before))));
                }
                if !got.is_empty() {
                    return Err(fail("contents", format!("roll_back({}) on [{}]: point not buffered but buffer still holds [{}]", name(&p), render(&before), render(&got))));
                }
                model.clear();
                if let Some(d) = diag {
                    d.out_of_scope.fetch_add(1, Relaxed);
                }
            } else {
                if !matches!(eff, RollbackEffect::Handled) {
                    return Err(fail("effect", format!("roll_back({}) on [{}]: point is buffered but effect is OutOfScope", name(&p), render(&before))));
                }
                // a list model finds the point by scanning from the oldest entry: "everything up to
                // it" ends at the FIRST occurrence (everything after that first occurrence, later
                // copies of the point included, lies beyond the roll-back point)
                if got[..] != before[..=occ[0]] {
                    return Err(fail(
                        "contents",
                        format!("roll_back({}) on [{}] left [{}], the list model keeps [{}] (up to the first occurrence of the point)", name(&p), render(&before), render(&got), render(&before[..=occ[0]])),
                    ));
                }
                if let Some(d) = diag {
                    d.handled.fetch_add(1, Relaxed);
                    if occ.len() > 1 {
                        d.dup_rollbacks.fetch_add(1, Relaxed);
                        if got.len() == occ[0] + 1 {
                            d.dup_first.fetch_add(1, Relaxed);
                        }
                        if got.len() == occ[occ.len() - 1] + 1 {
                            d.dup_last.fetch_add(1, Relaxed);
                        }
                    }
                }
                *model = got;
            }
        }
        Op::Pop(k) => {
            let before = model.clone();
            let popped = real.pop_with_depth(k);
            let expect: Vec<Point> = if before.len() >= k { model.drain(0..before.len() - k).collect() } else { vec![] };
            if popped != expect {
                return Err(fail(
                    "returned",
                    format!("pop_with_depth({k}) on [{}] returned [{}], model [{}]", render(&before), render(&popped), render(&expect)),
                ));
            }
            if let Some(d) = diag {
                if !popped.is_empty() {
                    d.pops_nonempty.fetch_add(1, Relaxed);
                }
                if before.len() < k {
                    d.pops_too_deep.fetch_add(1, Relaxed);
                }
            }
        }
    }
    // ---- observables after the operation
    let got: Vec<Point> = real.peek().cloned().collect();
    if got != *model {
        return Err(fail("peek", format!("after {op:?}: peek() = [{}], model [{}]", render(&got), render(model))));
    }
    if real.size() != model.len() {
        return Err(fail("size", format!("after {op:?}: size() = {}, model {}", real.size(), model.len())));
    }
    if real.latest() != model.last() {
        return Err(fail("latest", format!("after {op:?}: latest() = {:?}, model {:?}", real.latest(), model.last())));
    }
    if real.oldest() != model.first() {
        return Err(fail("oldest", format!("after {op:?}: oldest() = {:?}, model {:?}", real.oldest(), model.first())));
    }
    for i in 0..4u8 {
        let q = point(i);
        let pos = real.position(&q);
        if pos != model.iter().position(|x| *x == q) {
            return Err(fail("position", format!("after {op:?}: position({}) = {pos:?} on [{}]", name(&q), render(model))));
        }
    }
    if let Some(d) = diag {
        d.observations.fetch_add(8, Relaxed);
    }
    Ok(())
}

pub fn run(ctx: Ctx) -> ! {
    let l_main: usize = if ctx.thorough { 12 } else { 8 };
    let diag = Diag {
        dup_rollbacks: AtomicU64::new(0),
        dup_first: AtomicU64::new(0),
        dup_last: AtomicU64::new(0),
        handled: AtomicU64::new(0),
        out_of_scope: AtomicU64::new(0),
        pops_nonempty: AtomicU64::new(0),
        pops_too_deep: AtomicU64::new(0),
        observations: AtomicU64::new(0),
    };
    let replays = AtomicU64::new(0);
    let mut passes = vec![];
    for origin_pass in [false, true] {
    ORIGIN_PASS.store(origin_pass, Relaxed);
    // the pass with b = Origin runs with a shorter buffer (same alphabet size, same closure)
    let l: usize = if origin_pass { l_main - 2 } else { l_main };

    // model length after a history (model only; used by `enabled`)
    let model_len = |hist: &[Op]| -> usize {
        let mut real = RollbackBuffer::new();
        let mut model = vec![];
        for op in hist {
            let _ = step(&mut real, &mut model, *op, None);
        }
        model.len()
    };
    let enabled = |hist: &[Op]| -> Vec<Op> {
        let n = match catch(|| model_len(hist)) {
            Ok(n) => n,
            Err(_) => return vec![],
        };
        let mut v = vec![];
        if n < l {
            for i in 0..3u8 {
                v.push(Op::Fwd(i));
            }
        }
        for i in 0..4u8 {
            v.push(Op::Back(i));
        }
        for k in POPS {
            v.push(Op::Pop(k));
        }
        v
    };
    let run_hist = |hist: &[Op]| -> Outcome {
        replays.fetch_add(1, Relaxed);
        let r = catch(|| {
            let mut real = RollbackBuffer::new();
            let mut model: Vec<Point> = vec![];
            let (prefix, last) = hist.split_at(hist.len() - 1);
            for op in prefix {
                step(&mut real, &mut model, *op, None)?;
            }
            step(&mut real, &mut model, last[0], Some(&diag))?;
            Ok::<String, Fail>(render(&model))
        });
        match r {
            Err(p) => {
                ctx.violation(p.site(), format!("RollbackBuffer panicked: {} at {}", p.message, p.location), json!({"history": format!("{hist:?}")}));
                Outcome::Violation
            }
            Ok(Err((fp, what))) => {
                ctx.violation(fp, what, json!({"history": format!("{hist:?}"), "points": "a=(10,0a..) b=(20,0b..) c=(20,0c..) d=(10,0d..) never inserted", "b_is_origin": ORIGIN_PASS.load(Relaxed)}));
                Outcome::Violation
            }
            Ok(Ok(k)) => Outcome::State(k),
        }
    };

    let cfg = bfs::Config { max_depth: 4 * l + 8, max_states: 10_000_000, parallel: true };
    let st = bfs::explore::<Op, _, _>(String::new(), enabled, run_hist, &cfg);

    let expected_states: usize = (0..=l as u32).map(|i| 3usize.pow(i)).sum();
    if ctx.violation_count() == 0 {
        if !st.fixpoint || st.capped {
            mc_core::report::machinery_failure(&format!("C26: search did not reach a fixpoint (depth {}, states {})", st.max_depth, st.states));
        }
        if st.states != expected_states {
            mc_core::report::machinery_failure(&format!("C26: {} canonical states, expected {} (all strings over abc up to length {l})", st.states, expected_states));
        }
    }
    passes.push((st, expected_states, l));
    }
    ORIGIN_PASS.store(false, Relaxed);
    let (st2, expected2, l2) = passes.pop().unwrap();
    let (st, expected_states, l) = passes.pop().unwrap();
    if ctx.violation_count() == 0 {
        let d = &diag;
        if d.handled.load(Relaxed) == 0 || d.out_of_scope.load(Relaxed) == 0 || d.pops_nonempty.load(Relaxed) == 0 || d.pops_too_deep.load(Relaxed) == 0 || d.dup_rollbacks.load(Relaxed) == 0 {
            mc_core::report::machinery_failure("C26: an outcome class (handled / out-of-scope / non-empty pop / too-deep pop / duplicate roll-back) was never exercised");
        }
    }
    if diag.dup_rollbacks.load(Relaxed) > 0 {
        ctx.note(format!(
            "diagnostic (not a verdict): roll_back to a point buffered more than once happened on {} transitions; pallas truncated at the FIRST occurrence on {} and at the LAST on {} of them (the list model requires the first)",
            diag.dup_rollbacks.load(Relaxed),
            diag.dup_first.load(Relaxed),
            diag.dup_last.load(Relaxed)
        ));
    }
    let cov = cov! {
        "states" => st.states,
        "transitions" => st.transitions,
        "traces_validated_against_impl" => replays.load(Relaxed),
        "samples" => st.samples,
        "fixpoint" => st.fixpoint,
        "exhaustive" => st.fixpoint && !st.capped,
        "depth_reached" => st.max_depth,
        "per_depth_new_states" => st.per_depth_new_states,
        "buffer_length_bound" => l,
        "expected_states" => expected_states,
        "origin_pass" => json!({"what": "the same exploration with b = Point::Origin (roll-forward, roll-back target, buffered duplicate)", "buffer_length_bound": l2, "states": st2.states, "expected_states": expected2, "transitions": st2.transitions, "fixpoint": st2.fixpoint}),
        "alphabet" => "roll_forward(a|b|c) while len < L; roll_back(a|b|c|d), d never inserted; pop_with_depth(0|1|2|5)",
        "observables_compared_after_every_op" => ["return value (RollbackEffect / popped list)", "peek()", "size()", "latest()", "oldest()", "position(a..d)"],
        "observations" => diag.observations.load(Relaxed),
        "rollbacks_handled" => diag.handled.load(Relaxed),
        "rollbacks_out_of_scope" => diag.out_of_scope.load(Relaxed),
        "pops_nonempty" => diag.pops_nonempty.load(Relaxed),
        "pops_deeper_than_buffer" => diag.pops_too_deep.load(Relaxed),
        "pruned_histories" => st.pruned,
    };
    ctx.finish(
        Level::ModelChecking,
        cov,
        &[
            "canonical key = buffer contents as returned by peek(); RollbackBuffer has no other field, so equal contents have equal futures (std VecDeque trusted)",
            "buffer length bounded by L (roll_forward disabled at L); within that bound the search is a fixpoint, i.e. sequences of any length",
            "roll_back / position of a point buffered twice: the list model scans from the oldest entry (first occurrence)",
        ],
    )
}
