//! pallas-network local-tx-submission: `Message<EraTx, TxValidationError>`
//! with one value per variant of every rejection enum (simple payloads: all
//! variants; large payload types: one value per variant of the payload enum).

use super::net1::STACK;
use super::{mk, Case};
use pallas_codec::utils::{AnyUInt, Bytes, CborWrap, KeyValuePairs, MaybeIndefArray, NonEmptyKeyValuePairs, Nullable, Set, TagWrap};
use pallas_crypto::hash::Hash;
use pallas_network::miniprotocols::localstate::queries_v16 as q16;
use pallas_network::miniprotocols::localtxsubmission as ltx;
use pallas_network::miniprotocols::localtxsubmission::primitives as prim;
use pallas_network::miniprotocols::localtxsubmission::{
    Array, BabbageContextError as BCE, CollectError as CE, ConwayCertPredFailure as CertF, ConwayCertsPredFailure as CertsF, ConwayContextError as CCE, ConwayDelegPredFailure as DelegF, ConwayGovCertPredFailure as GovCertF,
    ConwayGovPredFailure as GF, ConwayLedgerFailure as LF, ConwayTxCert, ConwayUtxoWPredFailure as UW, DeltaCoin, DisplayAddress, DisplayCoin, DisplayOSet, DisplayRewardAccount, DisplayScriptHash, DisplayVotingProcedures, EpochNo,
    FailureDescription, KeyHash, Mismatch, Network, OHashMap, PlutusPurpose, PlutusPurposeItem, PlutusPurposeIx, SMaybe, SafeHash, ShelleyPoolPredFailure as PoolF, TagMismatchDescription, TxOutSource, Utxo, UtxoFailure as UF,
    UtxosFailure as USF, VKey, ValidityInterval, VotingProcedure,
};
use std::collections::{BTreeMap, BTreeSet};

const P: &str = "localtxsubmission";
type Msg = ltx::Message<ltx::EraTx, ltx::TxValidationError>;

fn h28(b: u8) -> Hash<28> {
    Hash::from([b; 28])
}
fn h32(b: u8) -> Hash<32> {
    Hash::from([b; 32])
}
fn bytes(n: usize, b: u8) -> Bytes {
    Bytes::from(vec![b; n])
}
fn coin(i: u8) -> DisplayCoin {
    DisplayCoin(match i {
        0 => AnyUInt::MajorByte(0),
        1 => AnyUInt::U32(2_000_000),
        _ => AnyUInt::U64(u64::MAX),
    })
}
fn txin(i: u8) -> q16::TransactionInput {
    q16::TransactionInput { transaction_id: h32(i), index: if i == 2 { u64::MAX } else { i as u64 } }
}
fn value(i: u8) -> q16::Value {
    match i {
        0 => q16::Value::Coin(AnyUInt::U32(1_500_000)),
        _ => q16::Value::Multiasset(
            AnyUInt::U64(1 << 40),
            NonEmptyKeyValuePairs::Def(vec![
                (h28(0x51), NonEmptyKeyValuePairs::Def(vec![(bytes(0, 0), AnyUInt::MajorByte(1)), (bytes(32, 0x41), AnyUInt::U64(u64::MAX))])),
                (h28(0x52), NonEmptyKeyValuePairs::Def(vec![(Bytes::from(b"tok".to_vec()), AnyUInt::U16(1000))])),
            ]),
        ),
    }
}
fn plutus_data() -> q16::PlutusData {
    q16::PlutusData::Constr(q16::Constr {
        tag: 121,
        any_constructor: None,
        fields: MaybeIndefArray::Indef(vec![
            q16::PlutusData::BigInt(q16::BigInt::from(-5i64)),
            q16::PlutusData::BoundedBytes(q16::BoundedBytes::from(vec![1u8, 2, 3])),
            q16::PlutusData::Array(MaybeIndefArray::Def(vec![])),
            q16::PlutusData::Map(KeyValuePairs::from(vec![(q16::PlutusData::BigInt(q16::BigInt::from(1i64)), q16::PlutusData::BoundedBytes(q16::BoundedBytes::from(vec![])))])),
        ]),
    })
}
fn native_script() -> prim::NativeScript {
    use prim::NativeScript::*;
    ScriptAll(vec![ScriptPubkey(h28(1)), ScriptAny(vec![InvalidBefore(5), InvalidHereafter(u64::MAX)]), ScriptNOfK(1, vec![ScriptPubkey(h28(2))])])
}
pub fn tx_output(i: u8) -> q16::TransactionOutput {
    match i {
        0 => q16::TransactionOutput::Legacy(q16::LegacyTransactionOutput { address: bytes(57, 0x01), amount: value(0), datum_hash: None }),
        1 => q16::TransactionOutput::Current(q16::PostAlonsoTransactionOutput { address: bytes(57, 0x11), amount: value(1), inline_datum: Some(q16::DatumOption::Hash(h32(0xd1))), script_ref: None }),
        2 => q16::TransactionOutput::Legacy(q16::LegacyTransactionOutput { address: bytes(29, 0x61), amount: value(1), datum_hash: Some(h32(0xd2)) }),
        3 => q16::TransactionOutput::Current(q16::PostAlonsoTransactionOutput {
            address: bytes(29, 0x71),
            amount: value(0),
            inline_datum: Some(q16::DatumOption::Data(CborWrap(plutus_data()))),
            script_ref: Some(CborWrap(prim::PseudoScript::NativeScript(native_script()))),
        }),
        _ => q16::TransactionOutput::Current(q16::PostAlonsoTransactionOutput {
            address: bytes(57, 0x31),
            amount: value(0),
            inline_datum: None,
            script_ref: Some(CborWrap(prim::PseudoScript::PlutusV3Script(prim::PlutusScript(bytes(40, 0x4e))))),
        }),
    }
}
fn credential(i: u8) -> prim::Credential {
    if i % 2 == 0 {
        prim::Credential::ScriptHashObj(h28(0xc0 + i))
    } else {
        prim::Credential::KeyHashObj(h28(0xc0 + i))
    }
}
fn stake_cred(i: u8) -> prim::StakeCredential {
    if i % 2 == 0 {
        prim::StakeCredential::AddrKeyhash(h28(0x5c + i))
    } else {
        prim::StakeCredential::ScriptHash(h28(0x5c + i))
    }
}
fn voters() -> Vec<(&'static str, prim::Voter)> {
    use prim::Voter::*;
    vec![
        ("ConstitutionalCommitteeKey", ConstitutionalCommitteeKey(h28(1))),
        ("ConstitutionalCommitteeScript", ConstitutionalCommitteeScript(h28(2))),
        ("DRepKey", DRepKey(h28(3))),
        ("DRepScript", DRepScript(h28(4))),
        ("StakePoolKey", StakePoolKey(h28(5))),
    ]
}
fn gaid(i: u8) -> q16::GovActionId {
    q16::GovActionId { tx_id: h32(0x60 + i), gov_action_ix: if i == 2 { u32::MAX } else { i as u32 } }
}
fn anchor() -> q16::Anchor {
    q16::Anchor { url: "https://example.invalid/a.json".into(), data_hash: bytes(32, 0xaa) }
}
fn reward_account(i: u8) -> Bytes {
    Bytes::from([vec![0xe1], vec![i; 28]].concat())
}
fn dreps() -> Vec<(&'static str, q16::DRep)> {
    vec![("KeyHash", q16::DRep::KeyHash(bytes(28, 1))), ("ScriptHash", q16::DRep::ScriptHash(bytes(28, 2))), ("AlwaysAbstain", q16::DRep::AlwaysAbstain), ("AlwaysNoConfidence", q16::DRep::AlwaysNoConfidence)]
}
fn gov_actions() -> Vec<(&'static str, q16::GovAction)> {
    use q16::GovAction::*;
    let mut v = vec![
        ("HardForkInitiation", HardForkInitiation(Some(gaid(0)), (10, 0))),
        ("HardForkInitiation/no-prev", HardForkInitiation(None, (u64::MAX, 2))),
        ("TreasuryWithdrawals", TreasuryWithdrawals(KeyValuePairs::from(vec![(reward_account(1), AnyUInt::U32(1_000_000)), (reward_account(2), AnyUInt::MajorByte(0))]), Some(h28(9)))),
        ("TreasuryWithdrawals/empty", TreasuryWithdrawals(KeyValuePairs::from(vec![]), None)),
        ("NoConfidence", NoConfidence(Some(gaid(1)))),
        ("NoConfidence/no-prev", NoConfidence(None)),
        (
            "UpdateCommittee",
            UpdateCommittee(
                Some(gaid(2)),
                TagWrap::new([stake_cred(0), stake_cred(1)].into_iter().collect::<BTreeSet<_>>()),
                [(stake_cred(2), 500u64), (stake_cred(3), u64::MAX)].into_iter().collect::<BTreeMap<_, _>>(),
                q16::RationalNumber { numerator: 2, denominator: 3 },
            ),
        ),
        ("NewConstitution", NewConstitution(None, q16::Constitution { anchor: anchor(), script: Some(h28(7)) })),
        ("NewConstitution/no-script", NewConstitution(Some(gaid(0)), q16::Constitution { anchor: anchor(), script: None })),
        ("InfoAction", InfoAction),
    ];
    // PParamsUpdate has ~30 optional fields and no Default; the all-absent
    // value is obtained from its own decoder (empty map)
    if let Ok(Ok(pp)) = mc_core::catch(|| pallas_codec::minicbor::decode::<q16::PParamsUpdate>(&[0xa0])) {
        let mut pp2 = pp.clone();
        pp2.minfee_a = Some(44);
        pp2.max_transaction_size = Some(16384);
        v.push(("ParameterChange/empty", ParameterChange(None, pp, None)));
        v.push(("ParameterChange", ParameterChange(Some(gaid(1)), pp2, Some(h28(8)))));
    }
    v
}
fn proposal(ga: q16::GovAction) -> q16::ProposalProcedure {
    q16::ProposalProcedure { deposit: AnyUInt::U64(100_000_000_000), return_addr: reward_account(3), gov_action: ga, anchor: anchor() }
}
fn certificates() -> Vec<(&'static str, ConwayTxCert)> {
    use prim::Certificate::*;
    use ConwayTxCert::*;
    let c = AnyUInt::U32(2_000_000);
    vec![
        ("StakeRegistration", Deleg(StakeRegistration(stake_cred(0)))),
        ("StakeDeregistration", Deleg(StakeDeregistration(stake_cred(1)))),
        ("StakeDelegation", Deleg(StakeDelegation(stake_cred(0), h28(0x70)))),
        (
            "PoolRegistration",
            Pool(PoolRegistration {
                operator: h28(0x70),
                vrf_keyhash: h32(0x71),
                pledge: AnyUInt::U64(1 << 40),
                cost: AnyUInt::U32(340_000_000),
                margin: q16::RationalNumber { numerator: 1, denominator: 100 },
                reward_account: reward_account(4),
                pool_owners: Set::from(vec![h28(0x72), h28(0x73)]),
                relays: vec![
                    q16::Relay::SingleHostAddr(Nullable::Some(3001), Nullable::Some(bytes(4, 10)), Nullable::Null),
                    q16::Relay::SingleHostAddr(Nullable::Null, Nullable::Null, Nullable::Some(bytes(16, 0x20))),
                    q16::Relay::SingleHostName(Nullable::Some(6000), "relay.example.invalid".into()),
                    q16::Relay::SingleHostName(Nullable::Null, "r".into()),
                    q16::Relay::MultiHostName("pool.example.invalid".into()),
                ],
                pool_metadata: Nullable::Some(q16::PoolMetadata { url: "https://example.invalid/p.json".into(), hash: bytes(32, 0x74) }),
            }),
        ),
        (
            "PoolRegistration/minimal",
            Pool(PoolRegistration {
                operator: h28(0),
                vrf_keyhash: h32(0),
                pledge: AnyUInt::MajorByte(0),
                cost: AnyUInt::MajorByte(0),
                margin: q16::RationalNumber { numerator: 0, denominator: 1 },
                reward_account: reward_account(0),
                pool_owners: Set::from(vec![]),
                relays: vec![],
                pool_metadata: Nullable::Null,
            }),
        ),
        ("PoolRetirement", Pool(PoolRetirement(h28(0x70), 500))),
        ("Reg", Deleg(Reg(stake_cred(0), c))),
        ("UnReg", Deleg(UnReg(stake_cred(1), c))),
        ("VoteDeleg", Deleg(VoteDeleg(stake_cred(0), dreps()[0].1.clone()))),
        ("StakeVoteDeleg", Deleg(StakeVoteDeleg(stake_cred(1), h28(0x70), dreps()[2].1.clone()))),
        ("StakeRegDeleg", Deleg(StakeRegDeleg(stake_cred(0), h28(0x70), c))),
        ("VoteRegDeleg", Deleg(VoteRegDeleg(stake_cred(1), dreps()[1].1.clone(), c))),
        ("StakeVoteRegDeleg", Deleg(StakeVoteRegDeleg(stake_cred(0), h28(0x70), dreps()[3].1.clone(), c))),
        ("AuthCommitteeHot", Gov(AuthCommitteeHot(stake_cred(0), stake_cred(1)))),
        ("ResignCommitteeCold", Gov(ResignCommitteeCold(stake_cred(0), Nullable::Some(anchor())))),
        ("ResignCommitteeCold/no-anchor", Gov(ResignCommitteeCold(stake_cred(1), Nullable::Null))),
        ("RegDRepCert", Gov(RegDRepCert(stake_cred(0), c, Nullable::Some(anchor())))),
        ("UnRegDRepCert", Gov(UnRegDRepCert(stake_cred(1), c))),
        ("UpdateDRepCert", Gov(UpdateDRepCert(stake_cred(0), Nullable::Null))),
    ]
}
fn purposes_item() -> Vec<(&'static str, PlutusPurposeItem)> {
    vec![
        ("Spending", PlutusPurpose::Spending(txin(1))),
        ("Minting", PlutusPurpose::Minting(h28(0x51))),
        ("Certifying", PlutusPurpose::Certifying(certificates()[0].1.clone())),
        ("Rewarding", PlutusPurpose::Rewarding(DisplayRewardAccount(reward_account(5)))),
        ("Voting", PlutusPurpose::Voting(voters()[2].1.clone())),
        ("Proposing", PlutusPurpose::Proposing(proposal(q16::GovAction::InfoAction))),
    ]
}
fn purposes_ix() -> Vec<(&'static str, PlutusPurposeIx)> {
    vec![
        ("Spending", PlutusPurpose::Spending(0)),
        ("Minting", PlutusPurpose::Minting(1)),
        ("Certifying", PlutusPurpose::Certifying(23)),
        ("Rewarding", PlutusPurpose::Rewarding(24)),
        ("Voting", PlutusPurpose::Voting(65536)),
        ("Proposing", PlutusPurpose::Proposing(u64::MAX)),
    ]
}
fn voting_procedures() -> DisplayVotingProcedures {
    DisplayVotingProcedures(NonEmptyKeyValuePairs::Def(
        voters()
            .into_iter()
            .take(2)
            .enumerate()
            .map(|(i, (_, v))| {
                (
                    v,
                    NonEmptyKeyValuePairs::Def(vec![
                        (gaid(i as u8), VotingProcedure { vote: q16::Vote::Yes, anchor: Nullable::Some(anchor()) }),
                        (gaid(2), VotingProcedure { vote: if i == 0 { q16::Vote::No } else { q16::Vote::Abstain }, anchor: Nullable::Null }),
                    ]),
                )
            })
            .collect(),
    ))
}

struct Rej {
    path: String,
    lf: LF,
    inner: Vec<Box<dyn FnOnce(Case) -> Case>>,
}

fn rej(path: &str, lf: LF) -> Rej {
    Rej { path: path.to_string(), lf, inner: vec![] }
}
impl Rej {
    /// Stand-alone probe of a component value (innermost first).
    fn with<T>(mut self, label: &'static str, v: T) -> Self
    where
        T: pallas_codec::minicbor::Encode<()> + for<'b> pallas_codec::minicbor::Decode<'b, ()> + std::fmt::Debug + Send + Sync + 'static,
    {
        self.inner.push(Box::new(move |c: Case| c.probe(label, v)));
        self
    }
}

fn all_rejections() -> Vec<Rej> {
    let mut v: Vec<Rej> = vec![];
    let ohm_wd = || OHashMap(vec![(DisplayRewardAccount(reward_account(1)), coin(1)), (DisplayRewardAccount(reward_account(2)), coin(2))]);
    // ---- ConwayLedgerFailure, simple variants
    v.push(rej("ConwayLedgerFailure::WdrlNotDelegatedToDRep", LF::WdrlNotDelegatedToDRep(vec![KeyHash(bytes(28, 1)), KeyHash(bytes(28, 2))])));
    v.push(rej("ConwayLedgerFailure::WdrlNotDelegatedToDRep/empty", LF::WdrlNotDelegatedToDRep(vec![])));
    v.push(rej("ConwayLedgerFailure::TreasuryValueMismatch", LF::TreasuryValueMismatch(coin(0), coin(2))));
    v.push(rej("ConwayLedgerFailure::TxRefScriptsSizeTooBig", LF::TxRefScriptsSizeTooBig(i64::MAX, -1)));
    v.push(rej("ConwayLedgerFailure::MempoolFailure", LF::MempoolFailure("mempool full \u{00e9}".into())));
    v.push(rej("ConwayLedgerFailure::WithdrawalsMissingAccounts", LF::WithdrawalsMissingAccounts(ohm_wd())).with("localtxsubmission::OHashMap", ohm_wd()));
    v.push(rej("ConwayLedgerFailure::WithdrawalsMissingAccounts/empty", LF::WithdrawalsMissingAccounts(OHashMap(vec![]))).with("localtxsubmission::OHashMap", OHashMap::<DisplayRewardAccount, DisplayCoin>(vec![])));
    v.push(
        rej("ConwayLedgerFailure::IncompleteWithdrawals", LF::IncompleteWithdrawals(OHashMap(vec![(DisplayRewardAccount(reward_account(1)), (coin(1), coin(2)))])))
            .with("localtxsubmission::OHashMap", OHashMap(vec![(DisplayRewardAccount(reward_account(1)), (coin(1), coin(2)))])),
    );
    // ---- UtxowFailure
    let uw = |p: &str, x: UW| rej(&format!("ConwayUtxoWPredFailure::{p}"), LF::UtxowFailure(x));
    let shs = || Set::from(vec![h28(1), h28(2)]);
    let safes = || Set::from(vec![SafeHash(bytes(32, 1)), SafeHash(bytes(32, 2))]);
    v.push(uw("InvalidWitnessesUTXOW", UW::InvalidWitnessesUTXOW(Array(vec![VKey(bytes(32, 1)), VKey(bytes(32, 2))]))));
    v.push(uw("MissingVKeyWitnessesUTXOW", UW::MissingVKeyWitnessesUTXOW(Set::from(vec![KeyHash(bytes(28, 1))]))));
    v.push(uw("MissingScriptWitnessesUTXOW", UW::MissingScriptWitnessesUTXOW(shs())));
    v.push(uw("ScriptWitnessNotValidatingUTXOW", UW::ScriptWitnessNotValidatingUTXOW(shs())));
    v.push(uw("MissingTxBodyMetadataHash", UW::MissingTxBodyMetadataHash(bytes(32, 3))));
    v.push(uw("MissingTxMetadata", UW::MissingTxMetadata(bytes(32, 4))));
    v.push(uw("ConflictingMetadataHash", UW::ConflictingMetadataHash(bytes(32, 5), bytes(32, 6))));
    v.push(uw("InvalidMetadata", UW::InvalidMetadata()));
    v.push(uw("ExtraneousScriptWitnessesUTXOW", UW::ExtraneousScriptWitnessesUTXOW(Set::from(vec![]))));
    for (n, pi) in purposes_item() {
        v.push(uw(&format!("MissingRedeemers[{n}]"), UW::MissingRedeemers(Array(vec![(pi.clone(), h28(9))]))).with("localtxsubmission::PlutusPurpose", pi));
    }
    v.push(uw("MissingRequiredDatums", UW::MissingRequiredDatums(safes(), Set::from(vec![]))));
    v.push(uw("NotAllowedSupplementalDatums", UW::NotAllowedSupplementalDatums(Set::from(vec![]), safes())));
    v.push(uw("PPViewHashesDontMatch", UW::PPViewHashesDontMatch(SMaybe::Some(SafeHash(bytes(32, 7))), SMaybe::None)));
    v.push(uw("UnspendableUTxONoDatumHash", UW::UnspendableUTxONoDatumHash(Set::from(vec![txin(0), txin(2)]))));
    for (n, pi) in purposes_ix() {
        v.push(uw(&format!("ExtraRedeemers[{n}]"), UW::ExtraRedeemers(Array(vec![pi.clone()]))).with("localtxsubmission::PlutusPurpose", pi));
    }
    v.push(uw("MalformedScriptWitnesses", UW::MalformedScriptWitnesses(shs())));
    v.push(uw("MalformedReferenceScripts", UW::MalformedReferenceScripts(shs())));
    // ---- UtxoFailure
    let uf = |p: &str, x: UF| rej(&format!("UtxoFailure::{p}"), LF::UtxowFailure(UW::UtxoFailure(x)));
    v.push(uf("BadInputsUTxO", UF::BadInputsUTxO(Set::from(vec![txin(0), txin(1), txin(2)]))));
    v.push(uf("OutsideValidityIntervalUTxO", UF::OutsideValidityIntervalUTxO(ValidityInterval { invalid_before: SMaybe::None, invalid_hereafter: SMaybe::Some(u64::MAX) }, 5)));
    v.push(uf("OutsideValidityIntervalUTxO/both", UF::OutsideValidityIntervalUTxO(ValidityInterval { invalid_before: SMaybe::Some(0), invalid_hereafter: SMaybe::Some(24) }, 23)));
    v.push(uf("MaxTxSizeUTxO", UF::MaxTxSizeUTxO(16384, 20000)));
    v.push(uf("InputSetEmptyUTxO", UF::InputSetEmptyUTxO));
    v.push(uf("FeeTooSmallUTxO", UF::FeeTooSmallUTxO(coin(1), coin(0))));
    for i in 0..2u8 {
        v.push(uf(&format!("ValueNotConservedUTxO[{i}]"), UF::ValueNotConservedUTxO(value(i), value(1 - i))).with("queries_v16::Value", value(i)));
    }
    v.push(uf("WrongNetwork", UF::WrongNetwork(Network::Mainnet, Set::from(vec![DisplayAddress(bytes(57, 0))]))));
    v.push(uf("WrongNetworkWithdrawal", UF::WrongNetworkWithdrawal(Network::Testnet, Set::from(vec![DisplayRewardAccount(reward_account(1))]))));
    for i in 0..5u8 {
        v.push(uf(&format!("OutputTooSmallUTxO[out{i}]"), UF::OutputTooSmallUTxO(Array(vec![tx_output(i)]))).with("queries_v16::TransactionOutput", tx_output(i)));
    }
    v.push(uf("OutputBootAddrAttrsTooBig", UF::OutputBootAddrAttrsTooBig(Array(vec![tx_output(0), tx_output(1)]))));
    v.push(uf("OutputTooBigUTxO", UF::OutputTooBigUTxO(Array(vec![(5000, 4000, tx_output(1))]))));
    v.push(uf("InsufficientCollateral", UF::InsufficientCollateral(DeltaCoin(-5), coin(1))));
    v.push(uf("InsufficientCollateral/max", UF::InsufficientCollateral(DeltaCoin(i32::MAX), coin(2))));
    let utxo = || OHashMap(vec![(txin(0), tx_output(0)), (txin(1), tx_output(1))]);
    v.push(uf("ScriptsNotPaidUTxO", UF::ScriptsNotPaidUTxO(Utxo(utxo()))).with("localtxsubmission::OHashMap", utxo()));
    v.push(uf("ExUnitsTooBigUTxO", UF::ExUnitsTooBigUTxO(q16::ExUnits { mem: 14_000_000, steps: 10_000_000_000 }, q16::ExUnits { mem: u64::MAX, steps: 0 })));
    v.push(uf("CollateralContainsNonADA", UF::CollateralContainsNonADA(value(1))));
    v.push(uf("WrongNetworkInTxBody", UF::WrongNetworkInTxBody(Network::Mainnet, Network::Testnet)));
    v.push(uf("OutsideForecast", UF::OutsideForecast(u64::MAX)));
    v.push(uf("TooManyCollateralInputs", UF::TooManyCollateralInputs(3, 65535)));
    v.push(uf("NoCollateralInputs", UF::NoCollateralInputs));
    v.push(uf("IncorrectTotalCollateralField", UF::IncorrectTotalCollateralField(DeltaCoin(i32::MIN), coin(1))));
    v.push(uf("BabbageOutputTooSmallUTxO", UF::BabbageOutputTooSmallUTxO(Array(vec![(tx_output(1), coin(1)), (tx_output(0), coin(0))]))));
    v.push(uf("BabbageNonDisjointRefInputs", UF::BabbageNonDisjointRefInputs(vec![txin(0), txin(1)])));
    // ---- UtxosFailure / TagMismatchDescription / FailureDescription
    let usf = |p: &str, x: USF| rej(p, LF::UtxowFailure(UW::UtxoFailure(UF::UtxosFailure(x))));
    v.push(usf("UtxosFailure::ValidationTagMismatch/PassedUnexpectedly", USF::ValidationTagMismatch(true, TagMismatchDescription::PassedUnexpectedly)));
    v.push(usf(
        "UtxosFailure::ValidationTagMismatch/FailedUnexpectedly",
        USF::ValidationTagMismatch(false, TagMismatchDescription::FailedUnexpectedly(vec![FailureDescription::PlutusFailure("script failed".into(), bytes(50, 0x99)), FailureDescription::PlutusFailure(String::new(), bytes(0, 0))])),
    ));
    // ---- CollectError
    let ce = |p: &str, x: CE| rej(&format!("CollectError::{p}"), LF::UtxowFailure(UW::UtxoFailure(UF::UtxosFailure(USF::CollectErrors(Array(vec![x]))))));
    for (n, pi) in purposes_item() {
        v.push(ce(&format!("NoRedeemer[{n}]"), CE::NoRedeemer(pi.clone())).with("localtxsubmission::PlutusPurpose", pi));
    }
    v.push(ce("NoWitness", CE::NoWitness(DisplayScriptHash(h28(3)))));
    for (n, l) in [("PlutusV1", prim::Language::PlutusV1), ("PlutusV2", prim::Language::PlutusV2), ("PlutusV3", prim::Language::PlutusV3)] {
        v.push(ce(&format!("NoCostModel[{n}]"), CE::NoCostModel(l)));
    }
    v.push(rej("UtxosFailure::CollectErrors/empty", LF::UtxowFailure(UW::UtxoFailure(UF::UtxosFailure(USF::CollectErrors(Array(vec![])))))));
    // ---- ConwayContextError / BabbageContextError
    let cce = |p: &str, x: CCE| rej(p, LF::UtxowFailure(UW::UtxoFailure(UF::UtxosFailure(USF::CollectErrors(Array(vec![CE::BadTranslation(x)]))))));
    for (n, c) in certificates() {
        v.push(cce(&format!("ConwayContextError::CertificateNotSupported[{n}]"), CCE::CertificateNotSupported(c.clone())).with("localtxsubmission::ConwayTxCert", c));
    }
    v.push(cce("ConwayContextError::PlutusPurposeNotSupported", CCE::PlutusPurposeNotSupported(purposes_item()[0].1.clone())).with("localtxsubmission::PlutusPurpose", purposes_item()[0].1.clone()));
    v.push(cce("ConwayContextError::CurrentTreasuryFieldNotSupported", CCE::CurrentTreasuryFieldNotSupported(coin(1))));
    v.push(cce("ConwayContextError::VotingProceduresFieldNotSupported", CCE::VotingProceduresFieldNotSupported(voting_procedures())).with("localtxsubmission::DisplayVotingProcedures", voting_procedures()));
    for (n, ga) in gov_actions() {
        v.push(
            cce(&format!("ConwayContextError::ProposalProceduresFieldNotSupported[{n}]"), CCE::ProposalProceduresFieldNotSupported(DisplayOSet(Set::from(vec![proposal(ga.clone())]))))
                .with("queries_v16::GovAction", ga.clone())
                .with("queries_v16::ProposalProcedure", proposal(ga)),
        );
    }
    v.push(cce("ConwayContextError::TreasuryDonationFieldNotSupported", CCE::TreasuryDonationFieldNotSupported(coin(2))));
    let bce = |p: &str, x: BCE| rej(&format!("BabbageContextError::{p}"), LF::UtxowFailure(UW::UtxoFailure(UF::UtxosFailure(USF::CollectErrors(Array(vec![CE::BadTranslation(CCE::BabbageContextError(x))]))))));
    v.push(bce("ByronTxOutInContext/Input", BCE::ByronTxOutInContext(TxOutSource::Input(txin(0)))));
    v.push(bce("ByronTxOutInContext/Output", BCE::ByronTxOutInContext(TxOutSource::Output(u64::MAX))));
    v.push(bce("AlonzoMissingInput", BCE::AlonzoMissingInput(txin(1))));
    v.push(bce("RedeemerPointerPointsToNothing", BCE::RedeemerPointerPointsToNothing(purposes_ix()[1].1.clone())).with("localtxsubmission::PlutusPurpose", purposes_ix()[1].1.clone()));
    v.push(bce("InlineDatumsNotSupported", BCE::InlineDatumsNotSupported(TxOutSource::Output(0))));
    v.push(bce("ReferenceScriptsNotSupported", BCE::ReferenceScriptsNotSupported(TxOutSource::Input(txin(2)))));
    v.push(bce("ReferenceInputsNotSupported", BCE::ReferenceInputsNotSupported(Set::from(vec![txin(0)]))));
    v.push(bce("AlonzoTimeTranslationPastHorizon", BCE::AlonzoTimeTranslationPastHorizon("past horizon".into())));
    // ---- CertsFailure
    v.push(rej("ConwayCertsPredFailure::WithdrawalsNotInRewardsCERTS", LF::CertsFailure(CertsF::WithdrawalsNotInRewardsCERTS(ohm_wd()))).with("localtxsubmission::OHashMap", ohm_wd()));
    let deleg = |p: &str, x: DelegF| rej(&format!("ConwayDelegPredFailure::{p}"), LF::CertsFailure(CertsF::CertFailure(CertF::DelegFailure(x))));
    v.push(deleg("IncorrectDepositDELEG", DelegF::IncorrectDepositDELEG(coin(1))));
    v.push(deleg("StakeKeyRegisteredDELEG", DelegF::StakeKeyRegisteredDELEG(credential(0))));
    v.push(deleg("StakeKeyNotRegisteredDELEG", DelegF::StakeKeyNotRegisteredDELEG(credential(1))));
    v.push(deleg("StakeKeyHasNonZeroRewardAccountBalanceDELEG", DelegF::StakeKeyHasNonZeroRewardAccountBalanceDELEG(coin(2))));
    v.push(deleg("DelegateeDRepNotRegisteredDELEG", DelegF::DelegateeDRepNotRegisteredDELEG(credential(0))));
    v.push(deleg("DelegateeStakePoolNotRegisteredDELEG", DelegF::DelegateeStakePoolNotRegisteredDELEG(KeyHash(bytes(28, 8)))));
    let pool = |p: &str, x: PoolF| rej(&format!("ShelleyPoolPredFailure/{p}"), LF::CertsFailure(CertsF::CertFailure(CertF::PoolFailure(x))));
    v.push(pool("StakePoolNotRegisteredOnKeyPOOL", PoolF::StakePoolNotRegisteredOnKeyPOOL(KeyHash(bytes(28, 1)))));
    // `Mismatch` is probed on its own: its encoder writes two items for what the
    // enclosing derived (flat) encoders declare as one field
    v.push(pool("StakePoolRetirementWrongEpochPOOL", PoolF::StakePoolRetirementWrongEpochPOOL(Mismatch(EpochNo(500), EpochNo(501)), Mismatch(EpochNo(500), EpochNo(518)))).with("localtxsubmission::Mismatch", Mismatch(EpochNo(500), EpochNo(501))));
    v.push(pool("StakePoolCostTooLowPOOL", PoolF::StakePoolCostTooLowPOOL(Mismatch(coin(1), coin(2)))).with("localtxsubmission::Mismatch", Mismatch(coin(1), coin(2))));
    v.push(pool("WrongNetworkPOOL", PoolF::WrongNetworkPOOL(Mismatch(Network::Testnet, Network::Mainnet), KeyHash(bytes(28, 2)))).with("localtxsubmission::Mismatch", Mismatch(Network::Testnet, Network::Mainnet)));
    v.push(pool("PoolMedataHashTooBig", PoolF::PoolMedataHashTooBig(KeyHash(bytes(28, 3)), 64)));
    let govc = |p: &str, x: GovCertF| rej(&format!("ConwayGovCertPredFailure::{p}"), LF::CertsFailure(CertsF::CertFailure(CertF::GovCertFailure(x))));
    v.push(govc("DRepAlreadyRegistered", GovCertF::DRepAlreadyRegistered(credential(0))));
    v.push(govc("DRepNotRegistered", GovCertF::DRepNotRegistered(credential(1))));
    v.push(govc("DRepIncorrectDeposit", GovCertF::DRepIncorrectDeposit(coin(1), coin(2))));
    v.push(govc("CommitteeHasPreviouslyResigned", GovCertF::CommitteeHasPreviouslyResigned(credential(0))));
    v.push(govc("DRepIncorrectRefund", GovCertF::DRepIncorrectRefund(coin(0), coin(1))));
    v.push(govc("CommitteeIsUnknown", GovCertF::CommitteeIsUnknown(credential(1))));
    // ---- GovFailure
    let gf = |p: &str, x: GF| rej(&format!("ConwayGovPredFailure::{p}"), LF::GovFailure(x));
    let voter_ids = || -> Vec<(prim::Voter, q16::GovActionId)> { voters().into_iter().enumerate().map(|(i, (_, vt))| (vt, gaid((i % 3) as u8))).collect() };
    v.push(gf("GovActionsDoNotExist", GF::GovActionsDoNotExist(vec![gaid(0), gaid(2)])));
    for (n, ga) in gov_actions() {
        v.push(gf(&format!("MalformedProposal[{n}]"), GF::MalformedProposal(ga.clone())).with("queries_v16::GovAction", ga));
    }
    v.push(gf("ProposalProcedureNetworkIdMismatch", GF::ProposalProcedureNetworkIdMismatch(DisplayRewardAccount(reward_account(1)), Network::Mainnet)));
    v.push(gf("TreasuryWithdrawalsNetworkIdMismatch", GF::TreasuryWithdrawalsNetworkIdMismatch(Set::from(vec![DisplayRewardAccount(reward_account(1))]), Network::Testnet)));
    v.push(gf("ProposalDepositIncorrect", GF::ProposalDepositIncorrect(coin(1), coin(2))));
    v.push(gf("DisallowedVoters", GF::DisallowedVoters(voter_ids())).with("localtxsubmission::Voter", voters()[0].1.clone()));
    v.push(gf("ConflictingCommitteeUpdate", GF::ConflictingCommitteeUpdate(Set::from(vec![credential(0), credential(1)]))));
    let exp = || OHashMap(vec![(stake_cred(0), EpochNo(5)), (stake_cred(1), EpochNo(u64::MAX))]);
    v.push(gf("ExpirationEpochTooSmall", GF::ExpirationEpochTooSmall(exp())).with("localtxsubmission::OHashMap", exp()));
    v.push(gf("InvalidPrevGovActionId", GF::InvalidPrevGovActionId(proposal(gov_actions()[0].1.clone()))).with("queries_v16::ProposalProcedure", proposal(gov_actions()[0].1.clone())));
    v.push(gf("VotingOnExpiredGovAction", GF::VotingOnExpiredGovAction(voter_ids())));
    v.push(gf("ProposalCantFollow", GF::ProposalCantFollow(SMaybe::Some(gaid(0)), (9, 0), (11, 0))));
    v.push(gf("ProposalCantFollow/none", GF::ProposalCantFollow(SMaybe::None, (9, 1), (10, 0))));
    v.push(gf("InvalidPolicyHash", GF::InvalidPolicyHash(SMaybe::Some(DisplayScriptHash(h28(1))), SMaybe::None)));
    v.push(gf("DisallowedProposalDuringBootstrap", GF::DisallowedProposalDuringBootstrap(proposal(q16::GovAction::InfoAction))));
    v.push(gf("DisallowedVotesDuringBootstrap", GF::DisallowedVotesDuringBootstrap(voter_ids())));
    v.push(gf("VotersDoNotExist", GF::VotersDoNotExist(voters().into_iter().map(|x| x.1).collect())));
    v.push(gf("ZeroTreasuryWithdrawals", GF::ZeroTreasuryWithdrawals(gov_actions()[3].1.clone())));
    v.push(gf("ProposalReturnAccountDoesNotExist", GF::ProposalReturnAccountDoesNotExist(DisplayRewardAccount(reward_account(9)))));
    v.push(gf("TreasuryWithdrawalReturnAccountsDoNotExist", GF::TreasuryWithdrawalReturnAccountsDoNotExist(vec![DisplayRewardAccount(reward_account(1)), DisplayRewardAccount(reward_account(2))])));
    v
}

pub fn cases(out: &mut Vec<Case>, _thorough: bool) {
    out.push(mk(STACK, P, "AcceptTx", "-", Msg::AcceptTx));
    out.push(mk(STACK, P, "Done", "-", Msg::Done));
    for (n, era, body) in [("era0-empty", 0u16, vec![]), ("era6-small", 6, vec![0x84, 0xa0, 0xa0, 0xf5, 0xf6]), ("era65535-16k", 65535, vec![0x66; 16384])] {
        out.push(mk(STACK, P, "SubmitTx", n, Msg::SubmitTx(ltx::EraTx(era, body.clone()))).probe("localtxsubmission::EraTx", ltx::EraTx(era, body)));
    }
    // rejection carrying no ledger failure, in every era
    use ltx::ShelleyBasedEra::*;
    for (n, era) in [("Shelley", Shelley), ("Allegra", Allegra), ("Mary", Mary), ("Alonzo", Alonzo), ("Babbage", Babbage), ("Conway", Conway)] {
        let e = ltx::TxValidationError::ShelleyTxValidationError { error: ltx::ApplyTxError(vec![]), era };
        out.push(mk(STACK, P, "RejectTx", &format!("Shelley[{n}]/no-failures"), Msg::RejectTx(e.clone())).probe("localtxsubmission::ShelleyBasedEra", e.clone_era()).probe("localtxsubmission::TxValidationError::ShelleyTxValidationError", e));
    }
    out.push(
        mk(STACK, P, "RejectTx", "Byron", Msg::RejectTx(ltx::TxValidationError::ByronTxValidationError { error: ltx::ApplyTxError(vec![]) }))
            .probe("localtxsubmission::TxValidationError(encode of a non-Shelley variant)", ltx::TxValidationError::ByronTxValidationError { error: ltx::ApplyTxError(vec![]) }),
    );
    out.push(
        mk(STACK, P, "RejectTx", "Plutus", Msg::RejectTx(ltx::TxValidationError::Plutus("script error".into())))
            .probe("localtxsubmission::TxValidationError(encode of a non-Shelley variant)", ltx::TxValidationError::Plutus("script error".into())),
    );
    for r in all_rejections() {
        let e = ltx::TxValidationError::ShelleyTxValidationError { error: ltx::ApplyTxError(vec![r.lf.clone()]), era: Conway };
        let mut c = mk(STACK, P, "RejectTx", &r.path, Msg::RejectTx(e.clone()));
        for f in r.inner {
            c = f(c);
        }
        let leaf = r.path.split(['[', '/']).next().unwrap().to_string();
        c = c
            .probe(&format!("localtxsubmission::{leaf}"), r.lf.clone())
            .probe("localtxsubmission::ApplyTxError", ltx::ApplyTxError(vec![r.lf]))
            .probe("localtxsubmission::TxValidationError::ShelleyTxValidationError", e);
        out.push(c);
    }
    // two failures in one rejection
    let two = ltx::TxValidationError::ShelleyTxValidationError { error: ltx::ApplyTxError(vec![LF::MempoolFailure("a".into()), LF::TxRefScriptsSizeTooBig(1, 2)]), era: Babbage };
    out.push(mk(STACK, P, "RejectTx", "two-failures", Msg::RejectTx(two.clone())).probe("localtxsubmission::TxValidationError::ShelleyTxValidationError", two));
}

trait CloneEra {
    fn clone_era(&self) -> ltx::ShelleyBasedEra;
}
impl CloneEra for ltx::TxValidationError {
    fn clone_era(&self) -> ltx::ShelleyBasedEra {
        match self {
            ltx::TxValidationError::ShelleyTxValidationError { era, .. } => era.clone(),
            _ => ltx::ShelleyBasedEra::Conway,
        }
    }
}
