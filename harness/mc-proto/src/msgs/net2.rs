//! pallas-network2 (`protocol::*`) message cases.

use super::{mk, mk_with, Case};
use pallas_codec::minicbor;
use pallas_network2::protocol::{blockfetch as bf, chainsync as cs, handshake as hs, keepalive as ka, leiosfetch as lf, leiosnotify as ln, peersharing as ps, txsubmission as txs, AnyCbor, Point};

const STACK: &str = "pallas-network2";
type TxMsg = txs::Message;
type PortT = u16;

crate::shared_protocol_cases!();

fn blockfetch(out: &mut Vec<Case>) {
    let p = "blockfetch";
    out.push(mk(STACK, p, "ClientDone", "-", bf::Message::ClientDone));
    out.push(mk(STACK, p, "StartBatch", "-", bf::Message::StartBatch));
    out.push(mk(STACK, p, "NoBlocks", "-", bf::Message::NoBlocks));
    out.push(mk(STACK, p, "BatchDone", "-", bf::Message::BatchDone));
    for (an, a) in points() {
        for (bn, b) in points() {
            out.push(mk(STACK, p, "RequestRange", &format!("{an}..{bn}"), bf::Message::RequestRange((a.clone(), b.clone()))).probe("Point", a.clone()));
        }
    }
    for (bn, b) in [("empty", vec![]), ("23", vec![1u8; 23]), ("24", vec![2; 24]), ("256", vec![3; 256]), ("65536", vec![4; 65536])] {
        out.push(mk(STACK, p, "Block", bn, bf::Message::Block(b)));
    }
}

pub fn anys() -> Vec<(&'static str, AnyCbor)> {
    vec![
        ("uint", AnyCbor::from_raw_bytes(vec![0x00])),
        ("empty-array", AnyCbor::from_raw_bytes(vec![0x80])),
        ("map", AnyCbor::from_raw_bytes(vec![0xa1, 0x58, 0x20].into_iter().chain([0xcd; 32]).chain([0x19, 0x01, 0x00]).collect())),
        ("indef-array", AnyCbor::from_raw_bytes(vec![0x9f, 0x01, 0x82, 0x02, 0x03, 0xff])),
        ("tagged-bytes", AnyCbor::from_raw_bytes(vec![0xd8, 0x18, 0x43, 0x01, 0x02, 0x03])),
    ]
}

fn leiosnotify(out: &mut Vec<Case>) {
    let p = "leiosnotify";
    out.push(mk(STACK, p, "RequestNext", "-", ln::Message::RequestNext));
    out.push(mk(STACK, p, "Done", "-", ln::Message::Done));
    for (an, a) in anys() {
        out.push(mk(STACK, p, "BlockAnnouncement", an, ln::Message::BlockAnnouncement(a)));
    }
    for (pn, pt) in points() {
        for size in [0u32, 23, 24, 65536, u32::MAX] {
            out.push(mk(STACK, p, "BlockOffer", &format!("{pn}/size{size}"), ln::Message::BlockOffer(pt.clone(), size)));
        }
        out.push(mk(STACK, p, "BlockTxsOffer", pn, ln::Message::BlockTxsOffer(pt)));
    }
    let all: Vec<AnyCbor> = anys().into_iter().map(|x| x.1).collect();
    for n in [0usize, 1, 3, 5] {
        out.push(mk(STACK, p, "Votes", &format!("{n}-votes"), ln::Message::Votes(all[..n].to_vec())));
    }
}

fn bitmaps() -> Vec<(&'static str, lf::Bitmaps)> {
    vec![
        ("none", lf::Bitmaps::default()),
        ("first", lf::Bitmaps::all(1)),
        ("window", lf::Bitmaps::all(64)),
        ("three-windows", lf::Bitmaps::all(130)),
        ("sparse", lf::Bitmaps::from_indices([0usize, 63, 64, 4_194_239])),
        ("raw-extremes", lf::Bitmaps([(0u16, 0u64), (65535, u64::MAX)].into_iter().collect())),
    ]
}

fn leiosfetch(out: &mut Vec<Case>) {
    let p = "leiosfetch";
    out.push(mk(STACK, p, "Done", "-", lf::Message::Done));
    for (pn, pt) in points() {
        out.push(mk(STACK, p, "BlockRequest", pn, lf::Message::BlockRequest(pt.clone())));
        for (bn, b) in bitmaps() {
            out.push(mk(STACK, p, "BlockTxsRequest", &format!("{pn}/{bn}"), lf::Message::BlockTxsRequest(pt.clone(), b.clone())).probe("leiosfetch::Bitmaps", b.clone()));
        }
    }
    for (an, a) in anys() {
        out.push(mk(STACK, p, "Block", an, lf::Message::Block(a)));
    }
    let all: Vec<AnyCbor> = anys().into_iter().map(|x| x.1).collect();
    for (bn, b) in bitmaps() {
        for n in [0usize, 1, 3] {
            out.push(
                mk(STACK, p, "BlockTxs", &format!("{bn}/{n}-txs"), lf::Message::BlockTxs { point: points()[3].1.clone(), bitmaps: b.clone(), txs: all[..n].to_vec() })
                    .probe("leiosfetch::Bitmaps", b.clone()),
            );
        }
    }
}

pub fn cases(out: &mut Vec<Case>, _thorough: bool) {
    shared(out);
    blockfetch(out);
    leiosnotify(out);
    leiosfetch(out);
}
