//! pallas-network (`miniprotocols::*`) message cases.

use super::{mk, mk_with, roundtrip, Case, Failure, Outcome};
use mc_core::catch;
use pallas_codec::minicbor;
use pallas_codec::utils::{AnyCbor, AnyUInt, Bytes, KeyValuePairs, TagWrap};
use pallas_crypto::hash::Hash;
use pallas_network::miniprotocols::localstate::queries_v16 as q16;
use pallas_network::miniprotocols::localtxsubmission::SMaybe;
use pallas_network::miniprotocols::{
    blockfetch as bf, chainsync as cs, handshake as hs, keepalive as ka, localmsgnotification as lmn, localmsgsubmission as lms, localstate as ls, localtxsubmission as ltx, peersharing as ps, txmonitor as tm,
    txsubmission as txs, Point,
};
use std::collections::BTreeSet;
use std::fmt::Debug;

pub const STACK: &str = "pallas-network";
type TxMsg = txs::Message<txs::EraTxId, txs::EraTxBody>;
type PortT = u32;

crate::shared_protocol_cases!();

fn blockfetch(out: &mut Vec<Case>) {
    let p = "blockfetch";
    out.push(mk(STACK, p, "ClientDone", "-", bf::Message::ClientDone));
    out.push(mk(STACK, p, "StartBatch", "-", bf::Message::StartBatch));
    out.push(mk(STACK, p, "NoBlocks", "-", bf::Message::NoBlocks));
    out.push(mk(STACK, p, "BatchDone", "-", bf::Message::BatchDone));
    for (an, a) in points() {
        for (bn, b) in points() {
            out.push(mk(STACK, p, "RequestRange", &format!("{an}..{bn}"), bf::Message::RequestRange { range: (a.clone(), b.clone()) }).probe("Point", a.clone()));
        }
    }
    for (bn, b) in [("empty", vec![]), ("23", vec![1u8; 23]), ("24", vec![2; 24]), ("256", vec![3; 256]), ("65536", vec![4; 65536])] {
        out.push(mk(STACK, p, "Block", bn, bf::Message::Block { body: b }));
    }
}

fn txmonitor(out: &mut Vec<Case>) {
    let p = "txmonitor";
    use tm::Message::*;
    for (n, m) in [("Acquire", Acquire), ("AwaitAcquire", AwaitAcquire), ("RequestNextTx", RequestNextTx), ("RequestSizeAndCapacity", RequestSizeAndCapacity), ("Release", Release), ("Done", Done)] {
        out.push(mk(STACK, p, n, "-", m));
    }
    for s in [0u64, 23, 24, 1 << 32, u64::MAX] {
        out.push(mk(STACK, p, "Acquired", &format!("slot{s}"), Acquired(s)));
    }
    for (n, id) in [("empty", String::new()), ("hex64", "ab".repeat(32)), ("unicode", "t\u{00e9}\u{4e16}x".to_string())] {
        out.push(mk(STACK, p, "RequestHasTx", n, RequestHasTx(id)));
    }
    for b in [false, true] {
        out.push(mk(STACK, p, "ResponseHasTx", &format!("{b}"), ResponseHasTx(b)));
    }
    out.push(mk(STACK, p, "ResponseNextTx", "none", ResponseNextTx(None)));
    for (n, era, body) in [("era0-empty", 0u8, vec![]), ("era6-small", 6, vec![0x84, 0xa0, 0xa0, 0xf5, 0xf6]), ("era255-16k", 255, vec![0x55; 16384])] {
        out.push(mk(STACK, p, "ResponseNextTx", n, ResponseNextTx(Some((era, TagWrap::new(Bytes::from(body)))))));
    }
    for (n, c, s, k) in [("zeros", 0u32, 0u32, 0u32), ("typical", 178_176, 24, 3), ("max", u32::MAX, u32::MAX, u32::MAX)] {
        out.push(mk(STACK, p, "ResponseSizeAndCapacity", n, ResponseSizeAndCapacity(tm::MempoolSizeAndCapacity { capacity_in_bytes: c, size_in_bytes: s, number_of_txs: k })));
    }
}

// ------------------------------------------------------------ local state

fn h28(b: u8) -> Hash<28> {
    Hash::from([b; 28])
}
fn h32(b: u8) -> Hash<32> {
    Hash::from([b; 32])
}
fn bytes(n: usize, b: u8) -> Bytes {
    Bytes::from(vec![b; n])
}
pub fn stake_addr(t: u8, b: u8) -> q16::StakeAddr {
    q16::StakeAddr::from((t, bytes(28, b)))
}
fn tagged<T: Ord>(v: Vec<T>) -> q16::TaggedSet<T> {
    TagWrap::new(v.into_iter().collect::<BTreeSet<T>>())
}
fn pools(n: usize) -> q16::Pools {
    tagged((0..n).map(|i| bytes(28, i as u8 + 1)).collect())
}

/// A message whose payload is `AnyCbor` holding a typed value: the message
/// round trip, then the typed value decoded back out of the decoded message
/// must render and re-encode like the original.
fn typed_any_case<T>(variant: &'static str, shape: &str, label: &str, v: T, wrap: fn(AnyCbor) -> ls::Message, unwrap: fn(ls::Message) -> Option<AnyCbor>) -> Case
where
    T: minicbor::Encode<()> + for<'b> minicbor::Decode<'b, ()> + Debug + Send + Sync + 'static,
{
    let run = move || -> Outcome {
        let inner = match catch(|| minicbor::to_vec(&v)) {
            Err(p) => return Outcome { bytes: None, debug: format!("{v:?}"), failure: Some(Failure { kind: "panic-in-encode", detail: format!("{} at {}", p.message, p.location), panic_site: Some(p.site()) }) },
            Ok(Err(e)) => return Outcome { bytes: None, debug: format!("{v:?}"), failure: Some(Failure { kind: "encode-error", detail: format!("{e}"), panic_site: None }) },
            Ok(Ok(b)) => b,
        };
        let msg = wrap(AnyCbor::from_raw_bytes(inner.clone()));
        let mut o = roundtrip(&msg, &|m| format!("{m:?}"));
        o.debug = format!("{variant}({v:?})");
        if o.failure.is_some() {
            return o;
        }
        let typed = catch(|| {
            let m: ls::Message = minicbor::decode(o.bytes.as_ref().unwrap()).map_err(|e| format!("{e}"))?;
            let any = unwrap(m).ok_or("decoded message is another variant".to_string())?;
            if any.raw_bytes() != &inner[..] {
                return Err(format!("payload bytes changed: {}", hex::encode(any.raw_bytes())));
            }
            let t: T = any.into_decode().map_err(|e| format!("typed payload does not decode: {e}"))?;
            let again = minicbor::to_vec(&t).map_err(|e| format!("{e}"))?;
            if again != inner {
                return Err(format!("typed payload re-encodes to {}", hex::encode(again)));
            }
            if format!("{t:?}") != format!("{v:?}") {
                return Err(format!("typed payload decodes to {t:?}"));
            }
            Ok(())
        });
        match typed {
            Err(p) => o.failure = Some(Failure { kind: "panic-in-decode", detail: format!("{} at {}", p.message, p.location), panic_site: Some(p.site()) }),
            Ok(Err(e)) => o.failure = Some(Failure { kind: if e.contains("does not decode") { "decode-error" } else if e.contains("re-encodes") { "reencode-differs" } else { "value-differs" }, detail: e, panic_site: None }),
            Ok(Ok(())) => {}
        }
        o
    };
    Case { stack: STACK, protocol: "localstate", variant: variant.to_string(), shape: shape.to_string(), type_label: label.to_string(), run: Box::new(run), probes: vec![] }
}

fn wrap_query(a: AnyCbor) -> ls::Message {
    ls::Message::Query(a)
}
fn unwrap_query(m: ls::Message) -> Option<AnyCbor> {
    match m {
        ls::Message::Query(a) => Some(a),
        _ => None,
    }
}
fn wrap_result(a: AnyCbor) -> ls::Message {
    ls::Message::Result(a)
}
fn unwrap_result(m: ls::Message) -> Option<AnyCbor> {
    match m {
        ls::Message::Result(a) => Some(a),
        _ => None,
    }
}

pub fn block_queries() -> Vec<(String, q16::BlockQuery)> {
    use q16::BlockQuery::*;
    let either = |n: usize| -> q16::TaggedSet<q16::Either<q16::Coin, q16::StakeAddr>> {
        tagged(
            [q16::Either::Left(AnyUInt::U32(2_000_000)), q16::Either::Right(stake_addr(0, 0xe1)), q16::Either::Left(AnyUInt::U64(u64::MAX))]
                .into_iter()
                .take(n)
                .collect(),
        )
    };
    let addrs = |n: usize| -> q16::StakeAddrs { (0..n).map(|i| stake_addr((i % 2) as u8, 0xa0 + i as u8)).collect() };
    let creds = |n: usize| -> q16::TaggedSet<q16::Credential> { tagged((0..n).map(|i| stake_addr((i % 2) as u8, 0xc0 + i as u8)).collect()) };
    let dreps = |n: usize| -> q16::TaggedSet<q16::DRep> {
        tagged([q16::DRep::KeyHash(bytes(28, 1)), q16::DRep::ScriptHash(bytes(28, 2)), q16::DRep::AlwaysAbstain, q16::DRep::AlwaysNoConfidence].into_iter().take(n).collect())
    };
    let txins = |n: usize| -> q16::TxIns { (0..n).map(|i| q16::TransactionInput { transaction_id: h32(i as u8), index: if i == 2 { u64::MAX } else { i as u64 } }).collect() };
    let mut v: Vec<(String, q16::BlockQuery)> = vec![
        ("GetLedgerTip".into(), GetLedgerTip),
        ("GetEpochNo".into(), GetEpochNo),
        ("GetCurrentPParams".into(), GetCurrentPParams),
        ("GetProposedPParamsUpdates".into(), GetProposedPParamsUpdates),
        ("GetStakeDistribution".into(), GetStakeDistribution),
        ("GetUTxOWhole".into(), GetUTxOWhole),
        ("DebugEpochState".into(), DebugEpochState),
        ("GetGenesisConfig".into(), GetGenesisConfig),
        ("DebugNewEpochState".into(), DebugNewEpochState),
        ("DebugChainDepState".into(), DebugChainDepState),
        ("GetRewardProvenance".into(), GetRewardProvenance),
        ("GetStakePools".into(), GetStakePools),
        ("GetRewardInfoPools".into(), GetRewardInfoPools),
        ("GetConstitution".into(), GetConstitution),
        ("GetGovState".into(), GetGovState),
        ("GetAccountState".into(), GetAccountState),
        ("GetRatifyState".into(), GetRatifyState),
        ("GetFuturePParams".into(), GetFuturePParams),
        ("GetBigLedgerPeerSnapshot".into(), GetBigLedgerPeerSnapshot),
        ("GetLedgerPeerSnapshot/All".into(), GetLedgerPeerSnapshot(q16::LedgerPeerSnapshotKind::All)),
        ("GetLedgerPeerSnapshot/Big".into(), GetLedgerPeerSnapshot(q16::LedgerPeerSnapshotKind::Big)),
        ("GetStakeDistribution2".into(), GetStakeDistribution2),
        ("GetCBOR/GetLedgerTip".into(), GetCBOR(Box::new(GetLedgerTip))),
        ("GetCBOR/GetCBOR/GetUTxOByTxIn".into(), GetCBOR(Box::new(GetCBOR(Box::new(GetUTxOByTxIn(txins(1))))))),
        (
            "GetCommitteeMembersState/full".into(),
            GetCommitteeMembersState(creds(2), creds(1), tagged(vec![q16::MemberStatus::Active, q16::MemberStatus::Expired, q16::MemberStatus::Unrecognized])),
        ),
        ("GetCommitteeMembersState/empty".into(), GetCommitteeMembersState(creds(0), creds(0), tagged(vec![]))),
    ];
    for n in [0usize, 1, 3] {
        v.push((format!("GetNonMyopicMemberRewards/{n}"), GetNonMyopicMemberRewards(either(n))));
        v.push((format!("GetUTxOByAddress/{n}"), GetUTxOByAddress((0..n).map(|i| bytes(57, i as u8)).collect())));
        v.push((format!("GetFilteredDelegationsAndRewardAccounts/{n}"), GetFilteredDelegationsAndRewardAccounts(addrs(n))));
        v.push((format!("GetUTxOByTxIn/{n}"), GetUTxOByTxIn(txins(n))));
        v.push((format!("GetStakePoolParams/{n}"), GetStakePoolParams(pools(n))));
        v.push((format!("GetStakeDelegDeposits/{n}"), GetStakeDelegDeposits(creds(n))));
        v.push((format!("GetDRepState/{n}"), GetDRepState(creds(n))));
        v.push((format!("GetDRepStakeDistr/{n}"), GetDRepStakeDistr(dreps(n + 1))));
        v.push((format!("GetFilteredVoteDelegatees/{n}"), GetFilteredVoteDelegatees(addrs(n))));
        v.push((format!("GetSPOStakeDistr/{n}"), GetSPOStakeDistr(pools(n))));
        v.push((
            format!("GetProposals/{n}"),
            GetProposals(tagged((0..n).map(|i| q16::GovActionId { tx_id: h32(i as u8), gov_action_ix: if i == 2 { u32::MAX } else { i as u32 } }).collect())),
        ));
        v.push((format!("GetDRepsDelegations/{n}"), GetDRepsDelegations(dreps(n + 1))));
    }
    for (n, sm) in [("none", SMaybe::None), ("some-empty", SMaybe::Some(pools(0))), ("some-2", SMaybe::Some(pools(2)))] {
        v.push((format!("GetPoolState/{n}"), GetPoolState(sm.clone())));
        v.push((format!("GetStakeSnapshots/{n}"), GetStakeSnapshots(sm.clone())));
        v.push((format!("GetPoolDistr/{n}"), GetPoolDistr(sm.clone())));
        v.push((format!("GetPoolDistr2/{n}"), GetPoolDistr2(sm)));
    }
    v
}

fn localstate(out: &mut Vec<Case>) {
    let p = "localstate";
    use ls::Message::*;
    out.push(mk(STACK, p, "Acquired", "-", Acquired));
    out.push(mk(STACK, p, "Release", "-", Release));
    out.push(mk(STACK, p, "Done", "-", Done));
    out.push(mk(STACK, p, "Acquire", "tip(none)", Acquire(None)));
    out.push(mk(STACK, p, "ReAcquire", "tip(none)", ReAcquire(None)));
    for (pn, pt) in points() {
        out.push(mk(STACK, p, "Acquire", pn, Acquire(Some(pt.clone()))).probe("Point", pt.clone()));
        out.push(mk(STACK, p, "ReAcquire", pn, ReAcquire(Some(pt))));
    }
    out.push(mk(STACK, p, "Failure", "PointTooOld", Failure(ls::AcquireFailure::PointTooOld)));
    out.push(mk(STACK, p, "Failure", "PointNotOnChain", Failure(ls::AcquireFailure::PointNotOnChain)));
    // opaque payloads
    for (an, a) in super::net2::anys() {
        let a = AnyCbor::from_raw_bytes(a.raw_bytes().to_vec());
        out.push(mk(STACK, p, "Query", &format!("anycbor:{an}"), Query(a.clone())));
        out.push(mk(STACK, p, "Result", &format!("anycbor:{an}"), Result(a)));
    }
    // typed v16 queries (both codec directions exist for Request)
    for (n, r) in [("GetSystemStart", q16::Request::GetSystemStart), ("GetChainBlockNo", q16::Request::GetChainBlockNo), ("GetChainPoint", q16::Request::GetChainPoint)] {
        out.push(typed_any_case("Query", &format!("typed:{n}"), &format!("queries_v16::Request::{n}"), r, wrap_query, unwrap_query));
    }
    for (n, h) in [("GetInterpreter", q16::HardForkQuery::GetInterpreter), ("GetCurrentEra", q16::HardForkQuery::GetCurrentEra)] {
        out.push(typed_any_case("Query", &format!("typed:HardForkQuery::{n}"), &format!("queries_v16::HardForkQuery::{n}"), q16::Request::LedgerQuery(q16::LedgerQuery::HardForkQuery(h)), wrap_query, unwrap_query));
    }
    for (n, q) in block_queries() {
        let base = n.split('/').next().unwrap().to_string();
        for era in if n == "GetLedgerTip" { vec![0u16, 6, 23, 24, 65535] } else { vec![6u16] } {
            out.push(typed_any_case(
                "Query",
                &format!("typed:BlockQuery(era{era})::{n}"),
                &format!("queries_v16::BlockQuery::{base}"),
                q16::Request::LedgerQuery(q16::LedgerQuery::BlockQuery(era, q.clone())),
                wrap_query,
                unwrap_query,
            ));
        }
    }
    // typed results with both codec directions
    out.push(typed_any_case("Result", "typed:SystemStart", "queries_v16::SystemStart", q16::SystemStart { year: q16::BigInt::from(2017i64), day_of_year: 266, picoseconds_of_day: q16::BigInt::from(78_291_000_000_000_000i64) }, wrap_result, unwrap_result));
    out.push(typed_any_case("Result", "typed:ChainBlockNumber", "queries_v16::ChainBlockNumber", q16::ChainBlockNumber { slot_timeline: 1, block_number: u32::MAX }, wrap_result, unwrap_result));
    for (pn, pt) in points() {
        out.push(typed_any_case("Result", &format!("typed:Point/{pn}"), "Point", pt, wrap_result, unwrap_result));
    }
    for era in [0u16, 6, 65535] {
        out.push(typed_any_case("Result", &format!("typed:Era/{era}"), "queries_v16::Era", era, wrap_result, unwrap_result));
    }
    let utxo: q16::UTxOByAddress = KeyValuePairs::from(vec![
        (q16::UTxO { transaction_id: h32(1), index: AnyUInt::MajorByte(0) }, super::localtx::tx_output(0)),
        (q16::UTxO { transaction_id: h32(2), index: AnyUInt::U16(300) }, super::localtx::tx_output(1)),
    ]);
    out.push(typed_any_case("Result", "typed:UTxOByAddress", "queries_v16::UTxOByAddress", utxo, wrap_result, unwrap_result));
    out.push(typed_any_case("Result", "typed:UTxOByAddress/empty", "queries_v16::UTxOByAddress", q16::UTxOByAddress::from(vec![]), wrap_result, unwrap_result));
    out.push(typed_any_case(
        "Result",
        "typed:Constitution",
        "queries_v16::Constitution",
        q16::Constitution { anchor: q16::Anchor { url: "https://example.invalid/c".into(), data_hash: bytes(32, 9) }, script: Some(h28(7)) },
        wrap_result,
        unwrap_result,
    ));
}

// ------------------------------------------------------------ local msg (DMQ)

fn dmq_msgs() -> Vec<(&'static str, lms::DmqMsg)> {
    let m = |id: Vec<u8>, body: Vec<u8>, kes: u64, exp: u32, n: u64| lms::DmqMsg {
        msg_id: id,
        msg_payload: lms::DmqMsgPayload { msg_body: body, kes_period: kes, expires_at: exp },
        kes_signature: vec![0x1b; 448],
        operational_certificate: lms::DmqMsgOperationalCertificate { kes_vk: vec![0x32; 32], issue_number: n, start_kes_period: kes, cert_sig: vec![0xcf; 64] },
        cold_verification_key: vec![0x4d; 32],
    };
    vec![("min", m(vec![], vec![], 0, 0, 0)), ("typical", m(vec![1, 2, 3], b"dummy message".to_vec(), 7, 1_759_769_827, 3)), ("max", m(vec![0xff; 32], vec![0xee; 1000], u64::MAX, u32::MAX, u64::MAX))]
}

fn localmsg(out: &mut Vec<Case>) {
    let p = "localmsgnotification";
    use lmn::Message::*;
    out.push(mk(STACK, p, "RequestMessagesNonBlocking", "-", RequestMessagesNonBlocking));
    out.push(mk(STACK, p, "RequestMessagesBlocking", "-", RequestMessagesBlocking));
    out.push(mk(STACK, p, "ClientDone", "-", ClientDone));
    let all: Vec<lms::DmqMsg> = dmq_msgs().into_iter().map(|x| x.1).collect();
    for n in [0usize, 1, 3] {
        for more in [false, true] {
            out.push(mk(STACK, p, "ReplyMessagesNonBlocking", &format!("{n}-msgs/has_more={more}"), ReplyMessagesNonBlocking(all[..n].to_vec(), more)).probe("localmsgsubmission::DmqMsg", all[0].clone()));
        }
        out.push(mk(STACK, p, "ReplyMessagesBlocking", &format!("{n}-msgs"), ReplyMessagesBlocking(all[..n].to_vec())).probe("localmsgsubmission::DmqMsg", all[0].clone()));
    }
    let p = "localmsgsubmission";
    type M = ltx::Message<lms::DmqMsg, lms::DmqMsgValidationError>;
    out.push(mk(STACK, p, "AcceptTx", "-", M::AcceptTx));
    out.push(mk(STACK, p, "Done", "-", M::Done));
    for (n, m) in dmq_msgs() {
        out.push(mk(STACK, p, "SubmitTx", n, M::SubmitTx(m.clone())).probe("localmsgsubmission::DmqMsg", m));
    }
    for (n, r) in [
        ("Invalid-empty", lms::DmqMsgRejectReason::Invalid(String::new())),
        ("Invalid-text", lms::DmqMsgRejectReason::Invalid("bad signature \u{00e9}".into())),
        ("AlreadyReceived", lms::DmqMsgRejectReason::AlreadyReceived),
        ("Expired", lms::DmqMsgRejectReason::Expired),
        ("Other", lms::DmqMsgRejectReason::Other("x".repeat(300))),
    ] {
        out.push(mk(STACK, p, "RejectTx", n, M::RejectTx(lms::DmqMsgValidationError(r.clone()))).probe(&format!("localmsgsubmission::DmqMsgRejectReason::{}", n.split('-').next().unwrap()), r));
    }
}

pub fn cases(out: &mut Vec<Case>, thorough: bool) {
    shared(out);
    blockfetch(out);
    txmonitor(out);
    localstate(out);
    localmsg(out);
    super::localtx::cases(out, thorough);
}
