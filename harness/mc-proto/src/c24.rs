//! C24 — pallas-network2 `State::apply` of every mini-protocol against the
//! specification tables in `/verif/spec/*.json`.
//!
//! SEQ to fixpoint / model checking. `apply` is a pure `&self` function, so the
//! search keeps real `State` values. Two passes per protocol, same oracle:
//!  1. BFS from `State::default()` over the product (spec state, real state),
//!     every message variant x 2 payload values at every product state, until
//!     no new product state appears (fixpoint => message sequences of every
//!     length). A product state on which table and implementation disagree is
//!     reported and not expanded. Every product state's shortest history is
//!     replayed from `default()` at the end.
//!  2. every state class constructed directly (the enum is public), two
//!     payload values each, against every message: this is the literal
//!     "(state class, message variant)" enumeration of the property and reaches
//!     the classes the implementation cannot reach from `default()`.
//!
//! Oracle per (state, message): `apply` is `Ok` iff the table has an edge for
//! that message in that state; the class of the new state is the table's next
//! state; the data items the new state holds equal the data items of the
//! message (where the state has a slot for them); `Err` leaves the value
//! unchanged. One fingerprint per (protocol, state class, message) cell.

use crate::spec::Table;
use mc_core::{catch, cov, json, Ctx, Level, Value};
use pallas_network2::protocol as n2;
use std::collections::{BTreeMap, BTreeSet, HashMap};
use std::fmt::Debug;

pub struct Msg<M> {
    /// Message name in the specification table.
    pub label: String,
    pub m: M,
    /// Data items the successor state is to carry (rendered); `None` where the
    /// implementation's successor state has no slot for them.
    pub data: Option<Vec<String>>,
}

pub trait Proto {
    type S: Debug + Clone;
    type M: Debug + Clone;
    fn name(&self) -> &'static str;
    fn spec(&self) -> &'static str;
    fn init(&self) -> Self::S;
    fn class(&self, s: &Self::S) -> &'static str;
    /// Canonical rendering of a state (order-independent for hash maps).
    fn key(&self, s: &Self::S) -> String;
    /// Data items held by the state (rendered like `Msg::data`).
    fn carried(&self, s: &Self::S) -> Vec<String>;
    fn messages(&self) -> Vec<Msg<Self::M>>;
    fn apply(&self, s: &Self::S, m: &Self::M) -> Result<Self::S, String>;
    /// Representatives of every state class, built directly.
    fn constructed(&self) -> Vec<Self::S>;
    fn msg_render(&self, m: &Self::M) -> String {
        format!("{m:?}")
    }
}

fn d<T: Debug>(x: &T) -> String {
    format!("{x:?}")
}

// ---------------------------------------------------------------- handshake

fn vt_render<D: Debug + Clone>(t: &n2::handshake::VersionTable<D>) -> String {
    let mut v: Vec<(&u64, &D)> = t.values.iter().collect();
    v.sort_by_key(|x| *x.0);
    format!("{v:?}")
}

pub struct Handshake<D> {
    name: &'static str,
    d1: D,
    d2: D,
    v1: u64,
    v2: u64,
}

impl<D: Debug + Clone> Handshake<D> {
    fn t1(&self) -> n2::handshake::VersionTable<D> {
        n2::handshake::VersionTable { values: [(self.v1, self.d1.clone())].into_iter().collect() }
    }
    fn t2(&self) -> n2::handshake::VersionTable<D> {
        n2::handshake::VersionTable { values: [(self.v1, self.d1.clone()), (self.v2, self.d2.clone()), (self.v2 + 1, self.d2.clone())].into_iter().collect() }
    }
}

impl<D: Debug + Clone> Proto for Handshake<D> {
    type S = n2::handshake::State<D>;
    type M = n2::handshake::Message<D>;
    fn name(&self) -> &'static str {
        self.name
    }
    fn spec(&self) -> &'static str {
        "handshake"
    }
    fn init(&self) -> Self::S {
        n2::handshake::State::Propose
    }
    fn class(&self, s: &Self::S) -> &'static str {
        use n2::handshake::State::*;
        match s {
            Propose => "Propose",
            Confirm(_) => "Confirm",
            Done(_) => "Done",
        }
    }
    fn key(&self, s: &Self::S) -> String {
        use n2::handshake::{DoneState, State::*};
        match s {
            Propose => "Propose".into(),
            Confirm(t) => format!("Confirm({})", vt_render(t)),
            Done(DoneState::Accepted(v, x)) => format!("Done(Accepted({v}, {x:?}))"),
            Done(DoneState::Rejected(r)) => format!("Done(Rejected({r:?}))"),
            Done(DoneState::QueryReply(t)) => format!("Done(QueryReply({}))", vt_render(t)),
        }
    }
    fn carried(&self, s: &Self::S) -> Vec<String> {
        use n2::handshake::{DoneState, State::*};
        match s {
            Propose => vec![],
            Confirm(t) => vec![vt_render(t)],
            Done(DoneState::Accepted(v, x)) => vec![d(v), d(x)],
            Done(DoneState::Rejected(r)) => vec![d(r)],
            Done(DoneState::QueryReply(t)) => vec![vt_render(t)],
        }
    }
    fn messages(&self) -> Vec<Msg<Self::M>> {
        use n2::handshake::{Message::*, RefuseReason};
        let mut v = vec![];
        for t in [self.t1(), self.t2()] {
            v.push(Msg { label: "Propose".into(), data: Some(vec![vt_render(&t)]), m: Propose(t.clone()) });
            v.push(Msg { label: "QueryReply".into(), data: Some(vec![vt_render(&t)]), m: QueryReply(t) });
        }
        // the third one accepts a proposed version with parameters that differ from the proposed ones
        // (a responder negotiating down): the state must carry the RECEIVED data
        for (ver, x) in [(self.v1, self.d1.clone()), (self.v2, self.d2.clone()), (self.v1, self.d2.clone())] {
            v.push(Msg { label: "Accept".into(), data: Some(vec![d(&ver), d(&x)]), m: Accept(ver, x) });
        }
        for r in [
            RefuseReason::VersionMismatch(vec![self.v1, self.v2]),
            RefuseReason::HandshakeDecodeError(self.v1, "bad data".into()),
            RefuseReason::Refused(self.v2, "no".into()),
        ] {
            v.push(Msg { label: "Refuse".into(), data: Some(vec![d(&r)]), m: Refuse(r) });
        }
        v
    }
    fn apply(&self, s: &Self::S, m: &Self::M) -> Result<Self::S, String> {
        s.apply(m).map_err(|e| d(&e))
    }
    fn constructed(&self) -> Vec<Self::S> {
        use n2::handshake::{DoneState, RefuseReason, State::*};
        vec![
            Propose,
            Confirm(self.t1()),
            Confirm(self.t2()),
            Done(DoneState::Accepted(self.v1, self.d1.clone())),
            Done(DoneState::Rejected(RefuseReason::VersionMismatch(vec![self.v2]))),
            Done(DoneState::QueryReply(self.t2())),
        ]
    }
    fn msg_render(&self, m: &Self::M) -> String {
        use n2::handshake::Message::*;
        match m {
            Propose(t) => format!("Propose({})", vt_render(t)),
            QueryReply(t) => format!("QueryReply({})", vt_render(t)),
            other => d(other),
        }
    }
}

// ---------------------------------------------------------------- keepalive

pub struct KeepAlive;
impl Proto for KeepAlive {
    type S = n2::keepalive::State;
    type M = n2::keepalive::Message;
    fn name(&self) -> &'static str {
        "keepalive"
    }
    fn spec(&self) -> &'static str {
        "keep-alive"
    }
    fn init(&self) -> Self::S {
        Default::default()
    }
    fn class(&self, s: &Self::S) -> &'static str {
        use n2::keepalive::State::*;
        match s {
            Client(_) => "Client",
            Server(_) => "Server",
            Done => "Done",
        }
    }
    fn key(&self, s: &Self::S) -> String {
        d(s)
    }
    fn carried(&self, s: &Self::S) -> Vec<String> {
        use n2::keepalive::{ClientState, State::*};
        match s {
            Client(ClientState::Empty) => vec![],
            Client(ClientState::Response(c)) => vec![d(c)],
            Server(c) => vec![d(c)],
            Done => vec![],
        }
    }
    fn messages(&self) -> Vec<Msg<Self::M>> {
        use n2::keepalive::Message::*;
        let mut v = vec![];
        for c in [0u16, 0xbeef] {
            v.push(Msg { label: "KeepAlive".into(), data: Some(vec![d(&c)]), m: KeepAlive(c) });
            v.push(Msg { label: "ResponseKeepAlive".into(), data: Some(vec![d(&c)]), m: ResponseKeepAlive(c) });
        }
        v.push(Msg { label: "Done".into(), data: Some(vec![]), m: Done });
        v
    }
    fn apply(&self, s: &Self::S, m: &Self::M) -> Result<Self::S, String> {
        s.apply(m).map_err(|e| d(&e))
    }
    fn constructed(&self) -> Vec<Self::S> {
        use n2::keepalive::{ClientState, State::*};
        vec![Client(ClientState::Empty), Client(ClientState::Response(7)), Server(0), Server(0xbeef), Done]
    }
}

// ---------------------------------------------------------------- chainsync

pub struct ChainSync;
type Hc = n2::chainsync::HeaderContent;

fn pt(i: u8) -> n2::Point {
    match i {
        0 => n2::Point::Origin,
        1 => n2::Point::Specific(1000, vec![0x11; 32]),
        _ => n2::Point::Specific(2000, vec![0x22; 32]),
    }
}
fn tip(i: u8) -> n2::chainsync::Tip {
    n2::chainsync::Tip(pt(i), 77 + i as u64)
}
fn hc(i: u8) -> Hc {
    if i == 0 {
        Hc { variant: 0, byron_prefix: Some((1, 5)), cbor: vec![0x80] }
    } else {
        Hc { variant: 6, byron_prefix: None, cbor: vec![0x82, 0x01, 0x02] }
    }
}

impl Proto for ChainSync {
    type S = n2::chainsync::State<Hc>;
    type M = n2::chainsync::Message<Hc>;
    fn name(&self) -> &'static str {
        "chainsync"
    }
    fn spec(&self) -> &'static str {
        "chain-sync"
    }
    fn init(&self) -> Self::S {
        Default::default()
    }
    fn class(&self, s: &Self::S) -> &'static str {
        use n2::chainsync::State::*;
        match s {
            Idle(_) => "Idle",
            CanAwait => "CanAwait",
            MustReply => "MustReply",
            Intersect(_) => "Intersect",
            Done => "Done",
        }
    }
    fn key(&self, s: &Self::S) -> String {
        d(s)
    }
    fn carried(&self, s: &Self::S) -> Vec<String> {
        use n2::chainsync::{Data, State::*};
        match s {
            Idle(Data::New) | Idle(Data::Drained) => vec![],
            Idle(Data::Intersection(p, t)) => vec![d(p), d(t)],
            Idle(Data::NoIntersection(t)) => vec![d(t)],
            Idle(Data::Content(c, t)) => vec![d(c), d(t)],
            Idle(Data::Rollback(p, t)) => vec![d(p), d(t)],
            Intersect(ps) => vec![d(ps)],
            CanAwait | MustReply | Done => vec![],
        }
    }
    fn messages(&self) -> Vec<Msg<Self::M>> {
        use n2::chainsync::Message::*;
        let mut v = vec![
            Msg { label: "RequestNext".into(), data: Some(vec![]), m: RequestNext },
            Msg { label: "AwaitReply".into(), data: Some(vec![]), m: AwaitReply },
            Msg { label: "Done".into(), data: Some(vec![]), m: Done },
        ];
        for i in 0..2u8 {
            let (c, t, p) = (hc(i), tip(i + 1), pt(i));
            v.push(Msg { label: "RollForward".into(), data: Some(vec![d(&c), d(&t)]), m: RollForward(c, t.clone()) });
            v.push(Msg { label: "RollBackward".into(), data: Some(vec![d(&p), d(&t)]), m: RollBackward(p.clone(), t.clone()) });
            v.push(Msg { label: "IntersectFound".into(), data: Some(vec![d(&p), d(&t)]), m: IntersectFound(p, t.clone()) });
            v.push(Msg { label: "IntersectNotFound".into(), data: Some(vec![d(&t)]), m: IntersectNotFound(t) });
        }
        for ps in [vec![], vec![pt(2), pt(1), pt(0)]] {
            v.push(Msg { label: "FindIntersect".into(), data: Some(vec![d(&ps)]), m: FindIntersect(ps) });
        }
        v
    }
    fn apply(&self, s: &Self::S, m: &Self::M) -> Result<Self::S, String> {
        s.apply(m).map_err(|e| d(&e))
    }
    fn constructed(&self) -> Vec<Self::S> {
        use n2::chainsync::{Data, State::*};
        vec![
            Idle(Data::New),
            Idle(Data::Drained),
            Idle(Data::Intersection(pt(1), tip(2))),
            Idle(Data::NoIntersection(tip(1))),
            Idle(Data::Content(hc(0), tip(1))),
            Idle(Data::Rollback(pt(0), tip(2))),
            CanAwait,
            MustReply,
            Intersect(vec![]),
            Intersect(vec![pt(1), pt(0)]),
            Done,
        ]
    }
}

// ---------------------------------------------------------------- blockfetch

pub struct BlockFetch;
impl Proto for BlockFetch {
    type S = n2::blockfetch::State;
    type M = n2::blockfetch::Message;
    fn name(&self) -> &'static str {
        "blockfetch"
    }
    fn spec(&self) -> &'static str {
        "block-fetch"
    }
    fn init(&self) -> Self::S {
        Default::default()
    }
    fn class(&self, s: &Self::S) -> &'static str {
        use n2::blockfetch::State::*;
        match s {
            Idle => "Idle",
            Busy(_) => "Busy",
            Streaming(_) => "Streaming",
            Done => "Done",
        }
    }
    fn key(&self, s: &Self::S) -> String {
        d(s)
    }
    fn carried(&self, s: &Self::S) -> Vec<String> {
        use n2::blockfetch::State::*;
        match s {
            Idle | Done | Streaming(None) => vec![],
            Busy(r) => vec![d(r)],
            Streaming(Some(b)) => vec![d(b)],
        }
    }
    fn messages(&self) -> Vec<Msg<Self::M>> {
        use n2::blockfetch::Message::*;
        let mut v = vec![
            Msg { label: "ClientDone".into(), data: Some(vec![]), m: ClientDone },
            Msg { label: "StartBatch".into(), data: Some(vec![]), m: StartBatch },
            Msg { label: "NoBlocks".into(), data: Some(vec![]), m: NoBlocks },
            Msg { label: "BatchDone".into(), data: Some(vec![]), m: BatchDone },
        ];
        for r in [(pt(1), pt(2)), (pt(0), pt(0))] {
            v.push(Msg { label: "RequestRange".into(), data: Some(vec![d(&r)]), m: RequestRange(r) });
        }
        for b in [vec![], vec![0x82u8, 0x01, 0x02]] {
            v.push(Msg { label: "Block".into(), data: Some(vec![d(&b)]), m: Block(b) });
        }
        v
    }
    fn apply(&self, s: &Self::S, m: &Self::M) -> Result<Self::S, String> {
        s.apply(m).map_err(|e| d(&e))
    }
    fn constructed(&self) -> Vec<Self::S> {
        use n2::blockfetch::State::*;
        vec![Idle, Busy((pt(1), pt(2))), Busy((pt(0), pt(1))), Streaming(None), Streaming(Some(vec![1, 2, 3])), Done]
    }
}

// ---------------------------------------------------------------- peersharing

pub struct PeerSharing;
fn peers(i: u8) -> Vec<n2::peersharing::PeerAddress> {
    use n2::peersharing::PeerAddress::*;
    if i == 0 {
        vec![]
    } else {
        vec![V4(std::net::Ipv4Addr::new(10, 0, 0, 1), 3001), V6(std::net::Ipv6Addr::new(0x2001, 0xdb8, 0, 0, 0, 0, 0, 1), 3002)]
    }
}
impl Proto for PeerSharing {
    type S = n2::peersharing::State;
    type M = n2::peersharing::Message;
    fn name(&self) -> &'static str {
        "peersharing"
    }
    fn spec(&self) -> &'static str {
        "peer-sharing"
    }
    fn init(&self) -> Self::S {
        Default::default()
    }
    fn class(&self, s: &Self::S) -> &'static str {
        use n2::peersharing::State::*;
        match s {
            Idle(_) => "Idle",
            Busy(_) => "Busy",
            Done => "Done",
        }
    }
    fn key(&self, s: &Self::S) -> String {
        d(s)
    }
    fn carried(&self, s: &Self::S) -> Vec<String> {
        use n2::peersharing::{IdleState, State::*};
        match s {
            Idle(IdleState::Empty) | Done => vec![],
            Idle(IdleState::Response(p)) => vec![d(p)],
            Busy(n) => vec![d(n)],
        }
    }
    fn messages(&self) -> Vec<Msg<Self::M>> {
        use n2::peersharing::Message::*;
        let mut v = vec![Msg { label: "Done".into(), data: Some(vec![]), m: Done }];
        for n in [0u8, 255] {
            v.push(Msg { label: "ShareRequest".into(), data: Some(vec![d(&n)]), m: ShareRequest(n) });
        }
        for i in 0..2 {
            let p = peers(i);
            v.push(Msg { label: "SharePeers".into(), data: Some(vec![d(&p)]), m: SharePeers(p) });
        }
        v
    }
    fn apply(&self, s: &Self::S, m: &Self::M) -> Result<Self::S, String> {
        s.apply(m).map_err(|e| d(&e))
    }
    fn constructed(&self) -> Vec<Self::S> {
        use n2::peersharing::{IdleState, State::*};
        vec![Idle(IdleState::Empty), Idle(IdleState::Response(peers(1))), Busy(0), Busy(9), Done]
    }
}

// ---------------------------------------------------------------- txsubmission

pub struct TxSubmission;
impl Proto for TxSubmission {
    type S = n2::txsubmission::State;
    type M = n2::txsubmission::Message;
    fn name(&self) -> &'static str {
        "txsubmission"
    }
    fn spec(&self) -> &'static str {
        "tx-submission-2"
    }
    fn init(&self) -> Self::S {
        Default::default()
    }
    fn class(&self, s: &Self::S) -> &'static str {
        use n2::txsubmission::State::*;
        match s {
            Init => "Init",
            Idle => "Idle",
            TxIdsNonBlocking => "TxIdsNonBlocking",
            TxIdsBlocking => "TxIdsBlocking",
            Txs(_) => "Txs",
            Done => "Done",
        }
    }
    fn key(&self, s: &Self::S) -> String {
        d(s)
    }
    fn carried(&self, s: &Self::S) -> Vec<String> {
        use n2::txsubmission::State::*;
        match s {
            Txs(b) => vec![d(b)],
            _ => vec![],
        }
    }
    fn messages(&self) -> Vec<Msg<Self::M>> {
        use n2::txsubmission::{EraTxBody, EraTxId, Message::*, TxIdAndSize};
        // The successor states of this protocol have no slot for the request /
        // reply data in the specification's shape (`Txs` holds bodies, which
        // only ReplyTxs carries, and ReplyTxs leads to Idle): data = None.
        let mut v = vec![Msg { label: "Init".into(), data: None, m: Init }, Msg { label: "Done".into(), data: None, m: Done }];
        for (ack, req) in [(0u16, 1u16), (3, 10)] {
            v.push(Msg { label: "RequestTxIds(blocking)".into(), data: None, m: RequestTxIds(true, ack, req) });
            v.push(Msg { label: "RequestTxIds(non-blocking)".into(), data: None, m: RequestTxIds(false, ack, req) });
        }
        let ids = |n: usize| -> Vec<EraTxId> { (0..n).map(|i| EraTxId(6, vec![i as u8; 32])).collect() };
        for n in [0usize, 2] {
            v.push(Msg { label: "ReplyTxIds".into(), data: None, m: ReplyTxIds(ids(n).into_iter().map(|i| TxIdAndSize(i, 300)).collect()) });
            v.push(Msg { label: "RequestTxs".into(), data: None, m: RequestTxs(ids(n)) });
            v.push(Msg { label: "ReplyTxs".into(), data: None, m: ReplyTxs((0..n).map(|i| EraTxBody(6, vec![0x80 + i as u8])).collect()) });
        }
        v
    }
    fn apply(&self, s: &Self::S, m: &Self::M) -> Result<Self::S, String> {
        s.apply(m).map_err(|e| d(&e))
    }
    fn constructed(&self) -> Vec<Self::S> {
        use n2::txsubmission::{EraTxBody, State::*};
        vec![Init, Idle, TxIdsNonBlocking, TxIdsBlocking, Txs(vec![]), Txs(vec![EraTxBody(6, vec![0x80])]), Done]
    }
}

// ---------------------------------------------------------------- leios-notify

pub struct LeiosNotify;
fn any(i: u8) -> n2::AnyCbor {
    n2::AnyCbor::from_raw_bytes(if i == 0 { vec![0x80] } else { vec![0x83, 0x01, 0x02, 0x03] })
}
impl Proto for LeiosNotify {
    type S = n2::leiosnotify::State;
    type M = n2::leiosnotify::Message;
    fn name(&self) -> &'static str {
        "leiosnotify"
    }
    fn spec(&self) -> &'static str {
        "leios-notify"
    }
    fn init(&self) -> Self::S {
        Default::default()
    }
    fn class(&self, s: &Self::S) -> &'static str {
        use n2::leiosnotify::State::*;
        match s {
            Idle(_) => "Idle",
            Busy => "Busy",
            Done => "Done",
        }
    }
    fn key(&self, s: &Self::S) -> String {
        d(s)
    }
    fn carried(&self, s: &Self::S) -> Vec<String> {
        use n2::leiosnotify::{Notification::*, State::*};
        match s {
            Idle(None) | Busy | Done => vec![],
            Idle(Some(BlockAnnouncement(h))) => vec![d(h)],
            Idle(Some(BlockOffer(p, n))) => vec![d(p), d(n)],
            Idle(Some(BlockTxsOffer(p))) => vec![d(p)],
            Idle(Some(Votes(v))) => vec![d(v)],
        }
    }
    fn messages(&self) -> Vec<Msg<Self::M>> {
        use n2::leiosnotify::Message::*;
        let mut v = vec![Msg { label: "RequestNext".into(), data: Some(vec![]), m: RequestNext }, Msg { label: "Done".into(), data: Some(vec![]), m: Done }];
        for i in 0..2u8 {
            let (h, p, n) = (any(i), pt(i + 1), 1000 * i as u32 + 1);
            let votes: Vec<n2::AnyCbor> = (0..(2 * i)).map(any).collect();
            v.push(Msg { label: "BlockAnnouncement".into(), data: Some(vec![d(&h)]), m: BlockAnnouncement(h) });
            v.push(Msg { label: "BlockOffer".into(), data: Some(vec![d(&p), d(&n)]), m: BlockOffer(p.clone(), n) });
            v.push(Msg { label: "BlockTxsOffer".into(), data: Some(vec![d(&p)]), m: BlockTxsOffer(p) });
            v.push(Msg { label: "Votes".into(), data: Some(vec![d(&votes)]), m: Votes(votes) });
        }
        v
    }
    fn apply(&self, s: &Self::S, m: &Self::M) -> Result<Self::S, String> {
        s.apply(m).map_err(|e| d(&e))
    }
    fn constructed(&self) -> Vec<Self::S> {
        use n2::leiosnotify::{Notification, State::*};
        vec![Idle(None), Idle(Some(Notification::BlockOffer(pt(1), 5))), Idle(Some(Notification::Votes(vec![any(1)]))), Busy, Done]
    }
}

// ---------------------------------------------------------------- leios-fetch

pub struct LeiosFetch;
fn bitmaps(i: u8) -> n2::leiosfetch::Bitmaps {
    if i == 0 {
        n2::leiosfetch::Bitmaps::default()
    } else {
        n2::leiosfetch::Bitmaps::from_indices([0usize, 63, 64, 200])
    }
}
impl Proto for LeiosFetch {
    type S = n2::leiosfetch::State;
    type M = n2::leiosfetch::Message;
    fn name(&self) -> &'static str {
        "leiosfetch"
    }
    fn spec(&self) -> &'static str {
        "leios-fetch"
    }
    fn init(&self) -> Self::S {
        Default::default()
    }
    fn class(&self, s: &Self::S) -> &'static str {
        use n2::leiosfetch::State::*;
        match s {
            Idle(_) => "Idle",
            AwaitingBlock(_) => "AwaitingBlock",
            AwaitingBlockTxs(..) => "AwaitingBlockTxs",
            Done => "Done",
        }
    }
    fn key(&self, s: &Self::S) -> String {
        d(s)
    }
    fn carried(&self, s: &Self::S) -> Vec<String> {
        use n2::leiosfetch::{Response, State::*};
        match s {
            Idle(None) | Done => vec![],
            // the EB id paired with the response comes from the request state,
            // not from the message; the delivered data is the response part
            Idle(Some((_, Response::Block(b)))) => vec![d(b)],
            Idle(Some((_, Response::BlockTxs { txs }))) => vec![d(txs)],
            AwaitingBlock(p) => vec![d(p)],
            AwaitingBlockTxs(p, b) => vec![d(p), d(b)],
        }
    }
    fn messages(&self) -> Vec<Msg<Self::M>> {
        use n2::leiosfetch::Message::*;
        let mut v = vec![Msg { label: "Done".into(), data: Some(vec![]), m: Done }];
        for i in 0..2u8 {
            let (p, bm, b) = (pt(i + 1), bitmaps(i), any(i));
            let txs: Vec<n2::AnyCbor> = (0..(2 * i)).map(any).collect();
            v.push(Msg { label: "BlockRequest".into(), data: Some(vec![d(&p)]), m: BlockRequest(p.clone()) });
            v.push(Msg { label: "BlockTxsRequest".into(), data: Some(vec![d(&p), d(&bm)]), m: BlockTxsRequest(p.clone(), bm.clone()) });
            v.push(Msg { label: "Block".into(), data: Some(vec![d(&b)]), m: Block(b) });
            // the echoed point / bitmaps are documented as dropped (the state
            // keeps the EB of the request); the delivered data are the txs
            v.push(Msg { label: "BlockTxs".into(), data: Some(vec![d(&txs)]), m: BlockTxs { point: p, bitmaps: bm, txs } });
        }
        v
    }
    fn apply(&self, s: &Self::S, m: &Self::M) -> Result<Self::S, String> {
        s.apply(m).map_err(|e| d(&e))
    }
    fn constructed(&self) -> Vec<Self::S> {
        use n2::leiosfetch::{Response, State::*};
        vec![
            Idle(None),
            Idle(Some((pt(1), Response::Block(any(1))))),
            Idle(Some((pt(2), Response::BlockTxs { txs: vec![any(0)] }))),
            AwaitingBlock(pt(1)),
            AwaitingBlock(pt(2)),
            AwaitingBlockTxs(pt(1), bitmaps(0)),
            AwaitingBlockTxs(pt(2), bitmaps(1)),
            Done,
        ]
    }
}

// ---------------------------------------------------------------- engine

#[derive(Default)]
pub struct Totals {
    pub states: usize,
    pub transitions: usize,
    pub traces: usize,
    pub constructed_cells: usize,
    pub samples: Vec<Value>,
    pub per_protocol: BTreeMap<String, Value>,
    pub disagreeing_cells: usize,
}

struct Eval<S> {
    next: Option<(String, S)>,
    agree: bool,
}

#[allow(clippy::too_many_arguments)]
fn evaluate<P: Proto>(
    p: &P,
    table: &Table,
    ctx: &Ctx,
    spec_state: &str,
    real: &P::S,
    msg: &Msg<P::M>,
    history: &[String],
    reached: &str,
    matrix: &mut BTreeMap<(String, String), BTreeSet<String>>,
    bad_cells: &mut BTreeSet<(String, String)>,
) -> Eval<P::S> {
    let class = p.class(real);
    let before = p.key(real);
    let r = catch(|| p.apply(real, &msg.m));
    let after = p.key(real);
    let spec_next = table.next(spec_state, &msg.label);
    let fp = format!("apply-vs-spec:{}:{}:{}", p.name(), spec_state, msg.label);
    let case = |impl_out: &str| {
        json!({
            "protocol": p.name(), "spec_table": format!("spec/{}.json", p.spec()), "reached": reached,
            "messages_from_default": history, "state": before, "state_class": class, "spec_state": spec_state,
            "message": p.msg_render(&msg.m), "spec": spec_next.unwrap_or("(not permitted)"), "impl": impl_out,
        })
    };
    let cell = (spec_state.to_string(), msg.label.clone());
    let mut bad = |what: String, out: &str| {
        bad_cells.insert(cell.clone());
        ctx.violation(fp.clone(), what, case(out));
    };
    let r = match r {
        Err(pn) => {
            matrix.entry(cell.clone()).or_default().insert("panic".into());
            bad_cells.insert(cell.clone());
            ctx.violation(pn.site(), format!("{}::State::apply panicked: {} at {}", p.name(), pn.message, pn.location), case("panic"));
            return Eval { next: None, agree: false };
        }
        Ok(r) => r,
    };
    let out = match &r {
        Ok(ns) => p.class(ns).to_string(),
        Err(e) => format!("Err({e})"),
    };
    matrix.entry(cell.clone()).or_default().insert(out.clone());
    if before != after {
        bad(format!("{}: apply(&self) changed the state value it was called on: {before} -> {after}", p.name()), &out);
        return Eval { next: None, agree: false };
    }
    match (spec_next, r) {
        (Some(t), Ok(ns)) => {
            if p.class(&ns) != t {
                bad(
                    format!("{}: in {spec_state} the specification sends {} to {t}; apply yields {}", p.name(), msg.label, p.key(&ns)),
                    &out,
                );
                return Eval { next: None, agree: false };
            }
            if let Some(data) = &msg.data {
                let got = p.carried(&ns);
                if got != *data {
                    bad(
                        format!("{}: {} applied in {spec_state}: new state {} carries {got:?}, message data {data:?}", p.name(), msg.label, p.key(&ns)),
                        &out,
                    );
                    return Eval { next: None, agree: false };
                }
            }
            Eval { next: Some((t.to_string(), ns)), agree: true }
        }
        (Some(t), Err(e)) => {
            bad(format!("{}: the specification permits {} in {spec_state} (-> {t}); apply returns Err({e})", p.name(), msg.label), &out);
            Eval { next: None, agree: false }
        }
        (None, Ok(ns)) => {
            bad(format!("{}: the specification does not permit {} in {spec_state}; apply accepts it and yields {}", p.name(), msg.label, p.key(&ns)), &out);
            Eval { next: None, agree: false }
        }
        (None, Err(_)) => Eval { next: None, agree: true },
    }
}

pub fn check_proto<P: Proto>(p: &P, ctx: &Ctx, tot: &mut Totals) {
    let table = match Table::load(&ctx.root, p.spec()) {
        Ok(t) => t,
        Err(e) => mc_core::report::machinery_failure(&format!("C24: specification table: {e}")),
    };
    let msgs = p.messages();
    // every table message has instances and vice versa
    let labels: BTreeSet<String> = msgs.iter().map(|m| m.label.clone()).collect();
    if labels != table.messages() {
        mc_core::report::machinery_failure(&format!("C24 {}: message labels {labels:?} differ from the table's {:?}", p.name(), table.messages()));
    }
    let init = p.init();
    if p.class(&init) != table.initial {
        ctx.violation(
            format!("apply-vs-spec:{}:initial", p.name()),
            format!("{}: State::default() is {} but the specification starts in {}", p.name(), p.key(&init), table.initial),
            json!({"protocol": p.name()}),
        );
        return;
    }
    let mut matrix: BTreeMap<(String, String), BTreeSet<String>> = BTreeMap::new();
    let mut bad_cells: BTreeSet<(String, String)> = BTreeSet::new();

    // ---- pass 1: product BFS to fixpoint
    struct Node<S> {
        spec: String,
        real: S,
        parent: Option<(usize, usize)>,
    }
    let mut nodes: Vec<Node<P::S>> = vec![Node { spec: table.initial.clone(), real: init, parent: None }];
    let mut seen: HashMap<(String, String), usize> = HashMap::new();
    seen.insert((table.initial.clone(), p.key(&nodes[0].real)), 0);
    let history = |nodes: &Vec<Node<P::S>>, mut i: usize| -> Vec<usize> {
        let mut h = vec![];
        while let Some((par, mi)) = nodes[i].parent {
            h.push(mi);
            i = par;
        }
        h.reverse();
        h
    };
    let mut level: Vec<usize> = vec![0];
    let mut transitions = 0usize;
    let mut per_depth = vec![];
    let mut depth = 0usize;
    let mut pruned = 0usize;
    while !level.is_empty() {
        depth += 1;
        let mut next_level = vec![];
        for &i in &level {
            let hist: Vec<String> = history(&nodes, i).iter().map(|&mi| p.msg_render(&msgs[mi].m)).collect();
            for (mi, m) in msgs.iter().enumerate() {
                transitions += 1;
                let (spec, real) = (nodes[i].spec.clone(), nodes[i].real.clone());
                let ev = evaluate(p, &table, ctx, &spec, &real, m, &hist, "bfs-from-default", &mut matrix, &mut bad_cells);
                if !ev.agree {
                    pruned += 1;
                }
                if let Some((s2, r2)) = ev.next {
                    let k = (s2.clone(), p.key(&r2));
                    if !seen.contains_key(&k) {
                        seen.insert(k, nodes.len());
                        next_level.push(nodes.len());
                        nodes.push(Node { spec: s2, real: r2, parent: Some((i, mi)) });
                    }
                }
            }
        }
        per_depth.push(next_level.len());
        level = next_level;
        if depth > 64 {
            mc_core::report::machinery_failure(&format!("C24 {}: no fixpoint after 64 levels", p.name()));
        }
    }
    // ---- replay the shortest history of every product state from default()
    let mut traces = 0usize;
    for i in 0..nodes.len() {
        let h = history(&nodes, i);
        let r = catch(|| {
            let mut s = p.init();
            for &mi in &h {
                s = p.apply(&s, &msgs[mi].m)?;
            }
            Ok::<_, String>(s)
        });
        match r {
            Ok(Ok(s)) if p.key(&s) == p.key(&nodes[i].real) && p.class(&s) == nodes[i].spec => traces += 1,
            other => mc_core::report::machinery_failure(&format!(
                "C24 {}: replaying history {h:?} does not reproduce the product state {} ({:?})",
                p.name(),
                p.key(&nodes[i].real),
                other.map(|x| x.map(|s| p.key(&s)))
            )),
        }
    }
    // ---- pass 2: constructed representatives of every class
    let cons = p.constructed();
    let classes: BTreeSet<&str> = cons.iter().map(|s| p.class(s)).collect();
    let table_states: BTreeSet<&str> = table.states.keys().map(|s| s.as_str()).collect();
    if classes != table_states {
        mc_core::report::machinery_failure(&format!("C24 {}: constructed classes {classes:?} differ from table states {table_states:?}", p.name()));
    }
    let mut cons_cells = 0usize;
    for s in &cons {
        for m in &msgs {
            cons_cells += 1;
            let spec = p.class(s).to_string();
            evaluate(p, &table, ctx, &spec, s, m, &[], "state constructed directly", &mut matrix, &mut bad_cells);
        }
    }
    // every (state, message) cell of the table was evaluated
    for st in table.states.keys() {
        for l in &labels {
            if !matrix.contains_key(&(st.clone(), l.clone())) {
                mc_core::report::machinery_failure(&format!("C24 {}: cell ({st}, {l}) never evaluated", p.name()));
            }
        }
    }
    // ---- report
    let mut mj = serde_json::Map::new();
    for st in table.states.keys() {
        let mut row = serde_json::Map::new();
        for l in &labels {
            let key = (st.clone(), l.clone());
            let imp: Vec<&String> = matrix[&key].iter().collect();
            row.insert(
                l.clone(),
                json!({"spec": table.next(st, l).unwrap_or("-"), "impl": imp, "agree": !bad_cells.contains(&key)}),
            );
        }
        mj.insert(format!("{st} [{}]", table.states[st]), Value::Object(row));
    }
    let reached_specs: BTreeSet<&String> = nodes.iter().map(|n| &n.spec).collect();
    for i in [nodes.len() / 2, nodes.len() - 1] {
        if tot.samples.len() < 24 {
            let h: Vec<String> = history(&nodes, i).iter().map(|&mi| p.msg_render(&msgs[mi].m)).collect();
            tot.samples.push(json!({"protocol": p.name(), "messages_from_default": h, "product_state": [nodes[i].spec, p.key(&nodes[i].real)]}));
        }
    }
    tot.states += nodes.len();
    tot.transitions += transitions;
    tot.traces += traces;
    tot.constructed_cells += cons_cells;
    tot.disagreeing_cells += bad_cells.len();
    tot.per_protocol.insert(
        p.name().to_string(),
        json!({
            "spec_table": format!("spec/{}.json", p.spec()),
            "product_states": nodes.len(),
            "transitions": transitions,
            "fixpoint_depth": depth,
            "per_depth_new_states": per_depth,
            "fixpoint": true,
            "spec_states_reached_by_bfs": reached_specs,
            "spec_states": table.states.keys().collect::<Vec<_>>(),
            "transitions_with_disagreement_not_expanded": pruned,
            "histories_replayed_from_default": traces,
            "message_instances": msgs.len(),
            "constructed_states": cons.len(),
            "constructed_evaluations": cons_cells,
            "disagreeing_cells": bad_cells.iter().map(|(s, l)| format!("{s} x {l}")).collect::<Vec<_>>(),
            "matrix_state_class_x_message": Value::Object(mj),
        }),
    );
}

pub fn run(ctx: Ctx) -> ! {
    let mut tot = Totals::default();
    use n2::handshake::{n2c, n2n};
    check_proto(
        &Handshake::<n2n::VersionData> {
            name: "handshake(n2n)",
            d1: n2n::VersionData::new(764824073, false, Some(1), Some(false)),
            d2: n2n::VersionData::new(2, true, None, None),
            v1: 13,
            v2: 7,
        },
        &ctx,
        &mut tot,
    );
    check_proto(
        &Handshake::<n2c::VersionData> {
            name: "handshake(n2c)",
            d1: n2c::VersionData::new(764824073, Some(false)),
            d2: n2c::VersionData::new(1, None),
            v1: 32784,
            v2: 32778,
        },
        &ctx,
        &mut tot,
    );
    check_proto(&KeepAlive, &ctx, &mut tot);
    check_proto(&ChainSync, &ctx, &mut tot);
    check_proto(&BlockFetch, &ctx, &mut tot);
    check_proto(&PeerSharing, &ctx, &mut tot);
    check_proto(&TxSubmission, &ctx, &mut tot);
    check_proto(&LeiosNotify, &ctx, &mut tot);
    check_proto(&LeiosFetch, &ctx, &mut tot);

    if tot.per_protocol.len() != 9 || tot.states < 30 {
        mc_core::report::machinery_failure("C24: a protocol was not explored");
    }
    ctx.note("diagnostic (not a verdict): keepalive apply accepts ResponseKeepAlive(c') in Server(c) for any c' (cookie equality is not part of the transition relation in the table either)");
    ctx.note("diagnostic (not a verdict): leiosfetch BlockTxs drops the echoed point/bitmaps (documented); only txs are compared as carried data");
    let cov = cov! {
        "states" => tot.states,
        "transitions" => tot.transitions,
        "traces_validated_against_impl" => tot.traces,
        "samples" => tot.samples,
        "fixpoint" => true,
        "exhaustive" => true,
        "constructed_state_evaluations" => tot.constructed_cells,
        "disagreeing_cells" => tot.disagreeing_cells,
        "protocols" => tot.per_protocol,
        "tier_note" => "quick and thorough explore the same (complete) space; the search is a fixpoint",
    };
    ctx.finish(
        Level::ModelChecking,
        cov,
        &[
            "specification tables /verif/spec/*.json transcribed from the Ouroboros network specification (leios: module docs citing the leios-prototype CDDL); shape-checked before use",
            "two payload values per message variant; apply does not branch on payload values except the tx-submission blocking flag, which is modelled as two messages",
            "state classes are the enum variants of State; payload comparison through Debug renderings (hash maps rendered sorted)",
            "a product state reached by a disagreeing transition is not expanded; every state class is additionally evaluated on directly constructed values",
        ],
    )
}
