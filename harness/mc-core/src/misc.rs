//! Small textbook references: CRC-32 (IEEE), bech32 (BIP-173) decode/encode,
//! base58 (bitcoin alphabet).

pub fn crc32(data: &[u8]) -> u32 {
    let mut crc: u32 = 0xffff_ffff;
    for &b in data {
        crc ^= b as u32;
        for _ in 0..8 {
            crc = if crc & 1 != 0 { (crc >> 1) ^ 0xedb8_8320 } else { crc >> 1 };
        }
    }
    !crc
}

const B32: &[u8; 32] = b"qpzry9x8gf2tvdw0s3jn54khce6mua7l";

fn polymod(values: &[u8]) -> u32 {
    const GEN: [u32; 5] = [0x3b6a57b2, 0x26508e6d, 0x1ea119fa, 0x3d4233dd, 0x2a1462b3];
    let mut chk: u32 = 1;
    for &v in values {
        let b = chk >> 25;
        chk = ((chk & 0x1ff_ffff) << 5) ^ v as u32;
        for (i, g) in GEN.iter().enumerate() {
            if (b >> i) & 1 != 0 {
                chk ^= g;
            }
        }
    }
    chk
}

fn hrp_expand(hrp: &str) -> Vec<u8> {
    let mut v: Vec<u8> = hrp.bytes().map(|c| c >> 5).collect();
    v.push(0);
    v.extend(hrp.bytes().map(|c| c & 31));
    v
}

/// Decode a bech32 (checksum constant 1) string into (hrp, payload bytes).
/// No length limit (Cardano addresses exceed 90 characters).
pub fn bech32_decode(s: &str) -> Option<(String, Vec<u8>)> {
    let lower = s.to_ascii_lowercase();
    if lower != s && s.to_ascii_uppercase() != s {
        return None;
    }
    let pos = lower.rfind('1')?;
    let hrp = &lower[..pos];
    let data = &lower[pos + 1..];
    if hrp.is_empty() || data.len() < 6 {
        return None;
    }
    let mut vals = vec![];
    for c in data.bytes() {
        vals.push(B32.iter().position(|&x| x == c)? as u8);
    }
    let mut chk = hrp_expand(hrp);
    chk.extend_from_slice(&vals);
    if polymod(&chk) != 1 {
        return None;
    }
    let vals = &vals[..vals.len() - 6];
    // 5 -> 8 bits
    let mut acc: u32 = 0;
    let mut bits = 0;
    let mut out = vec![];
    for &v in vals {
        acc = (acc << 5) | v as u32;
        bits += 5;
        if bits >= 8 {
            bits -= 8;
            out.push((acc >> bits) as u8);
            acc &= (1 << bits) - 1;
        }
    }
    if bits >= 5 || acc != 0 {
        return None;
    }
    Some((hrp.to_string(), out))
}

const B58: &[u8; 58] = b"123456789ABCDEFGHJKLMNPQRSTUVWXYZabcdefghijkmnopqrstuvwxyz";

pub fn base58_encode(data: &[u8]) -> String {
    let zeros = data.iter().take_while(|&&b| b == 0).count();
    let mut digits: Vec<u8> = vec![];
    for &b in data {
        let mut carry = b as u32;
        for d in digits.iter_mut() {
            carry += (*d as u32) << 8;
            *d = (carry % 58) as u8;
            carry /= 58;
        }
        while carry > 0 {
            digits.push((carry % 58) as u8);
            carry /= 58;
        }
    }
    let mut s = String::new();
    for _ in 0..zeros {
        s.push('1');
    }
    for d in digits.iter().rev() {
        s.push(B58[*d as usize] as char);
    }
    s
}

pub fn base58_decode(s: &str) -> Option<Vec<u8>> {
    let zeros = s.bytes().take_while(|&b| b == b'1').count();
    let mut bytes: Vec<u8> = vec![];
    for c in s.bytes() {
        let mut carry = B58.iter().position(|&x| x == c)? as u32;
        for b in bytes.iter_mut() {
            carry += (*b as u32) * 58;
            *b = carry as u8;
            carry >>= 8;
        }
        while carry > 0 {
            bytes.push(carry as u8);
            carry >>= 8;
        }
    }
    let mut out = vec![0u8; zeros];
    out.extend(bytes.iter().rev());
    Some(out)
}

#[cfg(test)]
mod tests {
    use super::*;
    #[test]
    fn crc() {
        assert_eq!(crc32(b"123456789"), 0xcbf43926);
    }
    #[test]
    fn b32() {
        let (hrp, d) = bech32_decode("abcdef1qpzry9x8gf2tvdw0s3jn54khce6mua7lmqqqxw").unwrap();
        assert_eq!(hrp, "abcdef");
        assert_eq!(d.len(), 20);
        assert!(bech32_decode("abcdef1qpzry9x8gf2tvdw0s3jn54khce6mua7lmqqqxx").is_none());
    }
    #[test]
    fn b58() {
        let d = [0u8, 0, 1, 2, 3, 255, 254];
        assert_eq!(base58_decode(&base58_encode(&d)).unwrap(), d);
    }
}
