//! Panic capture: every call into pallas goes through `catch`, which turns a
//! panic into `Err(PanicInfo)` carrying message and source location. The
//! location is what identifies a panic *site* in known_findings.json.

use std::cell::RefCell;
use std::panic::{self, AssertUnwindSafe};
use std::sync::Once;

#[derive(Debug, Clone)]
pub struct PanicInfo {
    pub message: String,
    /// `file:line` with the `/repo/` prefix stripped (column dropped so that
    /// a formatting change does not make a listed finding look new).
    pub location: String,
}

impl PanicInfo {
    /// Stable identifier of the panic site: file + message kind, without the
    /// line (so unrelated edits above the site do not rename it).
    pub fn site(&self) -> String {
        let file = self.location.rsplit_once(':').map(|x| x.0).unwrap_or(&self.location);
        let msg: String = self
            .message
            .chars()
            .map(|c| if c.is_ascii_digit() { '#' } else { c })
            .collect();
        let mut m = String::new();
        let mut last_hash = false;
        for c in msg.chars() {
            if c == '#' {
                if !last_hash {
                    m.push('#');
                }
                last_hash = true;
            } else {
                m.push(c);
                last_hash = false;
            }
        }
        let m: String = m.chars().take(80).collect();
        format!("panic@{file}: {m}")
    }
}

thread_local! {
    static LAST: RefCell<Option<PanicInfo>> = const { RefCell::new(None) };
    static QUIET: RefCell<u32> = const { RefCell::new(0) };
}

static HOOK: Once = Once::new();

fn install() {
    HOOK.call_once(|| {
        let prev = panic::take_hook();
        panic::set_hook(Box::new(move |info| {
            let quiet = QUIET.with(|q| *q.borrow() > 0);
            if quiet {
                let message = if let Some(s) = info.payload().downcast_ref::<&str>() {
                    s.to_string()
                } else if let Some(s) = info.payload().downcast_ref::<String>() {
                    s.clone()
                } else {
                    "<non-string panic payload>".to_string()
                };
                let location = info
                    .location()
                    .map(|l| {
                        // path relative to the pallas workspace root, wherever the
                        // tree is checked out (/repo, or a scratch copy)
                        let f = l.file();
                        let f = match f.find("/pallas-") {
                            Some(i) if !f.contains("/.cargo/") => &f[i + 1..],
                            _ => f.strip_prefix("/repo/").unwrap_or(f),
                        };
                        format!("{}:{}", f, l.line())
                    })
                    .unwrap_or_else(|| "<unknown>".into());
                LAST.with(|l| *l.borrow_mut() = Some(PanicInfo { message, location }));
            } else {
                prev(info);
            }
        }));
    });
}

/// Run `f`, converting a panic into `Err`. Nested use is fine.
pub fn catch<T>(f: impl FnOnce() -> T) -> Result<T, PanicInfo> {
    install();
    QUIET.with(|q| *q.borrow_mut() += 1);
    let r = panic::catch_unwind(AssertUnwindSafe(f));
    QUIET.with(|q| *q.borrow_mut() -= 1);
    match r {
        Ok(v) => Ok(v),
        Err(_) => Err(LAST.with(|l| l.borrow_mut().take()).unwrap_or(PanicInfo {
            message: "<panic>".into(),
            location: "<unknown>".into(),
        })),
    }
}
