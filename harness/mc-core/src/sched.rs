//! SCHED engine: an owned, deterministic scheduler for plain `Future`s plus a
//! deviation-bounded (delay-bounded) depth-first explorer of its schedules.
//!
//! * A task is a boxed future; its waker sets a `runnable` flag.
//! * A scheduling point = choosing which runnable task to poll once.
//!   Canonical order of the enabled set: the task polled last (if still
//!   runnable) first, then ascending task id. Choice 0 is the default
//!   scheduler; every other choice costs one deviation.
//! * `explore` replays a choice prefix (a prefix that does not fit is a hard
//!   error), continues with choice 0, and branches on every later point while
//!   the deviation budget lasts. All schedules with <= bound deviations are
//!   enumerated exactly once.

use std::future::Future;
use std::pin::Pin;
use std::sync::atomic::{AtomicBool, Ordering};
use std::sync::Arc;
use std::task::{Context, Poll, Wake, Waker};

struct Flag(AtomicBool);
impl Wake for Flag {
    fn wake(self: Arc<Self>) {
        self.0.store(true, Ordering::SeqCst);
    }
    fn wake_by_ref(self: &Arc<Self>) {
        self.0.store(true, Ordering::SeqCst);
    }
}

pub struct Task {
    pub name: String,
    fut: Pin<Box<dyn Future<Output = ()>>>,
    flag: Arc<Flag>,
    done: bool,
}

/// A closed system of tasks; built fresh for every schedule.
#[derive(Default)]
pub struct Tasks {
    tasks: Vec<Task>,
}

impl Tasks {
    pub fn new() -> Self {
        Tasks { tasks: vec![] }
    }
    pub fn spawn(&mut self, name: &str, f: impl Future<Output = ()> + 'static) {
        self.tasks.push(Task { name: name.to_string(), fut: Box::pin(f), flag: Arc::new(Flag(AtomicBool::new(true))), done: false });
    }
    pub fn len(&self) -> usize {
        self.tasks.len()
    }
    pub fn is_empty(&self) -> bool {
        self.tasks.is_empty()
    }
}

/// Yield to the scheduler once (a scheduling point inside a task).
pub fn yield_now() -> impl Future<Output = ()> {
    struct Y(bool);
    impl Future for Y {
        type Output = ();
        fn poll(mut self: Pin<&mut Self>, cx: &mut Context<'_>) -> Poll<()> {
            if self.0 {
                Poll::Ready(())
            } else {
                self.0 = true;
                cx.waker().wake_by_ref();
                Poll::Pending
            }
        }
    }
    Y(false)
}

#[derive(Debug, Clone)]
pub struct Execution {
    /// Choice taken at every scheduling point (index into the canonical enabled order).
    pub choices: Vec<usize>,
    /// Number of enabled tasks at every scheduling point.
    pub enabled: Vec<usize>,
    /// Task id polled at every point.
    pub polled: Vec<usize>,
    /// Ended because no task was runnable (as opposed to the step horizon).
    pub quiescent: bool,
    pub tasks_done: Vec<bool>,
}

#[derive(Debug)]
pub enum RunError {
    /// The prefix asked for a choice that does not exist: nondeterminism the
    /// harness does not own.
    Divergence { point: usize, wanted: usize, enabled: usize },
}

/// Run one schedule: follow `prefix`, then the default choice, until nothing
/// is runnable or `horizon` polls were made.
pub fn run(sys: Tasks, prefix: &[usize], horizon: usize) -> Result<Execution, RunError> {
    run_inner(sys, prefix, horizon, &|| false)
}

/// Default schedule, stopping early as soon as `stop()` holds (checked after
/// every poll). Used by run-to-completion rigs where the quantifier is not
/// over schedules.
pub fn run_until(sys: Tasks, horizon: usize, stop: &dyn Fn() -> bool) -> Result<Execution, RunError> {
    run_inner(sys, &[], horizon, stop)
}

fn run_inner(mut sys: Tasks, prefix: &[usize], horizon: usize, stop: &dyn Fn() -> bool) -> Result<Execution, RunError> {
    let mut x = Execution { choices: vec![], enabled: vec![], polled: vec![], quiescent: false, tasks_done: vec![] };
    let mut current: Option<usize> = None;
    for step in 0..horizon {
        let mut en: Vec<usize> = vec![];
        if let Some(c) = current {
            if !sys.tasks[c].done && sys.tasks[c].flag.0.load(Ordering::SeqCst) {
                en.push(c);
            }
        }
        for (i, t) in sys.tasks.iter().enumerate() {
            if Some(i) != current && !t.done && t.flag.0.load(Ordering::SeqCst) {
                en.push(i);
            }
        }
        if en.is_empty() {
            x.quiescent = true;
            break;
        }
        let choice = if step < prefix.len() { prefix[step] } else { 0 };
        if choice >= en.len() {
            return Err(RunError::Divergence { point: step, wanted: choice, enabled: en.len() });
        }
        let tid = en[choice];
        x.choices.push(choice);
        x.enabled.push(en.len());
        x.polled.push(tid);
        let t = &mut sys.tasks[tid];
        t.flag.0.store(false, Ordering::SeqCst);
        let waker = Waker::from(t.flag.clone());
        let mut cx = Context::from_waker(&waker);
        if let Poll::Ready(()) = t.fut.as_mut().poll(&mut cx) {
            t.done = true;
        }
        current = Some(tid);
        if stop() {
            break;
        }
    }
    x.tasks_done = sys.tasks.iter().map(|t| t.done).collect();
    Ok(x)
}

#[derive(Debug, Default, Clone)]
pub struct ExploreStats {
    pub schedules: u64,
    pub scheduling_points: u64,
    pub branch_points: u64,
    pub max_points: usize,
    pub horizon_hits: u64,
    pub capped: bool,
}

/// Enumerate every schedule with at most `bound` deviations. `build` makes a
/// fresh system; `check` receives each completed execution (and the value the
/// builder returned alongside, typically shared observation state).
pub fn explore<O>(
    build: &dyn Fn() -> (Tasks, O),
    check: &mut dyn FnMut(&Execution, O),
    bound: usize,
    horizon: usize,
    max_schedules: u64,
) -> Result<ExploreStats, RunError> {
    let mut st = ExploreStats::default();
    // explicit stack of (prefix, deviations used)
    let mut stack: Vec<(Vec<usize>, usize)> = vec![(vec![], 0)];
    while let Some((prefix, used)) = stack.pop() {
        if st.schedules >= max_schedules {
            st.capped = true;
            break;
        }
        let (sys, obs) = build();
        let x = run(sys, &prefix, horizon)?;
        st.schedules += 1;
        st.scheduling_points += x.choices.len() as u64;
        st.max_points = st.max_points.max(x.choices.len());
        if !x.quiescent {
            st.horizon_hits += 1;
        }
        if used < bound {
            for i in prefix.len()..x.choices.len() {
                if x.enabled[i] > 1 {
                    st.branch_points += 1;
                    for alt in 1..x.enabled[i] {
                        let mut p = x.choices[..i].to_vec();
                        p.push(alt);
                        stack.push((p, used + 1));
                    }
                }
            }
        }
        check(&x, obs);
    }
    Ok(st)
}
