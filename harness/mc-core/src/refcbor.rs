//! Independent, strict, *lossless* CBOR reader/writer (RFC 8949). The AST keeps
//! head widths, definite/indefinite form, string chunking and byte spans, so
//! that an item can be re-encoded byte-identically, located inside a larger
//! artefact, or re-encoded in another (semantically equal) form.
//! Shares no code with minicbor / pallas.

/// Width of the argument of a head: 0 = immediate (value < 24 in the initial
/// byte), otherwise 1, 2, 4 or 8 following bytes.
pub type W = u8;

#[derive(Clone, Debug, PartialEq, Eq)]
pub struct Node {
    pub kind: Kind,
    /// Byte span `[start, end)` in the buffer this node was parsed from
    /// (0,0 for nodes built in memory).
    pub start: usize,
    pub end: usize,
}

#[derive(Clone, Debug, PartialEq, Eq)]
pub enum Kind {
    UInt(u64, W),
    /// Negative integer -1 - n.
    NInt(u64, W),
    Bytes(Vec<u8>, W),
    BytesIndef(Vec<(Vec<u8>, W)>),
    Text(Vec<u8>, W),
    TextIndef(Vec<(Vec<u8>, W)>),
    /// `None` width = indefinite length.
    Array(Vec<Node>, Option<W>),
    Map(Vec<(Node, Node)>, Option<W>),
    Tag(u64, W, Box<Node>),
    /// Major type 7 simple value (20 false, 21 true, 22 null, 23 undefined …);
    /// width 0 or 1.
    Simple(u8, W),
    /// Float of width 2/4/8 with its raw bits.
    Float(u8, u64),
}

#[derive(Debug, Clone, PartialEq, Eq)]
pub enum Error {
    Eof(usize),
    Reserved(usize),
    UnexpectedBreak(usize),
    BadChunk(usize),
    Trailing(usize),
    TooDeep(usize),
    BadSimple(usize),
    LengthOverflow(usize),
}

pub fn min_width(v: u64) -> W {
    if v < 24 {
        0
    } else if v <= 0xff {
        1
    } else if v <= 0xffff {
        2
    } else if v <= 0xffff_ffff {
        4
    } else {
        8
    }
}

pub fn width_fits(v: u64, w: W) -> bool {
    match w {
        0 => v < 24,
        1 => v <= 0xff,
        2 => v <= 0xffff,
        4 => v <= 0xffff_ffff,
        8 => true,
        _ => false,
    }
}

pub fn write_head(out: &mut Vec<u8>, major: u8, v: u64, w: W) {
    assert!(width_fits(v, w), "value {v} does not fit head width {w}");
    let m = major << 5;
    match w {
        0 => out.push(m | v as u8),
        1 => {
            out.push(m | 24);
            out.push(v as u8)
        }
        2 => {
            out.push(m | 25);
            out.extend_from_slice(&(v as u16).to_be_bytes())
        }
        4 => {
            out.push(m | 26);
            out.extend_from_slice(&(v as u32).to_be_bytes())
        }
        8 => {
            out.push(m | 27);
            out.extend_from_slice(&v.to_be_bytes())
        }
        _ => unreachable!(),
    }
}

struct P<'a> {
    b: &'a [u8],
    pos: usize,
    max_depth: usize,
}

impl<'a> P<'a> {
    fn byte(&mut self) -> Result<u8, Error> {
        let x = *self.b.get(self.pos).ok_or(Error::Eof(self.pos))?;
        self.pos += 1;
        Ok(x)
    }
    fn take(&mut self, n: u64) -> Result<&'a [u8], Error> {
        let n: usize = usize::try_from(n).map_err(|_| Error::LengthOverflow(self.pos))?;
        let end = self.pos.checked_add(n).ok_or(Error::LengthOverflow(self.pos))?;
        if end > self.b.len() {
            return Err(Error::Eof(self.b.len()));
        }
        let s = &self.b[self.pos..end];
        self.pos = end;
        Ok(s)
    }
    /// Returns (argument, width); for additional info 31 returns Err(None) via flag.
    fn arg(&mut self, ai: u8, at: usize) -> Result<Option<(u64, W)>, Error> {
        Ok(Some(match ai {
            0..=23 => (ai as u64, 0),
            24 => (self.byte()? as u64, 1),
            25 => {
                let s = self.take(2)?;
                (u16::from_be_bytes([s[0], s[1]]) as u64, 2)
            }
            26 => {
                let s = self.take(4)?;
                (u32::from_be_bytes([s[0], s[1], s[2], s[3]]) as u64, 4)
            }
            27 => {
                let s = self.take(8)?;
                (u64::from_be_bytes(s.try_into().unwrap()), 8)
            }
            28..=30 => return Err(Error::Reserved(at)),
            _ => return Ok(None),
        }))
    }

    fn item(&mut self, depth: usize) -> Result<Node, Error> {
        if depth > self.max_depth {
            return Err(Error::TooDeep(self.pos));
        }
        let start = self.pos;
        let ib = self.byte()?;
        let major = ib >> 5;
        let ai = ib & 0x1f;
        let arg = self.arg(ai, start)?;
        let kind = match major {
            0 => {
                let (v, w) = arg.ok_or(Error::Reserved(start))?;
                Kind::UInt(v, w)
            }
            1 => {
                let (v, w) = arg.ok_or(Error::Reserved(start))?;
                Kind::NInt(v, w)
            }
            2 | 3 => match arg {
                Some((n, w)) => {
                    let s = self.take(n)?.to_vec();
                    if major == 2 {
                        Kind::Bytes(s, w)
                    } else {
                        Kind::Text(s, w)
                    }
                }
                None => {
                    let mut chunks = vec![];
                    loop {
                        let at = self.pos;
                        let cb = self.byte()?;
                        if cb == 0xff {
                            break;
                        }
                        if cb >> 5 != major {
                            return Err(Error::BadChunk(at));
                        }
                        let (n, w) = self.arg(cb & 0x1f, at)?.ok_or(Error::BadChunk(at))?;
                        chunks.push((self.take(n)?.to_vec(), w));
                    }
                    if major == 2 {
                        Kind::BytesIndef(chunks)
                    } else {
                        Kind::TextIndef(chunks)
                    }
                }
            },
            4 => match arg {
                Some((n, w)) => {
                    let mut v = vec![];
                    for _ in 0..n {
                        v.push(self.item(depth + 1)?);
                    }
                    Kind::Array(v, Some(w))
                }
                None => {
                    let mut v = vec![];
                    loop {
                        if *self.b.get(self.pos).ok_or(Error::Eof(self.pos))? == 0xff {
                            self.pos += 1;
                            break;
                        }
                        v.push(self.item(depth + 1)?);
                    }
                    Kind::Array(v, None)
                }
            },
            5 => match arg {
                Some((n, w)) => {
                    let mut v = vec![];
                    for _ in 0..n {
                        let k = self.item(depth + 1)?;
                        let x = self.item(depth + 1)?;
                        v.push((k, x));
                    }
                    Kind::Map(v, Some(w))
                }
                None => {
                    let mut v = vec![];
                    loop {
                        if *self.b.get(self.pos).ok_or(Error::Eof(self.pos))? == 0xff {
                            self.pos += 1;
                            break;
                        }
                        let k = self.item(depth + 1)?;
                        if *self.b.get(self.pos).ok_or(Error::Eof(self.pos))? == 0xff {
                            return Err(Error::UnexpectedBreak(self.pos));
                        }
                        let x = self.item(depth + 1)?;
                        v.push((k, x));
                    }
                    Kind::Map(v, None)
                }
            },
            6 => {
                let (t, w) = arg.ok_or(Error::Reserved(start))?;
                Kind::Tag(t, w, Box::new(self.item(depth + 1)?))
            }
            _ => match ai {
                0..=23 => Kind::Simple(ai, 0),
                24 => {
                    let (v, _) = arg.unwrap();
                    if v < 32 {
                        return Err(Error::BadSimple(start));
                    }
                    Kind::Simple(v as u8, 1)
                }
                25 => Kind::Float(2, arg.unwrap().0),
                26 => Kind::Float(4, arg.unwrap().0),
                27 => Kind::Float(8, arg.unwrap().0),
                _ => return Err(Error::UnexpectedBreak(start)),
            },
        };
        Ok(Node { kind, start, end: self.pos })
    }
}

/// Parse exactly one item starting at `pos`; returns the node (its `end` is
/// where the next item would start).
pub fn parse_at(b: &[u8], pos: usize) -> Result<Node, Error> {
    let mut p = P { b, pos, max_depth: 512 };
    p.item(0)
}

/// Parse a buffer that must consist of exactly one well-formed item.
pub fn parse_one(b: &[u8]) -> Result<Node, Error> {
    let n = parse_at(b, 0)?;
    if n.end != b.len() {
        return Err(Error::Trailing(n.end));
    }
    Ok(n)
}

/// Parse a concatenation of items.
pub fn parse_seq(b: &[u8]) -> Result<Vec<Node>, Error> {
    let mut pos = 0;
    let mut v = vec![];
    while pos < b.len() {
        let n = parse_at(b, pos)?;
        pos = n.end;
        v.push(n);
    }
    Ok(v)
}

impl Node {
    pub fn new(kind: Kind) -> Node {
        Node { kind, start: 0, end: 0 }
    }
    pub fn span<'a>(&self, buf: &'a [u8]) -> &'a [u8] {
        &buf[self.start..self.end]
    }
    pub fn write(&self, out: &mut Vec<u8>) {
        match &self.kind {
            Kind::UInt(v, w) => write_head(out, 0, *v, *w),
            Kind::NInt(v, w) => write_head(out, 1, *v, *w),
            Kind::Bytes(s, w) => {
                write_head(out, 2, s.len() as u64, *w);
                out.extend_from_slice(s)
            }
            Kind::Text(s, w) => {
                write_head(out, 3, s.len() as u64, *w);
                out.extend_from_slice(s)
            }
            Kind::BytesIndef(ch) => {
                out.push(0x5f);
                for (s, w) in ch {
                    write_head(out, 2, s.len() as u64, *w);
                    out.extend_from_slice(s);
                }
                out.push(0xff)
            }
            Kind::TextIndef(ch) => {
                out.push(0x7f);
                for (s, w) in ch {
                    write_head(out, 3, s.len() as u64, *w);
                    out.extend_from_slice(s);
                }
                out.push(0xff)
            }
            Kind::Array(v, w) => {
                match w {
                    Some(w) => write_head(out, 4, v.len() as u64, *w),
                    None => out.push(0x9f),
                }
                for n in v {
                    n.write(out);
                }
                if w.is_none() {
                    out.push(0xff)
                }
            }
            Kind::Map(v, w) => {
                match w {
                    Some(w) => write_head(out, 5, v.len() as u64, *w),
                    None => out.push(0xbf),
                }
                for (k, x) in v {
                    k.write(out);
                    x.write(out);
                }
                if w.is_none() {
                    out.push(0xff)
                }
            }
            Kind::Tag(t, w, inner) => {
                write_head(out, 6, *t, *w);
                inner.write(out)
            }
            Kind::Simple(v, w) => {
                if *w == 0 {
                    out.push(0xe0 | v)
                } else {
                    out.push(0xf8);
                    out.push(*v)
                }
            }
            Kind::Float(w, bits) => match w {
                2 => {
                    out.push(0xf9);
                    out.extend_from_slice(&(*bits as u16).to_be_bytes())
                }
                4 => {
                    out.push(0xfa);
                    out.extend_from_slice(&(*bits as u32).to_be_bytes())
                }
                _ => {
                    out.push(0xfb);
                    out.extend_from_slice(&bits.to_be_bytes())
                }
            },
        }
    }
    pub fn to_vec(&self) -> Vec<u8> {
        let mut v = vec![];
        self.write(&mut v);
        v
    }

    // ---- convenient constructors (minimal heads) ----
    pub fn uint(v: u64) -> Node {
        Node::new(Kind::UInt(v, min_width(v)))
    }
    pub fn uint_w(v: u64, w: W) -> Node {
        Node::new(Kind::UInt(v, w))
    }
    pub fn nint(n: u64) -> Node {
        Node::new(Kind::NInt(n, min_width(n)))
    }
    /// Any integer in [-2^64, 2^64-1].
    pub fn int(v: i128) -> Node {
        if v >= 0 {
            Node::uint(v as u64)
        } else {
            Node::nint((-1 - v) as u64)
        }
    }
    pub fn bytes(s: &[u8]) -> Node {
        Node::new(Kind::Bytes(s.to_vec(), min_width(s.len() as u64)))
    }
    pub fn text(s: &str) -> Node {
        Node::new(Kind::Text(s.as_bytes().to_vec(), min_width(s.len() as u64)))
    }
    pub fn array(v: Vec<Node>) -> Node {
        let w = min_width(v.len() as u64);
        Node::new(Kind::Array(v, Some(w)))
    }
    pub fn array_indef(v: Vec<Node>) -> Node {
        Node::new(Kind::Array(v, None))
    }
    pub fn map(v: Vec<(Node, Node)>) -> Node {
        let w = min_width(v.len() as u64);
        Node::new(Kind::Map(v, Some(w)))
    }
    pub fn map_indef(v: Vec<(Node, Node)>) -> Node {
        Node::new(Kind::Map(v, None))
    }
    pub fn tag(t: u64, inner: Node) -> Node {
        Node::new(Kind::Tag(t, min_width(t), Box::new(inner)))
    }
    pub fn null() -> Node {
        Node::new(Kind::Simple(22, 0))
    }
    pub fn undefined() -> Node {
        Node::new(Kind::Simple(23, 0))
    }
    pub fn bool(b: bool) -> Node {
        Node::new(Kind::Simple(if b { 21 } else { 20 }, 0))
    }

    // ---- accessors ----
    pub fn as_u64(&self) -> Option<u64> {
        match &self.kind {
            Kind::UInt(v, _) => Some(*v),
            _ => None,
        }
    }
    pub fn as_i128(&self) -> Option<i128> {
        match &self.kind {
            Kind::UInt(v, _) => Some(*v as i128),
            Kind::NInt(v, _) => Some(-1 - (*v as i128)),
            _ => None,
        }
    }
    pub fn as_bytes(&self) -> Option<Vec<u8>> {
        match &self.kind {
            Kind::Bytes(s, _) => Some(s.clone()),
            Kind::BytesIndef(ch) => Some(ch.iter().flat_map(|c| c.0.clone()).collect()),
            _ => None,
        }
    }
    pub fn as_array(&self) -> Option<&Vec<Node>> {
        match &self.kind {
            Kind::Array(v, _) => Some(v),
            _ => None,
        }
    }
    pub fn as_array_mut(&mut self) -> Option<&mut Vec<Node>> {
        match &mut self.kind {
            Kind::Array(v, _) => Some(v),
            _ => None,
        }
    }
    pub fn as_map(&self) -> Option<&Vec<(Node, Node)>> {
        match &self.kind {
            Kind::Map(v, _) => Some(v),
            _ => None,
        }
    }
    pub fn as_map_mut(&mut self) -> Option<&mut Vec<(Node, Node)>> {
        match &mut self.kind {
            Kind::Map(v, _) => Some(v),
            _ => None,
        }
    }
    /// Value under an unsigned-integer map key.
    pub fn map_get(&self, key: u64) -> Option<&Node> {
        self.as_map()?.iter().find(|(k, _)| k.as_u64() == Some(key)).map(|(_, v)| v)
    }
    /// Strip any number of tags.
    pub fn untagged(&self) -> &Node {
        match &self.kind {
            Kind::Tag(_, _, inner) => inner.untagged(),
            _ => self,
        }
    }
    pub fn is_null(&self) -> bool {
        matches!(self.kind, Kind::Simple(22, 0))
    }

    /// Depth-first pre-order visit of every node with a mutable reference.
    pub fn walk_mut(&mut self, f: &mut dyn FnMut(&mut Node)) {
        f(self);
        match &mut self.kind {
            Kind::Array(v, _) => v.iter_mut().for_each(|n| n.walk_mut(f)),
            Kind::Map(v, _) => v.iter_mut().for_each(|(k, x)| {
                k.walk_mut(f);
                x.walk_mut(f)
            }),
            Kind::Tag(_, _, inner) => inner.walk_mut(f),
            _ => {}
        }
    }
    pub fn walk(&self, f: &mut dyn FnMut(&Node)) {
        f(self);
        match &self.kind {
            Kind::Array(v, _) => v.iter().for_each(|n| n.walk(f)),
            Kind::Map(v, _) => v.iter().for_each(|(k, x)| {
                k.walk(f);
                x.walk(f)
            }),
            Kind::Tag(_, _, inner) => inner.walk(f),
            _ => {}
        }
    }
    pub fn count_nodes(&self) -> usize {
        let mut n = 0;
        self.walk(&mut |_| n += 1);
        n
    }
    /// Canonical-form copy: minimal heads, definite lengths, unchunked
    /// strings (map order and tags untouched). Semantically equal to `self`.
    pub fn canonical(&self) -> Node {
        let mut c = self.clone();
        c.walk_mut(&mut |n| {
            n.kind = match std::mem::replace(&mut n.kind, Kind::Simple(22, 0)) {
                Kind::UInt(v, _) => Kind::UInt(v, min_width(v)),
                Kind::NInt(v, _) => Kind::NInt(v, min_width(v)),
                Kind::Bytes(s, _) => {
                    let w = min_width(s.len() as u64);
                    Kind::Bytes(s, w)
                }
                Kind::Text(s, _) => {
                    let w = min_width(s.len() as u64);
                    Kind::Text(s, w)
                }
                Kind::BytesIndef(ch) => {
                    let s: Vec<u8> = ch.into_iter().flat_map(|c| c.0).collect();
                    let w = min_width(s.len() as u64);
                    Kind::Bytes(s, w)
                }
                Kind::TextIndef(ch) => {
                    let s: Vec<u8> = ch.into_iter().flat_map(|c| c.0).collect();
                    let w = min_width(s.len() as u64);
                    Kind::Text(s, w)
                }
                Kind::Array(v, _) => {
                    let w = min_width(v.len() as u64);
                    Kind::Array(v, Some(w))
                }
                Kind::Map(v, _) => {
                    let w = min_width(v.len() as u64);
                    Kind::Map(v, Some(w))
                }
                Kind::Tag(t, _, i) => Kind::Tag(t, min_width(t), i),
                k => k,
            }
        });
        c
    }
}

#[cfg(test)]
mod tests {
    use super::*;
    #[test]
    fn roundtrip_all_short() {
        // every 1- and 2-byte string: if it parses it re-encodes identically
        let mut ok = 0;
        for a in 0..=255u8 {
            for b in 0..=255u8 {
                for s in [&[a][..], &[a, b][..]] {
                    if let Ok(n) = parse_one(s) {
                        assert_eq!(n.to_vec(), s);
                        ok += 1;
                    }
                }
            }
        }
        assert!(ok > 1000);
    }
    #[test]
    fn nested() {
        let n = Node::array_indef(vec![
            Node::map(vec![(Node::uint(1), Node::bytes(b"ab"))]),
            Node::tag(258, Node::array(vec![Node::int(-5), Node::uint_w(3, 8)])),
            Node::new(Kind::BytesIndef(vec![(vec![1, 2], 0), (vec![], 1)])),
        ]);
        let b = n.to_vec();
        let p = parse_one(&b).unwrap();
        assert_eq!(p.to_vec(), b);
        assert!(parse_one(&b[..b.len() - 1]).is_err());
        let c = p.canonical().to_vec();
        assert!(c.len() < b.len());
    }
}
