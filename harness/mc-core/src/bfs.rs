//! SEQ engine: breadth-first explicit-state search in which a state is the
//! event history that reaches it. `run(history)` builds a fresh real object,
//! replays the history on it (checking the oracle on the way) and returns the
//! canonical key of the state reached. Level-parallel; results are merged in
//! frontier order so the search is deterministic.

use rayon::prelude::*;
use std::collections::HashSet;
use std::fmt::Debug;

#[derive(Debug, Clone, Default)]
pub struct Stats {
    pub states: usize,
    pub transitions: usize,
    pub max_depth: usize,
    /// A whole level added no new canonical state: every longer history stays
    /// inside the visited set.
    pub fixpoint: bool,
    pub capped: bool,
    pub per_depth_new_states: Vec<usize>,
    pub samples: Vec<String>,
    /// Histories not expanded because `run` reported a violation there.
    pub pruned: usize,
}

pub enum Outcome {
    /// Canonical key of the reached state.
    State(String),
    /// The oracle failed on this history (already reported); do not expand.
    Violation,
    /// The event turned out not to be enabled / meaningful here; not counted
    /// as a transition.
    Skip,
}

pub struct Config {
    pub max_depth: usize,
    pub max_states: usize,
    pub parallel: bool,
}

pub fn explore<E, FE, FR>(init_key: String, enabled: FE, run: FR, cfg: &Config) -> Stats
where
    E: Clone + Debug + Send + Sync,
    FE: Fn(&[E]) -> Vec<E> + Sync,
    FR: Fn(&[E]) -> Outcome + Sync,
{
    let mut seen: HashSet<String> = HashSet::new();
    seen.insert(init_key);
    let mut frontier: Vec<Vec<E>> = vec![vec![]];
    let mut st = Stats { states: 1, ..Default::default() };
    for depth in 1..=cfg.max_depth {
        if frontier.is_empty() {
            break;
        }
        let step = |hist: &Vec<E>| -> Vec<(Vec<E>, Outcome)> {
            enabled(hist)
                .into_iter()
                .map(|ev| {
                    let mut h = hist.clone();
                    h.push(ev);
                    let o = run(&h);
                    (h, o)
                })
                .collect()
        };
        let results: Vec<Vec<(Vec<E>, Outcome)>> = if cfg.parallel {
            frontier.par_iter().map(step).collect()
        } else {
            frontier.iter().map(step).collect()
        };
        let mut next = vec![];
        let mut new_states = 0;
        for (h, o) in results.into_iter().flatten() {
            match o {
                Outcome::Skip => {}
                Outcome::Violation => {
                    st.transitions += 1;
                    st.pruned += 1;
                }
                Outcome::State(k) => {
                    st.transitions += 1;
                    if seen.insert(k) {
                        new_states += 1;
                        if st.samples.len() < 6 && (new_states % 7 == 1) {
                            st.samples.push(format!("{h:?}"));
                        }
                        next.push(h);
                    }
                }
            }
        }
        st.states += new_states;
        st.per_depth_new_states.push(new_states);
        st.max_depth = depth;
        if new_states == 0 {
            st.fixpoint = true;
            break;
        }
        if st.states >= cfg.max_states {
            st.capped = true;
            break;
        }
        frontier = next;
    }
    st
}
