//! Shared machinery for the pallas model-checking harness: run context,
//! evidence / violation reporting, panic capture, explorers and the
//! independent reference implementations (CBOR, Blake2b, CRC-32, bech32).

pub mod bfs;
pub mod blake2b;
pub mod misc;
pub mod panics;
pub mod refcbor;
pub mod report;
pub mod sched;

pub use panics::catch;
pub use report::{Ctx, Level};
pub use serde_json;
pub use serde_json::{json, Value};
