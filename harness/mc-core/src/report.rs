//! Run context: tier/seed, violation collection (deduplicated by a stable
//! fingerprint), known-findings matching, evidence file, exit code.
//!
//! Exit codes: 0 = property held on everything explored (known findings are
//! printed as `KNOWN-FINDING:` lines), 1 = at least one unlisted violation
//! (`VIOLATION property=<id> replay=<path>`), 2 = machinery failure (never a
//! verdict).

use serde_json::{json, Map, Value};
use std::collections::BTreeMap;
use std::path::PathBuf;
use std::sync::Mutex;
use std::time::Instant;

#[derive(Clone, Copy, Debug, PartialEq)]
pub enum Level {
    Exploration,
    FaultEnumeration,
    ModelChecking,
}

impl Level {
    fn as_str(&self) -> &'static str {
        match self {
            Level::Exploration => "exploration",
            Level::FaultEnumeration => "fault_enumeration",
            Level::ModelChecking => "model_checking",
        }
    }
}

#[derive(Clone, Debug)]
pub struct Violation {
    pub fingerprint: String,
    pub what: String,
    pub replay: Value,
    pub count: u64,
}

pub struct Ctx {
    pub prop: String,
    pub thorough: bool,
    pub seed: u64,
    pub replay: Option<PathBuf>,
    pub root: PathBuf,
    start: Instant,
    violations: Mutex<BTreeMap<String, Violation>>,
    notes: Mutex<Vec<String>>,
}

pub fn root() -> PathBuf {
    PathBuf::from(std::env::var("VERIF_ROOT").unwrap_or_else(|_| "/verif".into()))
}

pub fn machinery_failure(msg: &str) -> ! {
    eprintln!("MACHINERY-FAILURE: {msg}");
    std::process::exit(2)
}

impl Ctx {
    /// Parses `<PROP> [--tier quick|thorough] [--replay <file>]` (+ env
    /// VERIF_TIER / VERIF_SEED).
    pub fn from_args() -> Ctx {
        let args: Vec<String> = std::env::args().collect();
        if args.len() < 2 {
            machinery_failure("usage: <bin> <PROPERTY> [--tier quick|thorough] [--replay f]");
        }
        let prop = args[1].clone();
        let mut tier = std::env::var("VERIF_TIER").unwrap_or_else(|_| "quick".into());
        let mut replay = None;
        let mut i = 2;
        while i < args.len() {
            match args[i].as_str() {
                "--tier" => {
                    tier = args.get(i + 1).cloned().unwrap_or_default();
                    i += 2;
                }
                "--replay" => {
                    replay = args.get(i + 1).map(PathBuf::from);
                    i += 2;
                }
                other => machinery_failure(&format!("unknown argument {other}")),
            }
        }
        if tier != "quick" && tier != "thorough" {
            machinery_failure(&format!("unknown tier {tier}"));
        }
        let seed = std::env::var("VERIF_SEED").ok().and_then(|s| s.parse().ok()).unwrap_or(0);
        Ctx {
            prop,
            thorough: tier == "thorough",
            seed,
            replay,
            root: root(),
            start: Instant::now(),
            violations: Mutex::new(BTreeMap::new()),
            notes: Mutex::new(Vec::new()),
        }
    }

    pub fn tier(&self) -> &'static str {
        if self.thorough {
            "thorough"
        } else {
            "quick"
        }
    }

    pub fn elapsed(&self) -> f64 {
        self.start.elapsed().as_secs_f64()
    }

    pub fn note(&self, s: impl Into<String>) {
        self.notes.lock().unwrap().push(s.into());
    }

    /// Record a violation. `fingerprint` identifies the *defect* (panic site,
    /// failing call site + input class, minimal history); the first witness is
    /// kept as the replay, later ones only counted.
    pub fn violation(&self, fingerprint: impl Into<String>, what: impl Into<String>, replay: Value) {
        let fp = fingerprint.into();
        let mut v = self.violations.lock().unwrap();
        match v.get_mut(&fp) {
            Some(e) => e.count += 1,
            None => {
                v.insert(fp.clone(), Violation { fingerprint: fp, what: what.into(), replay, count: 1 });
            }
        }
    }

    pub fn violation_count(&self) -> usize {
        self.violations.lock().unwrap().len()
    }

    fn known(&self) -> Vec<(String, String)> {
        let p = self.root.join("known_findings.json");
        let Ok(s) = std::fs::read_to_string(&p) else { return vec![] };
        let v: Value = match serde_json::from_str(&s) {
            Ok(v) => v,
            Err(e) => machinery_failure(&format!("known_findings.json unreadable: {e}")),
        };
        let mut out = vec![];
        if let Some(a) = v.get("findings").and_then(|f| f.as_array()) {
            for f in a {
                if f.get("property").and_then(|x| x.as_str()) == Some(&self.prop) {
                    out.push((
                        f.get("fingerprint").and_then(|x| x.as_str()).unwrap_or("").to_string(),
                        f.get("what").and_then(|x| x.as_str()).unwrap_or("").to_string(),
                    ));
                }
            }
        }
        out
    }

    /// Write evidence, print verdict lines, exit.
    pub fn finish(&self, level: Level, mut coverage: Map<String, Value>, assumptions: &[&str]) -> ! {
        let known = self.known();
        let viols = self.violations.lock().unwrap();
        let mut unlisted = vec![];
        let mut listed = vec![];
        for v in viols.values() {
            if let Some((_, what)) = known.iter().find(|(fp, _)| *fp == v.fingerprint) {
                listed.push((v.clone(), what.clone()));
            } else {
                unlisted.push(v.clone());
            }
        }
        let replay_dir = self.root.join("replays");
        let _ = std::fs::create_dir_all(&replay_dir);
        let mut lines = vec![];
        for (v, what) in &listed {
            lines.push(format!(
                "KNOWN-FINDING: property={} {} [{}; witnesses this run: {}]",
                self.prop, what, v.fingerprint, v.count
            ));
        }
        let mut viol_json = vec![];
        for (i, v) in unlisted.iter().enumerate() {
            let path = replay_dir.join(format!("{}-{}.json", self.prop, i));
            let body = json!({
                "property": self.prop,
                "fingerprint": v.fingerprint,
                "what": v.what,
                "witnesses": v.count,
                "case": v.replay,
            });
            if let Err(e) = std::fs::write(&path, serde_json::to_string_pretty(&body).unwrap()) {
                machinery_failure(&format!("cannot write replay {path:?}: {e}"));
            }
            if i < 20 {
                lines.push(format!("VIOLATION property={} replay={}", self.prop, path.display()));
                lines.push(format!("  what: {} [{}] witnesses={}", v.what, v.fingerprint, v.count));
            }
            viol_json.push(json!({"fingerprint": v.fingerprint, "what": v.what, "witnesses": v.count}));
        }
        coverage.insert(
            "known_findings_seen".into(),
            json!(listed.iter().map(|(v, _)| json!({"fingerprint": v.fingerprint, "witnesses": v.count})).collect::<Vec<_>>()),
        );
        if !viol_json.is_empty() {
            coverage.insert("violations_detail".into(), json!(viol_json));
        }
        let notes = self.notes.lock().unwrap();
        if !notes.is_empty() {
            coverage.insert("notes".into(), json!(*notes));
        }
        let ev = json!({
            "property_id": self.prop,
            "tier": self.tier(),
            "seed": self.seed,
            "level": level.as_str(),
            "coverage": Value::Object(coverage),
            "assumptions": assumptions,
            "wall_s": self.elapsed(),
            "violations": unlisted.len(),
        });
        // A replay run must not overwrite the evidence of the real check.
        if self.replay.is_none() {
            let dir = self.root.join("evidence");
            let _ = std::fs::create_dir_all(&dir);
            let p = dir.join(format!("{}.json", self.prop));
            if let Err(e) = std::fs::write(&p, serde_json::to_string_pretty(&ev).unwrap()) {
                machinery_failure(&format!("cannot write evidence {p:?}: {e}"));
            }
        }
        for l in &lines {
            println!("{l}");
        }
        println!(
            "{} {} tier={} wall={:.1}s unlisted_violations={} known_findings={}",
            if unlisted.is_empty() { "OK" } else { "FAIL" },
            self.prop,
            self.tier(),
            self.elapsed(),
            unlisted.len(),
            listed.len()
        );
        std::process::exit(if unlisted.is_empty() { 0 } else { 1 })
    }
}

/// Small helper to build coverage maps.
#[macro_export]
macro_rules! cov {
    ($($k:expr => $v:expr),* $(,)?) => {{
        let mut m = $crate::serde_json::Map::new();
        $( m.insert($k.to_string(), $crate::serde_json::json!($v)); )*
        m
    }};
}
