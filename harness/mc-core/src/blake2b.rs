//! Own Blake2b (RFC 7693), unkeyed, any digest length 1..=64. Written from the
//! RFC text; shares nothing with cryptoxide. Self-tested on RFC vectors.

const IV: [u64; 8] = [
    0x6a09e667f3bcc908,
    0xbb67ae8584caa73b,
    0x3c6ef372fe94f82b,
    0xa54ff53a5f1d36f1,
    0x510e527fade682d1,
    0x9b05688c2b3e6c1f,
    0x1f83d9abfb41bd6b,
    0x5be0cd19137e2179,
];

const SIGMA: [[usize; 16]; 12] = [
    [0, 1, 2, 3, 4, 5, 6, 7, 8, 9, 10, 11, 12, 13, 14, 15],
    [14, 10, 4, 8, 9, 15, 13, 6, 1, 12, 0, 2, 11, 7, 5, 3],
    [11, 8, 12, 0, 5, 2, 15, 13, 10, 14, 3, 6, 7, 1, 9, 4],
    [7, 9, 3, 1, 13, 12, 11, 14, 2, 6, 5, 10, 4, 0, 15, 8],
    [9, 0, 5, 7, 2, 4, 10, 15, 14, 1, 11, 12, 6, 8, 3, 13],
    [2, 12, 6, 10, 0, 11, 8, 3, 4, 13, 7, 5, 15, 14, 1, 9],
    [12, 5, 1, 15, 14, 13, 4, 10, 0, 7, 6, 3, 9, 2, 8, 11],
    [13, 11, 7, 14, 12, 1, 3, 9, 5, 0, 15, 4, 8, 6, 2, 10],
    [6, 15, 14, 9, 11, 3, 0, 8, 12, 2, 13, 7, 1, 4, 10, 5],
    [10, 2, 8, 4, 7, 6, 1, 5, 15, 11, 9, 14, 3, 12, 13, 0],
    [0, 1, 2, 3, 4, 5, 6, 7, 8, 9, 10, 11, 12, 13, 14, 15],
    [14, 10, 4, 8, 9, 15, 13, 6, 1, 12, 0, 2, 11, 7, 5, 3],
];

fn g(v: &mut [u64; 16], a: usize, b: usize, c: usize, d: usize, x: u64, y: u64) {
    v[a] = v[a].wrapping_add(v[b]).wrapping_add(x);
    v[d] = (v[d] ^ v[a]).rotate_right(32);
    v[c] = v[c].wrapping_add(v[d]);
    v[b] = (v[b] ^ v[c]).rotate_right(24);
    v[a] = v[a].wrapping_add(v[b]).wrapping_add(y);
    v[d] = (v[d] ^ v[a]).rotate_right(16);
    v[c] = v[c].wrapping_add(v[d]);
    v[b] = (v[b] ^ v[c]).rotate_right(63);
}

fn compress(h: &mut [u64; 8], block: &[u8; 128], t: u128, last: bool) {
    let mut m = [0u64; 16];
    for i in 0..16 {
        m[i] = u64::from_le_bytes(block[i * 8..i * 8 + 8].try_into().unwrap());
    }
    let mut v = [0u64; 16];
    v[..8].copy_from_slice(h);
    v[8..].copy_from_slice(&IV);
    v[12] ^= t as u64;
    v[13] ^= (t >> 64) as u64;
    if last {
        v[14] = !v[14];
    }
    for s in SIGMA.iter() {
        g(&mut v, 0, 4, 8, 12, m[s[0]], m[s[1]]);
        g(&mut v, 1, 5, 9, 13, m[s[2]], m[s[3]]);
        g(&mut v, 2, 6, 10, 14, m[s[4]], m[s[5]]);
        g(&mut v, 3, 7, 11, 15, m[s[6]], m[s[7]]);
        g(&mut v, 0, 5, 10, 15, m[s[8]], m[s[9]]);
        g(&mut v, 1, 6, 11, 12, m[s[10]], m[s[11]]);
        g(&mut v, 2, 7, 8, 13, m[s[12]], m[s[13]]);
        g(&mut v, 3, 4, 9, 14, m[s[14]], m[s[15]]);
    }
    for i in 0..8 {
        h[i] ^= v[i] ^ v[i + 8];
    }
}

/// Unkeyed Blake2b with `outlen` bytes of digest.
pub fn blake2b(outlen: usize, data: &[u8]) -> Vec<u8> {
    assert!((1..=64).contains(&outlen));
    let mut h = IV;
    h[0] ^= 0x0101_0000 ^ outlen as u64;
    let mut t: u128 = 0;
    let mut rest = data;
    while rest.len() > 128 {
        let mut block = [0u8; 128];
        block.copy_from_slice(&rest[..128]);
        t += 128;
        compress(&mut h, &block, t, false);
        rest = &rest[128..];
    }
    let mut block = [0u8; 128];
    block[..rest.len()].copy_from_slice(rest);
    t += rest.len() as u128;
    compress(&mut h, &block, t, true);
    let mut out = Vec::with_capacity(64);
    for w in h.iter() {
        out.extend_from_slice(&w.to_le_bytes());
    }
    out.truncate(outlen);
    out
}

pub fn blake2b_256(data: &[u8]) -> [u8; 32] {
    blake2b(32, data).try_into().unwrap()
}
pub fn blake2b_224(data: &[u8]) -> [u8; 28] {
    blake2b(28, data).try_into().unwrap()
}

#[cfg(test)]
mod tests {
    use super::*;
    #[test]
    fn rfc_vectors() {
        // RFC 7693 appendix A: BLAKE2b-512("abc")
        assert_eq!(
            hex::encode(blake2b(64, b"abc")),
            "ba80a53f981c4d0d6a2797b69f12f6e94c212f14685ac4b74b12bb6fdbffa2d17d87c5392aab792dc252d5de4533cc9518d38aa8dbf1925ab92386edd4009923"
        );
        // well-known: BLAKE2b-512("")
        assert_eq!(
            hex::encode(blake2b(64, b"")),
            "786a02f742015903c6c6fd852552d272912f4740e15847618a86e217f71f5419d25e1031afee585313896444934eb04b903a685b1448b755d56f701afe9be2ce"
        );
        // BLAKE2b-256("")
        assert_eq!(
            hex::encode(blake2b(32, b"")),
            "0e5751c026e543b2e8ab2eb06099daa1d1e5df47778f7787faab45cdf12fe3a8"
        );
        // multi-block
        let d: Vec<u8> = (0..=255u8).cycle().take(300).collect();
        assert_eq!(blake2b(32, &d).len(), 32);
    }
}
