//! C19 — Byron addresses round-trip; corrupted ones are rejected.
//!
//! GRID + FAULT (`fault_enumeration`).
//!
//! Artefacts: Byron addresses built by `ByronAddress::from_decoded` from a
//! payload grid (address type x attribute set x root), plus every real Byron
//! address found in /repo/test_data (walked with the independent CBOR reader),
//! the base58 vectors of the crate and the preview genesis balances.
//!
//! Round trips (first half of the statement): a built address goes through
//! base58 and CBOR and comes back equal, its payload decodes to the payload it
//! was built from, and its crc field is the CRC-32 of the payload bytes.
//!
//! Faults (second half): EVERY single-bit flip of every byte of the address
//! (the payload byte string, the crc field and the three structural heads) and
//! every single-bit flip of the crc *value* re-encoded canonically. Each mutant
//! is classified by the harness' own CBOR reader + CRC-32: only a mutant that
//! still is `[#6.24(bytes), uint]` with `crc32(bytes) != uint` is "an address
//! whose CRC32 does not match its payload"; for those every parsing entry
//! point must not return Ok. Mutants that stopped being that shape are run
//! for diagnostics only.

use mc_core::misc::{base58_decode, base58_encode, crc32};
use mc_core::refcbor::{self, Kind, Node};
use mc_core::{catch, cov, json, Ctx, Level, Value};
use pallas_addresses::byron::{AddrAttrProperty, AddrDistr, AddrType, AddressPayload, SpendingData};
use pallas_addresses::{Address, ByronAddress};
use pallas_codec::minicbor::bytes::ByteVec;
use pallas_crypto::hash::Hash;
use rayon::prelude::*;
use std::collections::{BTreeMap, BTreeSet};
use std::path::PathBuf;
use std::str::FromStr;

// ------------------------------------------------------------ entry points

#[derive(Clone, Copy, Debug, PartialEq, Eq, PartialOrd, Ord)]
enum Entry {
    ByronFromBytes,
    ByronFromBase58,
    AddressFromBytes,
    AddressTryFromSlice,
    AddressFromHex,
    AddressFromStrBase58,
    AddressFromStrHex,
}

const ENTRIES: [Entry; 7] = [
    Entry::ByronFromBytes,
    Entry::ByronFromBase58,
    Entry::AddressFromBytes,
    Entry::AddressTryFromSlice,
    Entry::AddressFromHex,
    Entry::AddressFromStrBase58,
    Entry::AddressFromStrHex,
];

impl Entry {
    fn name(&self) -> &'static str {
        match self {
            Entry::ByronFromBytes => "ByronAddress::from_bytes(raw)",
            Entry::ByronFromBase58 => "ByronAddress::from_base58(base58)",
            Entry::AddressFromBytes => "Address::from_bytes(raw)",
            Entry::AddressTryFromSlice => "Address::try_from(&[u8])",
            Entry::AddressFromHex => "Address::from_hex(hex)",
            Entry::AddressFromStrBase58 => "Address::from_str(base58)",
            Entry::AddressFromStrHex => "Address::from_str(hex)",
        }
    }
    /// The decode site (as named by the property's anchors) the entry point
    /// goes through; used for the fingerprint so that one missing check is one
    /// finding however many public functions expose it.
    fn mechanism(&self) -> &'static str {
        match self {
            Entry::ByronFromBytes | Entry::ByronFromBase58 | Entry::AddressFromStrBase58 => "ByronAddress::from_bytes",
            _ => "parse_type_8",
        }
    }
    fn from_name(s: &str) -> Option<Entry> {
        ENTRIES.iter().copied().find(|e| e.name() == s)
    }
}

#[derive(Debug, Clone, PartialEq)]
enum Out {
    Rejected(String),
    Byron(ByronAddress),
    OtherAddress(String),
}

struct Input {
    raw: Vec<u8>,
    b58: String,
    hx: String,
}

impl Input {
    fn new(raw: Vec<u8>) -> Input {
        let b58 = base58_encode(&raw);
        let hx = hex::encode(&raw);
        Input { raw, b58, hx }
    }
    fn text_for(&self, e: Entry) -> String {
        match e {
            Entry::ByronFromBase58 | Entry::AddressFromStrBase58 => self.b58.clone(),
            _ => self.hx.clone(),
        }
    }
}

fn call(e: Entry, i: &Input) -> Result<Out, mc_core::panics::PanicInfo> {
    fn a(r: Result<Address, pallas_addresses::Error>) -> Out {
        match r {
            Ok(Address::Byron(b)) => Out::Byron(b),
            Ok(other) => Out::OtherAddress(format!("{other:?}")),
            Err(e) => Out::Rejected(e.to_string()),
        }
    }
    fn b(r: Result<ByronAddress, pallas_addresses::Error>) -> Out {
        match r {
            Ok(b) => Out::Byron(b),
            Err(e) => Out::Rejected(e.to_string()),
        }
    }
    catch(|| match e {
        Entry::ByronFromBytes => b(ByronAddress::from_bytes(&i.raw)),
        Entry::ByronFromBase58 => b(ByronAddress::from_base58(&i.b58)),
        Entry::AddressFromBytes => a(Address::from_bytes(&i.raw)),
        Entry::AddressTryFromSlice => a(Address::try_from(i.raw.as_slice())),
        Entry::AddressFromHex => a(Address::from_hex(&i.hx)),
        Entry::AddressFromStrBase58 => a(Address::from_str(&i.b58)),
        Entry::AddressFromStrHex => a(Address::from_str(&i.hx)),
    })
}

// ------------------------------------------------------------ independent view

#[derive(Debug, Clone, Copy, PartialEq)]
enum Class {
    /// `[#6.24(bytes), uint]`, exactly one item, crc32(bytes) == uint
    Valid,
    /// same shape, crc32(bytes) != uint
    CrcMismatch { computed: u32, field: u64 },
    NotAddress,
}

struct Located {
    payload: (usize, usize),
    crc_item: (usize, usize),
    crc: u64,
    payload_bytes: Vec<u8>,
}

fn locate_node(n: &Node) -> Option<Located> {
    let Kind::Array(items, Some(_)) = &n.kind else { return None };
    if items.len() != 2 {
        return None;
    }
    let Kind::Tag(24, _, inner) = &items[0].kind else { return None };
    let Kind::Bytes(p, _) = &inner.kind else { return None };
    let Kind::UInt(c, _) = &items[1].kind else { return None };
    Some(Located { payload: (inner.end - p.len(), inner.end), crc_item: (items[1].start, items[1].end), crc: *c, payload_bytes: p.clone() })
}

fn locate(raw: &[u8]) -> Option<Located> {
    locate_node(&refcbor::parse_one(raw).ok()?)
}

fn classify(raw: &[u8]) -> Class {
    match locate(raw) {
        None => Class::NotAddress,
        Some(l) => {
            let c = crc32(&l.payload_bytes);
            if c as u64 == l.crc {
                Class::Valid
            } else {
                Class::CrcMismatch { computed: c, field: l.crc }
            }
        }
    }
}

// ------------------------------------------------------------ artefacts

#[derive(Clone)]
struct Artefact {
    name: String,
    raw: Vec<u8>,
    /// the payload the address was built from (generated family only)
    built_from: Option<AddressPayload>,
}

fn roots(thorough: bool) -> Vec<[u8; 28]> {
    let mut counter = [0u8; 28];
    for (i, b) in counter.iter_mut().enumerate() {
        *b = (i as u8) + 1;
    }
    let mut v = vec![[0u8; 28], [0xff; 28], counter];
    if thorough {
        for k in 1..=13u32 {
            let mut r = [0u8; 28];
            for (j, b) in r.iter_mut().enumerate() {
                *b = ((k * 37 + (j as u32) * (2 * k + 11)) % 256) as u8;
            }
            v.push(r);
        }
    }
    v
}

fn attr_sets(thorough: bool) -> Vec<(&'static str, Vec<AddrAttrProperty>)> {
    // network tag: CBOR uint 1097911063 (legacy testnet magic) inside a byte string;
    // derivation path: CBOR bytes(28) of an encrypted path, as on mainnet
    let tag = || AddrAttrProperty::NetworkTag(ByteVec::from(vec![0x1a, 0x41, 0x70, 0xcb, 0x17]));
    let path = || {
        let mut p = vec![0x58, 0x1c];
        p.extend((0..28u8).map(|i| i.wrapping_mul(9).wrapping_add(0xa1)));
        AddrAttrProperty::DerivationPath(ByteVec::from(p))
    };
    let mut v = vec![("none", vec![]), ("network-tag", vec![tag()]), ("derivation-path", vec![path()]), ("path+tag", vec![path(), tag()])];
    v.push(("distr-bootstrap", vec![AddrAttrProperty::AddrDistr(AddrDistr::BootstrapEraDistribution)]));
    v.push((
        "distr-single+path+tag",
        vec![AddrAttrProperty::AddrDistr(AddrDistr::SingleKeyDistribution(Hash::from([0x5au8; 28]))), path(), tag()],
    ));
    if thorough {
        v.push(("empty-path", vec![AddrAttrProperty::DerivationPath(ByteVec::from(vec![0x40]))]));
        v.push(("small-tag", vec![AddrAttrProperty::NetworkTag(ByteVec::from(vec![0x02]))]));
        let mut long = vec![0x58, 0xc8];
        long.extend((0..200u32).map(|i| (i * 7 % 251) as u8));
        v.push(("long-path", vec![AddrAttrProperty::DerivationPath(ByteVec::from(long))]));
    }
    v
}

fn addr_types() -> Vec<(&'static str, AddrType)> {
    vec![
        ("PubKey", AddrType::PubKey),
        ("Script", AddrType::Script),
        ("Redeem", AddrType::Redeem),
        ("Other(3)", AddrType::Other(3)),
        ("Other(u32::MAX)", AddrType::Other(u32::MAX)),
    ]
}

fn generated(ctx: &Ctx) -> Vec<Artefact> {
    let mut out = vec![];
    let mut push = |name: String, payload: AddressPayload| {
        let p2 = payload.clone();
        match catch(move || ByronAddress::from_decoded(p2).to_vec()) {
            Ok(raw) => out.push(Artefact { name, raw, built_from: Some(payload) }),
            Err(p) => ctx.violation(p.site(), format!("from_decoded/to_vec panicked on {name}: {} at {}", p.message, p.location), json!({"artefact": name})),
        }
    };
    for (tn, t) in addr_types() {
        for (an, attrs) in attr_sets(ctx.thorough) {
            for (ri, r) in roots(ctx.thorough).iter().enumerate() {
                let payload = AddressPayload { root: Hash::from(*r), attributes: attrs.clone().into(), addrtype: t.clone() };
                push(format!("gen:{tn}/{an}/root{ri}"), payload);
            }
        }
    }
    // complete sweep of derivation-path lengths: every address length from 44 to 158 bytes
    for len in 0..=110usize {
        let path: Vec<u8> = (0..len).map(|i| (i * 13 + 5) as u8).collect();
        let payload = AddressPayload {
            root: Hash::from(roots(false)[2]),
            attributes: vec![AddrAttrProperty::DerivationPath(ByteVec::from(path))].into(),
            addrtype: AddrType::PubKey,
        };
        push(format!("gen:sweep/PubKey/path-len-{len}/root2"), payload);
    }
    // payloads made by the crate's own constructor (root = hash of the spending data)
    let xpub: Vec<u8> = (0..64u8).collect();
    let redeem_key: Vec<u8> = (100..132u8).collect();
    for (an, attrs) in attr_sets(false) {
        for (sn, t, sd) in [
            ("new-pubkey", AddrType::PubKey, SpendingData::PubKey(ByteVec::from(xpub.clone()))),
            ("new-script", AddrType::Script, SpendingData::Script(ByteVec::from(vec![0x11; 32]))),
            ("new-redeem", AddrType::Redeem, SpendingData::Redeem(ByteVec::from(redeem_key.clone()))),
        ] {
            let a2 = attrs.clone();
            match catch(move || AddressPayload::new(t, sd, a2.into())) {
                Ok(p) => push(format!("gen:{sn}/{an}"), p),
                Err(p) => ctx.violation(p.site(), format!("AddressPayload::new panicked: {} at {}", p.message, p.location), json!({"artefact": sn})),
            }
        }
    }
    out
}

const CRATE_VECTORS: [&str; 3] = [
    "37btjrVyb4KDXBNC4haBVPCrro8AQPHwvCMp3RFhhSVWwfFmZ6wwzSK6JK1hY6wHNmtrpTf1kdbva8TCneM2YsiXT7mrzT21EacHnPpz5YyUdj64na",
    "DdzFFzCqrht7PQiAhzrn6rNNoADJieTWBt8KeK9BZdUsGyX9ooYD9NpMCTGjQoUKcHN47g8JMXhvKogsGpQHtiQ65fZwiypjrC6d3a4Q",
    "Ae2tdPwUPEZLs4HtbuNey7tK4hTKrwNwYtGqp7bDfCy2WdR3P6735W5Yfpe",
];

/// Every valid Byron address (own CBOR reader, own CRC-32) in the test data.
/// Returns raw bytes -> where first seen, and the number of candidates of the
/// right shape whose CRC did not match (reported, not used).
fn harvest(repo: &std::path::Path) -> (BTreeMap<Vec<u8>, String>, Vec<String>) {
    let mut found: BTreeMap<Vec<u8>, String> = BTreeMap::new();
    let mut bad_crc: Vec<String> = vec![];
    let mut offer = |raw: &[u8], origin: &str, found: &mut BTreeMap<Vec<u8>, String>| match classify(raw) {
        Class::Valid => {
            found.entry(raw.to_vec()).or_insert_with(|| origin.to_string());
        }
        Class::CrcMismatch { .. } => bad_crc.push(format!("{origin}:{}", hex::encode(raw))),
        Class::NotAddress => {}
    };
    for s in CRATE_VECTORS {
        if let Some(raw) = base58_decode(s) {
            offer(&raw, "pallas-addresses/src/byron.rs TEST_VECTORS", &mut found);
        }
    }
    let dir = repo.join("test_data");
    let mut names: Vec<PathBuf> = match std::fs::read_dir(&dir) {
        Ok(rd) => rd.filter_map(|e| e.ok().map(|e| e.path())).collect(),
        Err(_) => vec![],
    };
    names.sort();
    for p in names {
        let fname = p.file_name().and_then(|x| x.to_str()).unwrap_or("").to_string();
        let ext = p.extension().and_then(|x| x.to_str()).unwrap_or("");
        if ext == "block" || ext == "tx" {
            let Ok(text) = std::fs::read_to_string(&p) else { continue };
            let Ok(buf) = hex::decode(text.trim()) else { continue };
            let Ok(root) = refcbor::parse_at(&buf, 0) else { continue };
            let mut hits: Vec<Vec<u8>> = vec![];
            root.walk(&mut |n: &Node| {
                if locate_node(n).is_some() {
                    hits.push(n.span(&buf).to_vec());
                }
                if let Kind::Bytes(b, _) = &n.kind {
                    if b.len() > 8 && b[0] == 0x82 {
                        hits.push(b.clone());
                    }
                }
            });
            for h in hits {
                offer(&h, &format!("test_data/{fname}"), &mut found);
            }
        } else if fname.ends_with("byron-genesis.json") {
            let Ok(text) = std::fs::read_to_string(&p) else { continue };
            let Ok(v) = mc_core::serde_json::from_str::<Value>(&text) else { continue };
            if let Some(m) = v.get("nonAvvmBalances").and_then(|x| x.as_object()) {
                let mut keys: Vec<&String> = m.keys().collect();
                keys.sort();
                for k in keys {
                    if let Some(raw) = base58_decode(k) {
                        offer(&raw, &format!("test_data/{fname} nonAvvmBalances"), &mut found);
                    }
                }
            }
        }
    }
    (found, bad_crc)
}

// ------------------------------------------------------------ faults

#[derive(Clone, Debug)]
struct Fault {
    family: &'static str,
    desc: String,
    mutant: Vec<u8>,
}

fn faults(raw: &[u8], l: &Located) -> Vec<Fault> {
    let mut v = vec![];
    for i in 0..raw.len() {
        let family = if i >= l.payload.0 && i < l.payload.1 {
            "payload-bit"
        } else if i >= l.crc_item.0 && i < l.crc_item.1 {
            "crc-field-bit"
        } else {
            "structure-bit"
        };
        for bit in 0..8u8 {
            let mut m = raw.to_vec();
            m[i] ^= 1 << bit;
            v.push(Fault { family, desc: format!("flip bit {bit} of byte {i}"), mutant: m });
        }
    }
    for bit in 0..32u32 {
        let newcrc = (l.crc as u32) ^ (1 << bit);
        let mut m = raw[..l.crc_item.0].to_vec();
        m.extend(Node::uint(newcrc as u64).to_vec());
        m.extend_from_slice(&raw[l.crc_item.1..]);
        v.push(Fault { family: "crc-value-bit", desc: format!("crc value ^ (1<<{bit}) re-encoded canonically"), mutant: m });
    }
    v
}

const FAMILIES: [&str; 4] = ["payload-bit", "crc-field-bit", "crc-value-bit", "structure-bit"];

#[derive(Default, Clone)]
struct Cell {
    evaluated: u64,
    accepted: u64,
    rejected: u64,
}

#[derive(Default)]
struct Stats {
    evals: u64,
    /// (entry, family) -> counts over mutants classified CrcMismatch
    table: BTreeMap<(Entry, &'static str), Cell>,
    /// mutants that are no longer [#6.24(bytes), uint]: (entry) -> accepted (diagnostic)
    not_address_mutants: u64,
    not_address_accepted: BTreeMap<Entry, u64>,
    mismatch_mutants_distinct: u64,
    faults_total: u64,
    per_family_faults: BTreeMap<&'static str, u64>,
    per_family_mismatch: BTreeMap<&'static str, u64>,
    samples: Vec<Value>,
    roundtrip_evals: u64,
    roundtrip_ok: u64,
    baseline_skipped: Vec<String>,
    real_reencode_differs: u64,
    viols: crate::Viols,
}

impl Stats {
    fn merge(mut self, o: Stats) -> Stats {
        self.evals += o.evals;
        for (k, c) in o.table {
            let e = self.table.entry(k).or_default();
            e.evaluated += c.evaluated;
            e.accepted += c.accepted;
            e.rejected += c.rejected;
        }
        self.not_address_mutants += o.not_address_mutants;
        for (k, c) in o.not_address_accepted {
            *self.not_address_accepted.entry(k).or_default() += c;
        }
        self.mismatch_mutants_distinct += o.mismatch_mutants_distinct;
        self.faults_total += o.faults_total;
        for (k, c) in o.per_family_faults {
            *self.per_family_faults.entry(k).or_default() += c;
        }
        for (k, c) in o.per_family_mismatch {
            *self.per_family_mismatch.entry(k).or_default() += c;
        }
        self.samples.extend(o.samples);
        self.samples.truncate(8);
        self.roundtrip_evals += o.roundtrip_evals;
        self.roundtrip_ok += o.roundtrip_ok;
        self.baseline_skipped.extend(o.baseline_skipped);
        self.real_reencode_differs += o.real_reencode_differs;
        self.viols.merge(o.viols);
        self
    }
}

/// First half of the statement, on an address built from `payload`.
fn check_roundtrip(key: u64, name: &str, payload: &AddressPayload, st: &mut Stats) {
    let raw_cell: std::cell::RefCell<Vec<u8>> = Default::default();
    let case = |extra: Value| {
        let raw = raw_cell.borrow();
        json!({"artefact": name, "payload": format!("{payload:?}"), "detail": extra, "address_hex": hex::encode(&*raw), "address_base58": base58_encode(&raw)})
    };
    macro_rules! guard {
        ($what:expr, $e:expr) => {
            match catch(|| $e) {
                Ok(v) => v,
                Err(p) => {
                    st.viols.add_eager(key, p.site(), format!("{} panicked: {} at {}", $what, p.message, p.location), case(json!(null)));
                    return;
                }
            }
        };
    }
    let pl = payload.clone();
    let addr = guard!("ByronAddress::from_decoded", ByronAddress::from_decoded(pl));
    let raw = guard!("to_vec", addr.to_vec());
    *raw_cell.borrow_mut() = raw.clone();
    let rkey = ((raw.len() as u64) << 32) | (key >> 40);
    let step = |st: &mut Stats, fp: String, what: &str, ok: bool, detail: String| {
        st.roundtrip_evals += 1;
        st.evals += 1;
        if ok {
            st.roundtrip_ok += 1;
        } else {
            st.viols.add_eager(rkey, fp, format!("{name} ({} address bytes): {what}: {detail}", raw.len()), case(json!(detail)));
        }
    };
    let plain = |what: &str| format!("roundtrip:{what}");
    // built address carries the CRC-32 of its payload bytes
    let own = crc32(&addr.payload.0);
    let w = "from_decoded crc == CRC-32(payload)";
    step(st, plain(w), w, addr.crc == own, format!("crc field {:#010x}, CRC-32 of payload {:#010x}", addr.crc, own));
    // base58; the harness' own decoder tells an encoder fault from a decoder fault
    let b58 = guard!("to_base58", addr.to_base58());
    let own_view_ok = base58_decode(&b58).as_deref() == Some(raw.as_slice());
    let b58_fp = |r: &Result<String, String>| -> String {
        if !own_view_ok {
            "roundtrip-base58:to_base58 output is not the base58 form of to_vec".into()
        } else if r.is_err() {
            "roundtrip-base58:valid base58 string of a built address rejected".into()
        } else {
            "roundtrip-base58:parses to a different address".into()
        }
    };
    let r = guard!("from_base58", ByronAddress::from_base58(&b58).map_err(|e| e.to_string()));
    step(st, b58_fp(&r.as_ref().map(|_| String::new()).map_err(|e| e.clone())), "from_base58(to_base58)", r.as_ref() == Ok(&addr), format!("{b58} -> {r:?}"));
    // CBOR of the address
    let r = guard!("from_bytes", ByronAddress::from_bytes(&raw).map_err(|e| e.to_string()));
    let w = "from_bytes(to_vec)";
    step(st, plain(w), w, r.as_ref() == Ok(&addr), format!("{} -> {r:?}", hex::encode(&raw)));
    // CBOR of the payload
    let r = guard!("decode", addr.decode().map_err(|e| e.to_string()));
    let w = "decode() gives the payload back";
    step(st, plain(w), w, r.as_ref() == Ok(payload), format!("{r:?}"));
    if let Ok(p2) = r {
        let again = guard!("from_decoded(decode())", ByronAddress::from_decoded(p2));
        let w = "from_decoded(decode())";
        step(st, plain(w), w, again == addr, format!("{again:?}"));
    }
    // through the Address front door
    let want = Address::Byron(addr.clone());
    let s = guard!("Address::to_string", want.to_string());
    let r = guard!("Address::from_str", Address::from_str(&s).map_err(|e| e.to_string()));
    let fp = if s == b58 { b58_fp(&r.as_ref().map(|_| String::new()).map_err(|e| e.clone())) } else { plain("Address::to_string is to_base58") };
    step(st, fp, "Address::from_str(to_string)", r.as_ref() == Ok(&want), format!("{s} -> {r:?}"));
    let r = guard!("Address::from_bytes", Address::from_bytes(&want.to_vec()).map_err(|e| e.to_string()));
    let w = "Address::from_bytes(to_vec)";
    step(st, plain(w), w, r.as_ref() == Ok(&want), format!("{r:?}"));
    let r = guard!("Address::from_hex", Address::from_hex(&want.to_hex()).map_err(|e| e.to_string()));
    let w = "Address::from_hex(to_hex)";
    step(st, plain(w), w, r.as_ref() == Ok(&want), format!("{r:?}"));
}

fn check_artefact(ai: usize, a: &Artefact, st: &mut Stats) {
    let key = (ai as u64) << 40;
    if let Some(p) = &a.built_from {
        check_roundtrip(key, &a.name, p, st);
    }
    if classify(&a.raw) != Class::Valid {
        if a.built_from.is_some() {
            st.viols.add_eager(key, 
                "roundtrip:built address is [#6.24(bytes), crc32]",
                format!("{}: the built address {} is not a tagged payload with its CRC-32 ({:?})", a.name, hex::encode(&a.raw), classify(&a.raw)),
                json!({"artefact": a.name, "raw": hex::encode(&a.raw)}),
            );
        }
        return;
    }
    let Some(l) = locate(&a.raw) else { return };
    // ---- baseline: the unfaulted artefact is accepted, otherwise a rejection proves nothing
    let base_in = Input::new(a.raw.clone());
    let mut live: Vec<Entry> = vec![];
    let mut reference: Option<ByronAddress> = None;
    for e in ENTRIES {
        st.evals += 1;
        match call(e, &base_in) {
            Ok(Out::Byron(b)) => {
                if reference.is_none() {
                    reference = Some(b.clone());
                }
                if reference.as_ref() != Some(&b) {
                    st.baseline_skipped.push(format!("{}: {} returns a different address than the first entry point", a.name, e.name()));
                } else {
                    live.push(e);
                }
            }
            Ok(other) => {
                if a.built_from.is_some() {
                    let fp = match e {
                        Entry::ByronFromBase58 | Entry::AddressFromStrBase58 => "roundtrip-base58:valid base58 string of a built address rejected".to_string(),
                        _ => format!("roundtrip:{}", e.name()),
                    };
                    st.viols.add_eager(
                        ((a.raw.len() as u64) << 32) | ai as u64,
                        fp,
                        format!("{} ({} address bytes): the unfaulted address {} is not accepted by {}: {other:?}", a.name, a.raw.len(), base_in.text_for(e), e.name()),
                        json!({"artefact": a.name, "entry": e.name(), "input": base_in.text_for(e)}),
                    );
                } else {
                    st.baseline_skipped.push(format!("{}: {} does not accept the unfaulted address: {other:?}", a.name, e.name()));
                }
            }
            Err(p) => st.viols.add_eager(key, p.site(), format!("{} panicked on the unfaulted {}: {} at {}", e.name(), a.name, p.message, p.location), json!({"artefact": a.name, "entry": e.name(), "input": base_in.text_for(e)})),
        }
    }
    if a.built_from.is_none() {
        if let Some(r) = &reference {
            if catch(|| r.to_vec()).ok().as_deref() != Some(a.raw.as_slice()) {
                st.real_reencode_differs += 1;
            }
        }
    }
    // ---- faults
    let fs = faults(&a.raw, &l);
    let mut seen: BTreeSet<Vec<u8>> = BTreeSet::new();
    for (fi, f) in fs.iter().enumerate() {
        st.faults_total += 1;
        *st.per_family_faults.entry(f.family).or_default() += 1;
        let class = classify(&f.mutant);
        let input = Input::new(f.mutant.clone());
        match class {
            Class::Valid => {
                // CRC-32 detects every single-bit error of payload or checksum
                mc_core::report::machinery_failure(&format!("{}: {} still has a matching CRC-32 — classifier or fault generator broken", a.name, f.desc));
            }
            Class::CrcMismatch { computed, field } => {
                *st.per_family_mismatch.entry(f.family).or_default() += 1;
                if seen.insert(f.mutant.clone()) {
                    st.mismatch_mutants_distinct += 1;
                }
                let mut outcomes = vec![];
                for &e in &live {
                    let fkey = key | ((fi as u64) << 8) | (ENTRIES.iter().position(|x| *x == e).unwrap_or(0) as u64);
                    st.evals += 1;
                    let cell = st.table.entry((e, f.family)).or_default();
                    cell.evaluated += 1;
                    let case = || {
                        json!({
                            "entry": e.name(),
                            "input": input.text_for(e),
                            "artefact": a.name,
                            "unfaulted_hex": hex::encode(&a.raw),
                            "fault": f.desc,
                            "fault_family": f.family,
                            "crc_field": format!("{field:#010x}"),
                            "crc32_of_payload": format!("{computed:#010x}"),
                        })
                    };
                    match call(e, &input) {
                        Ok(Out::Rejected(_)) => {
                            cell.rejected += 1;
                            outcomes.push("rejected");
                        }
                        Ok(Out::Byron(b)) => {
                            cell.accepted += 1;
                            outcomes.push("ACCEPTED");
                            st.viols.add(fkey, format!("crc-mismatch-accepted:{}", e.mechanism()), || {
                                (
                                    format!(
                                        "a Byron address whose crc field {field:#010x} differs from the CRC-32 of its payload {computed:#010x} is parsed to Ok(ByronAddress {{ crc: {:#010x}, .. }}) by the entry points going through {} (first witness in enumeration order: {} on {}; {} of {})",
                                        b.crc,
                                        e.mechanism(),
                                        e.name(),
                                        input.text_for(e),
                                        f.desc,
                                        a.name
                                    ),
                                    case(),
                                )
                            });
                        }
                        Ok(Out::OtherAddress(o)) => {
                            cell.accepted += 1;
                            outcomes.push("ACCEPTED-as-other");
                            st.viols.add(fkey, format!("crc-mismatch-accepted-as-other-kind:{}", e.mechanism()), || {
                                (format!("{} parses a Byron address with a wrong CRC to {o}", e.name()), case())
                            });
                        }
                        Err(p) => st.viols.add_eager(fkey, p.site(), format!("{} panicked: {} at {}", e.name(), p.message, p.location), case()),
                    }
                }
                if st.samples.len() < 2 && (f.family == "payload-bit" || f.family == "crc-value-bit") && f.desc.contains("bit 0") {
                    st.samples.push(json!({
                        "artefact": a.name, "fault": f.desc, "family": f.family, "mutant_hex": input.hx, "mutant_base58": input.b58,
                        "crc_field": format!("{field:#010x}"), "crc32_of_payload": format!("{computed:#010x}"),
                        "outcomes": live.iter().map(|e| e.name()).zip(outcomes.iter()).map(|(a, b)| format!("{a}: {b}")).collect::<Vec<_>>(),
                    }));
                }
            }
            Class::NotAddress => {
                st.not_address_mutants += 1;
                for &e in &live {
                    st.evals += 1;
                    if let Ok(Out::Byron(_)) | Ok(Out::OtherAddress(_)) = call(e, &input) {
                        *st.not_address_accepted.entry(e).or_default() += 1;
                    }
                }
            }
        }
        // every payload bit and every crc argument bit must have produced a mismatch case
        if f.family == "payload-bit" && !matches!(class, Class::CrcMismatch { .. }) {
            mc_core::report::machinery_failure(&format!("{}: payload fault '{}' was not classified as a CRC mismatch", a.name, f.desc));
        }
        if f.family == "crc-value-bit" && !matches!(class, Class::CrcMismatch { .. }) {
            mc_core::report::machinery_failure(&format!("{}: crc value fault '{}' was not classified as a CRC mismatch", a.name, f.desc));
        }
    }
    let want_payload = 8 * (l.payload.1 - l.payload.0) as u64;
    let got_payload = fs.iter().filter(|f| f.family == "payload-bit").count() as u64;
    let got_crc = fs.iter().filter(|f| f.family == "crc-field-bit").count() as u64;
    if got_payload != want_payload || got_crc != 8 * (l.crc_item.1 - l.crc_item.0) as u64 || l.payload.1 <= l.payload.0 {
        mc_core::report::machinery_failure(&format!("{}: fault enumeration incomplete", a.name));
    }
}

fn replay(p: &std::path::Path) -> ! {
    let v: Value = match std::fs::read_to_string(p).ok().and_then(|s| mc_core::serde_json::from_str(&s).ok()) {
        Some(v) => v,
        None => mc_core::report::machinery_failure(&format!("cannot read replay file {p:?}")),
    };
    let case = &v["case"];
    println!("replay C19 case={case}");
    let (Some(en), Some(inp)) = (case["entry"].as_str(), case["input"].as_str()) else {
        // round-trip case: show what every entry point makes of the built address
        let raw = hex::decode(case["address_hex"].as_str().unwrap_or("")).unwrap_or_default();
        println!("independent view of address_hex ({} bytes): {:?}", raw.len(), classify(&raw));
        let input = Input::new(raw);
        let mut bad = false;
        for e in ENTRIES {
            let r = call(e, &input);
            bad |= !matches!(r, Ok(Out::Byron(_)));
            println!("{} on {} -> {:?}", e.name(), input.text_for(e), r.map(|o| match o { Out::Byron(b) => format!("Ok(ByronAddress crc={:#010x})", b.crc), other => format!("{other:?}") }));
        }
        std::process::exit(if bad { 1 } else { 0 })
    };
    let Some(e) = Entry::from_name(en) else { mc_core::report::machinery_failure(&format!("unknown entry point {en}")) };
    let raw = match e {
        Entry::ByronFromBase58 | Entry::AddressFromStrBase58 => base58_decode(inp).unwrap_or_default(),
        _ => hex::decode(inp).unwrap_or_default(),
    };
    let class = classify(&raw);
    println!("independent view: {class:?}");
    let r = call(e, &Input::new(raw));
    println!("{en} -> {r:?}");
    let bad = matches!((class, &r), (Class::CrcMismatch { .. }, Ok(Out::Byron(_)) | Ok(Out::OtherAddress(_))));
    std::process::exit(if bad { 1 } else { 0 })
}

pub fn run(ctx: Ctx) -> ! {
    if let Some(p) = &ctx.replay {
        replay(p);
    }
    // ---- self-tests of the independent pieces
    if crc32(b"123456789") != 0xcbf4_3926 {
        mc_core::report::machinery_failure("CRC-32 reference self-test failed");
    }
    {
        // the crate's third vector, decoded and checked by hand-independent code
        let raw = base58_decode(CRATE_VECTORS[2]).unwrap_or_default();
        if classify(&raw) != Class::Valid || base58_encode(&raw) != CRATE_VECTORS[2] {
            mc_core::report::machinery_failure("base58 / CBOR / CRC view of a known mainnet address failed");
        }
    }
    let repo = PathBuf::from(std::env::var("PALLAS_REPO").unwrap_or_else(|_| "/repo".into()));
    let mut arts = generated(&ctx);
    let n_generated = arts.len();
    let (real, bad_crc) = harvest(&repo);
    let n_real_found = real.len();
    if n_real_found < 3 {
        mc_core::report::machinery_failure(&format!("only {n_real_found} real Byron addresses found under {repo:?}/test_data"));
    }
    let mut n_real_used = 0usize;
    let mut origins: BTreeMap<String, u64> = BTreeMap::new();
    for (raw, origin) in real.iter() {
        *origins.entry(origin.clone()).or_default() += 1;
        arts.push(Artefact { name: format!("real:{origin}:{}", base58_encode(raw)), raw: raw.clone(), built_from: None });
        n_real_used += 1;
    }
    {
        // duplicate-free artefact list
        let mut seen = BTreeSet::new();
        arts.retain(|a| seen.insert(a.raw.clone()));
    }
    // real addresses: their payloads are also "any payload" for the round-trip half
    let mut rebuilt_stats = Stats::default();
    let mut n_rebuilt = 0u64;
    for a in arts.iter().filter(|a| a.built_from.is_none()) {
        let raw = a.raw.clone();
        if let Ok(Ok(p)) = catch(move || ByronAddress::from_bytes(&raw).and_then(|b| b.decode())) {
            n_rebuilt += 1;
            check_roundtrip(u64::MAX >> 1, &format!("{} (payload rebuilt)", a.name), &p, &mut rebuilt_stats);
        }
    }

    let mut st = arts
        .par_iter()
        .enumerate()
        .map(|(ai, a)| {
            let mut st = Stats::default();
            check_artefact(ai, a, &mut st);
            st
        })
        .reduce(Stats::default, Stats::merge)
        .merge(rebuilt_stats);
    std::mem::take(&mut st.viols).emit(&ctx);

    // ---- vacuity guards
    let mism_payload = st.per_family_mismatch.get("payload-bit").copied().unwrap_or(0);
    let mism_crc = st.per_family_mismatch.get("crc-field-bit").copied().unwrap_or(0) + st.per_family_mismatch.get("crc-value-bit").copied().unwrap_or(0);
    if mism_payload == 0 || mism_crc == 0 || st.roundtrip_evals == 0 {
        mc_core::report::machinery_failure("no payload / crc fault or no round trip was evaluated");
    }
    for e in ENTRIES {
        for fam in ["payload-bit", "crc-field-bit", "crc-value-bit"] {
            if st.table.get(&(e, fam)).map(|c| c.evaluated).unwrap_or(0) == 0 {
                mc_core::report::machinery_failure(&format!("{} never evaluated on a {fam} fault (not accepting any unfaulted address?)", e.name()));
            }
        }
    }

    let mut table = vec![];
    let mut accepting: Vec<&str> = vec![];
    let mut rejecting: Vec<&str> = vec![];
    for e in ENTRIES {
        let mut row = mc_core::serde_json::Map::new();
        row.insert("entry".into(), json!(e.name()));
        row.insert("mechanism".into(), json!(e.mechanism()));
        let mut acc = 0;
        let mut ev = 0;
        for fam in FAMILIES {
            let c = st.table.get(&(e, fam)).cloned().unwrap_or_default();
            acc += c.accepted;
            ev += c.evaluated;
            row.insert(fam.into(), json!({"crc_mismatch_mutants": c.evaluated, "accepted": c.accepted, "rejected": c.rejected}));
        }
        row.insert("accepted_total".into(), json!(acc));
        row.insert("evaluated_total".into(), json!(ev));
        if acc > 0 {
            accepting.push(e.name());
        } else {
            rejecting.push(e.name());
        }
        table.push(Value::Object(row));
    }
    if !st.baseline_skipped.is_empty() {
        ctx.note(format!("{} (artefact, entry) pairs skipped because the unfaulted address was not accepted: {:?}", st.baseline_skipped.len(), st.baseline_skipped.iter().take(5).collect::<Vec<_>>()));
    }
    if !bad_crc.is_empty() {
        ctx.note(format!("{} address-shaped items in test_data whose CRC does not match were not used as artefacts: {:?}", bad_crc.len(), bad_crc.iter().take(3).collect::<Vec<_>>()));
    }
    let cov = cov! {
        "evaluations" => st.evals,
        "distinct_nontrivial" => st.mismatch_mutants_distinct,
        "rule" => "evaluation = one call of one parsing entry point on one (artefact, fault) or one round-trip step; non-trivial = distinct mutant byte strings per artefact that the harness' own CBOR reader + CRC-32 judged to be [#6.24(bytes), uint] with crc32(bytes) != uint, i.e. on which the rejection oracle was evaluated (every one of them decodes differently from the unfaulted artefact)",
        "samples" => st.samples,
        "exhaustive" => true,
        "artefacts" => arts.len(),
        "artefacts_generated" => n_generated,
        "artefacts_real_used" => n_real_used,
        "real_addresses_found_in_test_data" => n_real_found,
        "real_address_origins_used" => origins,
        "real_payloads_rebuilt_for_round_trip" => n_rebuilt,
        "faults_total" => st.faults_total,
        "faults_by_family" => st.per_family_faults,
        "crc_mismatch_mutants_by_family" => st.per_family_mismatch,
        "mutants_no_longer_address_shaped" => st.not_address_mutants,
        "diag_not_address_shaped_but_accepted" => st.not_address_accepted.iter().map(|(e, n)| (e.name().to_string(), *n)).collect::<BTreeMap<_, _>>(),
        "round_trip_steps" => st.roundtrip_evals,
        "round_trip_steps_ok" => st.roundtrip_ok,
        "diag_real_addresses_reencoding_differently" => st.real_reencode_differs,
        "entry_point_table" => table,
        "entry_points_accepting_a_corrupted_address" => accepting,
        "entry_points_rejecting_every_corrupted_address" => rejecting,
    };
    ctx.finish(
        Level::FaultEnumeration,
        cov,
        &[
            "all single-bit faults of the listed artefacts (every byte of the address incl. payload byte string and crc field, plus crc value bits re-encoded canonically); multi-bit corruptions are not enumerated",
            "'address whose CRC32 does not match its payload' is judged by the harness' own strict CBOR reader and CRC-32 (IEEE 802.3); mutants that are no longer [#6.24(bytes), uint] followed by nothing carry no verdict",
            "payload grid: 5 address types x attribute sets x roots; attribute contents are fixed byte strings",
            "real addresses: every distinct valid Byron address found in /repo/test_data blocks and transactions (also those embedded in later-era outputs), the crate's three base58 vectors and the preview genesis balances; both tiers use all of them, thorough adds roots and attribute shapes to the generated grid",
        ],
    )
}
