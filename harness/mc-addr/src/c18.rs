//! C18 — Shelley and stake addresses round-trip with a faithful header.
//!
//! GRID, complete over: all 8 Shelley address types x all 16 network ids x a
//! 3-hash alphabet (payment x delegation) x a pointer component alphabet
//! (full cube), both stake address types x 16 networks x 3 hashes; plus the
//! varuint codec alone on every 2^k, 2^k +- 1.
//!
//! Verdict oracle = exactly the property text:
//!   * `from_bytes(to_vec)`, `from_hex(to_hex)`, `from_str(to_string)` and, for
//!     network 0/1, `from_bech32(to_bech32)` give back the same address;
//!   * the header byte (`to_vec()[0]`, `to_header()`) is `(type << 4) | net`,
//!     where `type` comes from the CIP-19 table written down here;
//!   * for network 0/1 the bech32 prefix is addr_test/addr/stake_test/stake as
//!     the network dictates (read with the harness' own bech32 decoder, which
//!     must also yield `to_vec()`).
//! Diagnostics only (never a VIOLATION): the full byte string equals the
//! harness' own CIP-19 encoding; varuint bytes equal the base-128 model;
//! `to_bech32` on networks 2..15.

use mc_core::{catch, cov, json, Ctx, Level, Value};
use pallas_addresses::{
    varuint, Address, Network, Pointer, ShelleyAddress, ShelleyDelegationPart, ShelleyPaymentPart, StakeAddress, StakePayload,
};
use pallas_crypto::hash::Hash;
use rayon::prelude::*;
use std::collections::BTreeSet;
use std::io::Cursor;
use std::str::FromStr;

// ---------------------------------------------------------------- reference

/// Base-128 big-endian groups, continuation bit on every byte but the last.
/// Written from the definition (length first, then each group by shifting),
/// not as a loop that mirrors pallas'.
pub fn model_varuint(v: u64) -> Vec<u8> {
    let bits = 64 - v.leading_zeros() as usize;
    let n = if bits == 0 { 1 } else { bits.div_ceil(7) };
    (0..n)
        .map(|i| {
            let shift = 7 * (n - 1 - i);
            let g = ((v as u128 >> shift) & 0x7f) as u8;
            if i + 1 < n {
                g | 0x80
            } else {
                g
            }
        })
        .collect()
}

/// Decodes one model varuint, returns (value as u128, bytes consumed).
pub fn model_varuint_decode(b: &[u8]) -> Option<(u128, usize)> {
    let mut acc: u128 = 0;
    for (i, &x) in b.iter().enumerate() {
        if i >= 18 {
            return None;
        }
        acc = acc * 128 + (x & 0x7f) as u128;
        if x & 0x80 == 0 {
            return Some((acc, i + 1));
        }
    }
    None
}

fn hashes() -> [[u8; 28]; 3] {
    let mut counter = [0u8; 28];
    for (i, b) in counter.iter_mut().enumerate() {
        *b = (i as u8) + 1;
    }
    [[0u8; 28], [0xffu8; 28], counter]
}

fn pointer_alphabet(thorough: bool) -> Vec<u64> {
    // the last three sit just below the top of the range, where an accumulator of
    // exactly 64 bits has to tell "fits" from "overflows" in the final 7-bit group
    let mut v: Vec<u64> = vec![0, 1, 127, 128, 16383, 16384, u32::MAX as u64, 1 << 32, 1 << 63, u64::MAX, u64::MAX - 1, u64::MAX - 127, u64::MAX - 128];
    if thorough {
        // every varuint length edge 2^(7k) - 1, 2^(7k), 2^(7k) + 1 and the word edges
        for k in 0..=9u32 {
            let p = 1u64 << (7 * k);
            v.push(p - 1);
            v.push(p);
            v.push(p + 1);
        }
        v.extend([(1u64 << 63) - 1, (1u64 << 63) + 1, u64::MAX - 1, (1u64 << 32) + 1, (1u64 << 31), 300, 2_498_243]);
    }
    v.sort();
    v.dedup();
    v
}

fn varuint_alphabet() -> Vec<u64> {
    let mut v = vec![];
    for k in 0..=64u32 {
        let p: u128 = 1u128 << k;
        for x in [p.saturating_sub(2), p - 1, p, p + 1, p + 2] {
            if x <= u64::MAX as u128 {
                v.push(x as u64);
            }
        }
    }
    // every value of the top 7-bit group and its neighbours
    for d in 0..=258u64 {
        v.push(u64::MAX - d);
    }
    v.sort();
    v.dedup();
    v
}

#[derive(Clone, Copy, Debug, PartialEq)]
enum Del {
    Hash(usize),
    Ptr(u64, u64, u64),
    None,
}

#[derive(Clone, Copy, Debug)]
struct Case {
    /// CIP-19 type nibble: 0..7 Shelley, 14/15 stake.
    ty: u8,
    net: u8,
    pay: usize,
    del: Del,
}

impl Case {
    fn kind(&self) -> &'static str {
        match self.ty {
            4 | 5 => "shelley-pointer",
            0..=7 => "shelley",
            _ => "stake",
        }
    }
    fn to_json(&self) -> Value {
        let h = hashes();
        json!({
            "type": self.ty,
            "network": self.net,
            "hash1": hex::encode(h[self.pay]),
            "delegation": match self.del {
                Del::Hash(i) => json!({"hash": hex::encode(h[i])}),
                Del::Ptr(a, b, c) => json!({"pointer": [a.to_string(), b.to_string(), c.to_string()]}),
                Del::None => json!(null),
            },
            "reference_bytes": hex::encode(self.reference_bytes()),
        })
    }
    /// CIP-19 encoding written independently of pallas.
    fn reference_bytes(&self) -> Vec<u8> {
        let h = hashes();
        let mut v = vec![(self.ty << 4) | self.net];
        v.extend_from_slice(&h[self.pay]);
        match self.del {
            Del::Hash(i) => v.extend_from_slice(&h[i]),
            Del::Ptr(a, b, c) => {
                v.extend(model_varuint(a));
                v.extend(model_varuint(b));
                v.extend(model_varuint(c));
            }
            Del::None => {}
        }
        v
    }
    /// The CIP-19 table: which constructors make which type.
    fn build(&self) -> Address {
        let h = hashes();
        let net = Network::from(self.net);
        let h1: Hash<28> = Hash::from(h[self.pay]);
        match self.ty {
            0..=7 => {
                let pay = if self.ty & 1 == 0 { ShelleyPaymentPart::key_hash(h1) } else { ShelleyPaymentPart::script_hash(h1) };
                let del = match (self.ty >> 1, self.del) {
                    (0, Del::Hash(i)) => ShelleyDelegationPart::key_hash(Hash::from(h[i])),
                    (1, Del::Hash(i)) => ShelleyDelegationPart::script_hash(Hash::from(h[i])),
                    (2, Del::Ptr(a, b, c)) => ShelleyDelegationPart::Pointer(Pointer::new(a, b, c)),
                    (3, Del::None) => ShelleyDelegationPart::Null,
                    other => unreachable!("case table inconsistent: {other:?}"),
                };
                Address::Shelley(ShelleyAddress::new(net, pay, del))
            }
            14 => Address::Stake(StakeAddress::new(net, StakePayload::Stake(h1))),
            15 => Address::Stake(StakeAddress::new(net, StakePayload::Script(h1))),
            _ => unreachable!(),
        }
    }
    fn expected_hrp(&self) -> Option<&'static str> {
        match (self.ty, self.net) {
            (0..=7, 0) => Some("addr_test"),
            (0..=7, 1) => Some("addr"),
            (14 | 15, 0) => Some("stake_test"),
            (14 | 15, 1) => Some("stake"),
            _ => None,
        }
    }
}

fn cases(thorough: bool) -> Vec<Case> {
    let ptrs = pointer_alphabet(thorough);
    let mut v = vec![];
    for net in 0..16u8 {
        for ty in 0..8u8 {
            for pay in 0..3 {
                match ty >> 1 {
                    0 | 1 => {
                        for d in 0..3 {
                            v.push(Case { ty, net, pay, del: Del::Hash(d) });
                        }
                    }
                    2 => {
                        for &a in &ptrs {
                            for &b in &ptrs {
                                for &c in &ptrs {
                                    v.push(Case { ty, net, pay, del: Del::Ptr(a, b, c) });
                                }
                            }
                        }
                    }
                    _ => v.push(Case { ty, net, pay, del: Del::None }),
                }
            }
        }
        for ty in [14u8, 15] {
            for pay in 0..3 {
                v.push(Case { ty, net, pay, del: Del::None });
            }
        }
    }
    v
}

#[derive(Default)]
struct Stats {
    evals: u64,
    nontrivial: u64,
    headers: BTreeSet<u8>,
    hrps: BTreeSet<String>,
    ptr_lens: BTreeSet<usize>,
    bytes_differ_from_reference: u64,
    bech32_checked: u64,
    other_net_bech32_ok: u64,
    other_net_string_is_hex: u64,
    viols: crate::Viols,
}

impl Stats {
    fn merge(mut self, o: Stats) -> Stats {
        self.evals += o.evals;
        self.nontrivial += o.nontrivial;
        self.headers.extend(o.headers);
        self.hrps.extend(o.hrps);
        self.ptr_lens.extend(o.ptr_lens);
        self.bytes_differ_from_reference += o.bytes_differ_from_reference;
        self.bech32_checked += o.bech32_checked;
        self.other_net_bech32_ok += o.other_net_bech32_ok;
        self.other_net_string_is_hex += o.other_net_string_is_hex;
        self.viols.merge(o.viols);
        self
    }
}

fn check_case(idx: u64, c: &Case, st: &mut Stats) {
    let kind = c.kind();
    macro_rules! guard {
        ($what:expr, $e:expr) => {
            match catch(|| $e) {
                Ok(v) => v,
                Err(p) => {
                    st.viols.add_eager(idx, p.site(), format!("{} panicked: {} at {}", $what, p.message, p.location), c.to_json());
                    return;
                }
            }
        };
    }
    let addr = guard!("constructing the address", c.build());
    let want_header = (c.ty << 4) | c.net;
    let mut parsed_back = 0u32;
    let mut wanted_back = 0u32;

    // ---- bytes + header
    let bytes = guard!("Address::to_vec", addr.to_vec());
    st.evals += 1;
    let header_fn = guard!("to_header", match &addr {
        Address::Shelley(x) => x.to_header(),
        Address::Stake(x) => x.to_header(),
        Address::Byron(_) => 0,
    });
    if bytes.first() != Some(&want_header) || header_fn != want_header {
        st.viols.add_eager(idx, 
            format!("header:{kind}"),
            format!(
                "type {} network {}: header byte is {:?} (to_header {:#04x}), expected (type<<4)|net = {:#04x}",
                c.ty,
                c.net,
                bytes.first().map(|b| format!("{b:#04x}")),
                header_fn,
                want_header
            ),
            c.to_json(),
        );
    } else {
        st.headers.insert(want_header);
    }
    if bytes != c.reference_bytes() {
        st.bytes_differ_from_reference += 1;
    }
    if let Del::Ptr(..) = c.del {
        st.ptr_lens.insert(bytes.len().saturating_sub(29));
    }
    let mut back = |st: &mut Stats, op: &str, text: String, r: Result<Address, String>| {
        st.evals += 1;
        wanted_back += 1;
        match r {
            Ok(a) if a == addr => parsed_back += 1,
            Ok(a) => {
                // name the component that changed, so that one defect is one fingerprint
                // whatever decoder / address kind exposes it
                let differs = catch(|| {
                    if a.network() != addr.network() {
                        "network"
                    } else if a.typeid() != addr.typeid() {
                        "type"
                    } else if kind == "shelley-pointer" {
                        "pointer-or-hash"
                    } else {
                        "hash"
                    }
                })
                .unwrap_or("unknown");
                st.viols.add_eager(
                    idx,
                    format!("roundtrip:{differs}-differs"),
                    format!("type {} network {}: {op} of {text} gives a different address {a:?} (original {addr:?})", c.ty, c.net),
                    c.to_json(),
                )
            }
            Err(e) => {
                let route = if op.starts_with("from_bytes") || op.starts_with("from_hex") { "bytes" } else { "string" };
                st.viols.add_eager(
                    idx,
                    format!("roundtrip:own-encoding-rejected:{kind}:{route}"),
                    format!("type {} network {}: {op} of {text} is rejected: {e}", c.ty, c.net),
                    c.to_json(),
                )
            }
        }
    };
    let r = guard!("Address::from_bytes", Address::from_bytes(&bytes).map_err(|e| e.to_string()));
    back(st, "from_bytes(to_vec)", hex::encode(&bytes), r);

    // ---- hex
    let hx = guard!("Address::to_hex", addr.to_hex());
    let r = guard!("Address::from_hex", Address::from_hex(&hx).map_err(|e| e.to_string()));
    back(st, "from_hex(to_hex)", hx.clone(), r);

    // ---- Display / FromStr
    let s = guard!("Address::to_string", addr.to_string());
    let r = guard!("Address::from_str", Address::from_str(&s).map_err(|e| e.to_string()));
    back(st, "from_str(to_string)", s.clone(), r);

    // ---- bech32
    let b32 = guard!("Address::to_bech32", addr.to_bech32().map_err(|e| e.to_string()));
    match c.expected_hrp() {
        Some(want_hrp) => match b32 {
            Ok(text) => {
                let r = guard!("Address::from_bech32", Address::from_bech32(&text).map_err(|e| e.to_string()));
                back(st, "from_bech32(to_bech32)", text.clone(), r);
                st.evals += 1;
                st.bech32_checked += 1;
                match mc_core::misc::bech32_decode(&text) {
                    Some((hrp, data)) => {
                        if hrp != want_hrp {
                            st.viols.add_eager(idx, 
                                format!("bech32-prefix:{kind}"),
                                format!("type {} network {}: bech32 prefix is {hrp:?}, the network dictates {want_hrp:?} ({text})", c.ty, c.net),
                                c.to_json(),
                            );
                        } else if data != bytes {
                            st.viols.add_eager(idx, 
                                format!("bech32-data:{kind}"),
                                format!(
                                    "type {} network {}: to_bech32 {text} carries {} while to_vec is {}",
                                    c.ty,
                                    c.net,
                                    hex::encode(&data),
                                    hex::encode(&bytes)
                                ),
                                c.to_json(),
                            );
                        } else {
                            st.hrps.insert(hrp);
                        }
                    }
                    None => st.viols.add_eager(idx, 
                        format!("bech32-wellformed:{kind}"),
                        format!("type {} network {}: to_bech32 output {text:?} is not a valid bech32 string", c.ty, c.net),
                        c.to_json(),
                    ),
                }
            }
            Err(e) => {
                st.evals += 1;
                st.viols.add_eager(idx, 
                    format!("to_bech32:{kind}"),
                    format!("type {} network {}: to_bech32 fails on a mainnet/testnet address: {e}", c.ty, c.net),
                    c.to_json(),
                )
            }
        },
        None => {
            // networks 2..15: the property demands nothing of bech32; diagnostics
            if b32.is_ok() {
                st.other_net_bech32_ok += 1;
            }
            if s == hx {
                st.other_net_string_is_hex += 1;
            }
        }
    }
    if parsed_back == wanted_back && wanted_back >= 3 {
        st.nontrivial += 1;
    }
}

fn vu_write(v: u64) -> Result<Vec<u8>, mc_core::panics::PanicInfo> {
    catch(|| {
        let mut c = Cursor::new(vec![]);
        varuint::write(&mut c, v);
        c.into_inner()
    })
}

fn vu_read(b: &[u8]) -> Result<(Result<u64, String>, u64), mc_core::panics::PanicInfo> {
    catch(|| {
        let mut c = Cursor::new(b);
        let r = varuint::read(&mut c).map_err(|e| e.to_string());
        (r, c.position())
    })
}

pub fn run(ctx: Ctx) -> ! {
    if let Some(p) = &ctx.replay {
        let v: Value = match std::fs::read_to_string(p).ok().and_then(|s| mc_core::serde_json::from_str(&s).ok()) {
            Some(v) => v,
            None => mc_core::report::machinery_failure(&format!("cannot read replay file {p:?}")),
        };
        let case = &v["case"];
        println!("replay C18 case={case}");
        if let Some(hx) = case["reference_bytes"].as_str() {
            let r = catch(|| Address::from_hex(hx).map(|a| (format!("{a:?}"), a.to_hex(), a.to_string())).map_err(|e| e.to_string()));
            println!("Address::from_hex(reference_bytes) -> {r:?}");
        }
        std::process::exit(0);
    }

    // ------------------------------------------------ self-test of the model
    for (v, want) in [(0u64, vec![0u8]), (127, vec![0x7f]), (128, vec![0x81, 0x00]), (300, vec![0x82, 0x2c]), (2_498_243, vec![0x81, 0x98, 0xbd, 0x43])] {
        if model_varuint(v) != want || model_varuint_decode(&want) != Some((v as u128, want.len())) {
            mc_core::report::machinery_failure(&format!("base-128 model self-test failed on {v}"));
        }
    }
    if model_varuint(u64::MAX).len() != 10 || model_varuint_decode(&model_varuint(u64::MAX)) != Some((u64::MAX as u128, 10)) {
        mc_core::report::machinery_failure("base-128 model self-test failed on u64::MAX");
    }

    // ------------------------------------------------ varuint codec alone
    let vals = varuint_alphabet();
    let mut vu_evals = 0u64;
    let mut vu_ok = 0u64;
    let mut vu_lens: BTreeSet<usize> = BTreeSet::new();
    let mut vu_model_disagreements: Vec<Value> = vec![];
    for &v in &vals {
        vu_evals += 1;
        let case = json!({"varuint": v.to_string()});
        let bytes = match vu_write(v) {
            Ok(b) => b,
            Err(p) => {
                ctx.violation(p.site(), format!("varuint::write({v}) panicked: {} at {}", p.message, p.location), case);
                continue;
            }
        };
        match vu_read(&bytes) {
            Err(p) => ctx.violation(p.site(), format!("varuint::read({}) panicked: {} at {}", hex::encode(&bytes), p.message, p.location), case.clone()),
            Ok((Ok(x), pos)) if x == v => {
                vu_ok += 1;
                vu_lens.insert(bytes.len());
                if pos as usize != bytes.len() {
                    vu_model_disagreements.push(json!({"value": v.to_string(), "what": "read did not consume all written bytes", "consumed": pos, "written": bytes.len()}));
                }
            }
            Ok((r, _)) => ctx.violation(
                "varuint:roundtrip",
                format!("varuint::read(varuint::write({v}) = {}) gives {r:?}", hex::encode(&bytes)),
                case.clone(),
            ),
        }
        // model agreement: diagnostics only
        let m = model_varuint(v);
        if m != bytes {
            vu_model_disagreements.push(json!({"value": v.to_string(), "what": "write differs from base-128 model", "pallas": hex::encode(&bytes), "model": hex::encode(&m)}));
        }
        vu_evals += 1;
        match vu_read(&m) {
            Ok((Ok(x), pos)) if x == v && pos as usize == m.len() => {}
            other => vu_model_disagreements.push(json!({"value": v.to_string(), "what": "read of the model encoding disagrees", "model": hex::encode(&m), "pallas": format!("{other:?}")})),
        }
        // each value in each pointer position, the others 0
        for pos in 0..3 {
            let mut t = [0u64; 3];
            t[pos] = v;
            vu_evals += 1;
            let r = catch(|| {
                let p = Pointer::new(t[0], t[1], t[2]);
                let enc = p.to_vec();
                (Pointer::parse(&enc).map_err(|e| e.to_string()).map(|q| q == p), enc)
            });
            match r {
                Err(p) => ctx.violation(p.site(), format!("Pointer round trip of {t:?} panicked: {} at {}", p.message, p.location), json!({"pointer": t.map(|x| x.to_string())})),
                Ok((Ok(true), _)) => {}
                Ok((other, enc)) => ctx.violation(
                    "pointer:roundtrip",
                    format!("Pointer::parse(Pointer{t:?}.to_vec() = {}) -> same pointer: {other:?}", hex::encode(&enc)),
                    json!({"pointer": t.map(|x| x.to_string())}),
                ),
            }
        }
    }

    // ------------------------------------------------ address grid
    let all = cases(ctx.thorough);
    {
        // the enumeration must be duplicate free for the counts to mean what they say
        let a = pointer_alphabet(ctx.thorough);
        let mut b = a.clone();
        b.dedup();
        if a != b {
            mc_core::report::machinery_failure("pointer alphabet has duplicates");
        }
    }
    let mut st = all
        .par_chunks(512)
        .enumerate()
        .map(|(ci, chunk)| {
            let mut st = Stats::default();
            for (i, c) in chunk.iter().enumerate() {
                check_case((ci * 512 + i) as u64, c, &mut st);
            }
            st
        })
        .reduce(Stats::default, Stats::merge);
    std::mem::take(&mut st.viols).emit(&ctx);

    // ------------------------------------------------ vacuity guards
    if ctx.violation_count() == 0 {
        let want_headers: BTreeSet<u8> = (0..16u8).flat_map(|n| [0u8, 1, 2, 3, 4, 5, 6, 7, 14, 15].map(move |t| (t << 4) | n)).collect();
        if st.headers != want_headers {
            mc_core::report::machinery_failure(&format!("only {} of 160 header bytes were produced", st.headers.len()));
        }
        let want_hrps: BTreeSet<String> = ["addr", "addr_test", "stake", "stake_test"].iter().map(|s| s.to_string()).collect();
        if st.hrps != want_hrps {
            mc_core::report::machinery_failure(&format!("bech32 prefixes reached: {:?}", st.hrps));
        }
        if vu_lens != (1..=10).collect::<BTreeSet<usize>>() {
            mc_core::report::machinery_failure(&format!("varuint lengths reached: {vu_lens:?}"));
        }
        if st.nontrivial != all.len() as u64 || vu_ok != vals.len() as u64 {
            mc_core::report::machinery_failure("no violation recorded but not every case was parsed back");
        }
        if !st.ptr_lens.contains(&3) || !st.ptr_lens.contains(&30) {
            mc_core::report::machinery_failure(&format!("pointer encodings of 3 and 30 bytes not both reached: {:?}", st.ptr_lens));
        }
    }

    let n = all.len();
    let samples: Vec<Value> = [0usize, n / 7, 2 * n / 7, 3 * n / 7, 4 * n / 7, 5 * n / 7, n - 1]
        .iter()
        .map(|&i| {
            let c = &all[i];
            let shown = catch(|| {
                let a = c.build();
                (a.to_hex(), a.to_string())
            })
            .unwrap_or_default();
            json!({"type": c.ty, "network": c.net, "to_hex": shown.0, "to_string": shown.1})
        })
        .collect();
    let ptrs = pointer_alphabet(ctx.thorough);
    if !vu_model_disagreements.is_empty() {
        ctx.note(format!("varuint codec disagrees with the base-128 model on {} observations (diagnostic, not a verdict)", vu_model_disagreements.len()));
    }
    if st.bytes_differ_from_reference > 0 {
        ctx.note(format!("{} addresses encode to bytes other than the harness' CIP-19 reference (diagnostic, not a verdict)", st.bytes_differ_from_reference));
    }
    let cov = cov! {
        "evaluations" => st.evals + vu_evals,
        "distinct_nontrivial" => st.nontrivial + vu_ok,
        "rule" => "evaluation = one encode+parse-back (from_bytes/from_hex/from_str/from_bech32), one header comparison, one bech32 prefix/data comparison with the harness' own decoder, or one varuint/Pointer round trip; non-trivial = distinct grid cases (duplicate-free by construction) for which every applicable parse-back returned Ok and was compared with the original, plus distinct varuint values read back",
        "samples" => samples,
        "exhaustive" => true,
        "addresses" => n,
        "address_types" => 10,
        "networks" => 16,
        "hash_alphabet" => ["00*28", "ff*28", "01..1c"],
        "pointer_component_alphabet" => ptrs.iter().map(|x| x.to_string()).collect::<Vec<_>>(),
        "pointer_triples_per_type_net_hash" => ptrs.len().pow(3),
        "header_bytes_reached" => st.headers.len(),
        "bech32_prefixes_reached" => st.hrps.iter().cloned().collect::<Vec<_>>(),
        "bech32_strings_decoded_by_own_decoder" => st.bech32_checked,
        "pointer_encoding_lengths_reached" => st.ptr_lens.iter().cloned().collect::<Vec<_>>(),
        "varuint_values" => vals.len(),
        "varuint_lengths_reached" => vu_lens.iter().cloned().collect::<Vec<_>>(),
        "diag_varuint_model_disagreements" => vu_model_disagreements,
        "diag_bytes_differ_from_cip19_reference" => st.bytes_differ_from_reference,
        "diag_networks_2_15_to_bech32_ok" => st.other_net_bech32_ok,
        "diag_networks_2_15_to_string_is_hex" => st.other_net_string_is_hex,
    };
    ctx.finish(
        Level::Exploration,
        cov,
        &[
            "complete over address types x network ids 0..15; hashes from a 3-value alphabet, pointer components from the listed boundary alphabet (full cube), interior values not enumerated",
            "addresses are built with Network::from(id); Network::Other(0|1) and ids above 15 are outside the property",
            "'same address' is pallas' derived PartialEq on Address",
            "agreement of the full byte string / varuint bytes with the harness' reference encodings is recorded as a diagnostic only, the property states round trip, header and prefix",
        ],
    )
}
