mod c18;
mod c19;

use mc_core::Value;
use std::collections::BTreeMap;

/// Violations gathered inside a parallel loop. Per fingerprint the witness
/// with the smallest enumeration key is kept (so the reported case does not
/// depend on thread scheduling) together with the number of witnesses; the
/// text and the replay case are only built for a new minimum.
#[derive(Default)]
pub struct Viols(BTreeMap<String, (u64, String, Value, u64)>);

impl Viols {
    pub fn add(&mut self, key: u64, fp: String, make: impl FnOnce() -> (String, Value)) {
        match self.0.get_mut(&fp) {
            Some(e) => {
                e.3 += 1;
                if key < e.0 {
                    let (w, c) = make();
                    e.0 = key;
                    e.1 = w;
                    e.2 = c;
                }
            }
            None => {
                let (w, c) = make();
                self.0.insert(fp, (key, w, c, 1));
            }
        }
    }
    pub fn add_eager(&mut self, key: u64, fp: impl Into<String>, what: impl Into<String>, case: Value) {
        self.add(key, fp.into(), || (what.into(), case));
    }
    pub fn merge(&mut self, o: Viols) {
        for (fp, (k, w, c, n)) in o.0 {
            match self.0.get_mut(&fp) {
                Some(e) => {
                    e.3 += n;
                    if k < e.0 {
                        e.0 = k;
                        e.1 = w;
                        e.2 = c;
                    }
                }
                None => {
                    self.0.insert(fp, (k, w, c, n));
                }
            }
        }
    }
    pub fn is_empty(&self) -> bool {
        self.0.is_empty()
    }
    /// Hand everything to the run context (serially, in fingerprint order).
    pub fn emit(self, ctx: &mc_core::Ctx) {
        for (fp, (_, w, c, n)) in self.0 {
            ctx.violation(fp.clone(), w, c);
            for _ in 1..n {
                ctx.violation(fp.clone(), "", Value::Null);
            }
        }
    }
}

fn main() {
    let ctx = mc_core::Ctx::from_args();
    match ctx.prop.as_str() {
        "C18" => c18::run(ctx),
        "C19" => c19::run(ctx),
        p => mc_core::report::machinery_failure(&format!("mc-addr does not serve {p}")),
    }
}
