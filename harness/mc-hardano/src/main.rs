mod byron;
mod c42;
mod c43;
mod db;

use std::alloc::{GlobalAlloc, Layout, System};

/// Allocation probe: behaves exactly like the system allocator, but when a
/// request of >= 1 GiB FAILS (the caller is then about to abort the process
/// through handle_alloc_error) it first logs the innermost pallas frame that
/// asked for the memory to stderr, so that the C43 parent can name the
/// allocation site of the dead worker.
struct Probe;

const BIG: usize = 1 << 30;

fn note(size: usize) {
    let bt = std::backtrace::Backtrace::force_capture().to_string();
    let mut site = String::from("unknown-site");
    for l in bt.lines() {
        if let Some(i) = l.find("pallas_") {
            let mut s = l[i..].trim().to_string();
            // drop a trailing symbol hash `::h0123456789abcdef`
            if let Some(j) = s.rfind("::h") {
                if s.len() - j == 19 && s[j + 3..].chars().all(|c| c.is_ascii_hexdigit()) {
                    s.truncate(j);
                }
            }
            site = s;
            break;
        }
    }
    eprintln!("BIGALLOC {size} {site}");
}

unsafe impl GlobalAlloc for Probe {
    unsafe fn alloc(&self, l: Layout) -> *mut u8 {
        let p = System.alloc(l);
        if p.is_null() && l.size() >= BIG {
            note(l.size());
        }
        p
    }
    unsafe fn alloc_zeroed(&self, l: Layout) -> *mut u8 {
        let p = System.alloc_zeroed(l);
        if p.is_null() && l.size() >= BIG {
            note(l.size());
        }
        p
    }
    unsafe fn dealloc(&self, p: *mut u8, l: Layout) {
        System.dealloc(p, l)
    }
    unsafe fn realloc(&self, p: *mut u8, l: Layout, n: usize) -> *mut u8 {
        let q = System.realloc(p, l, n);
        if q.is_null() && n >= BIG {
            note(n);
        }
        q
    }
}

#[global_allocator]
static ALLOC: Probe = Probe;

fn main() {
    let args: Vec<String> = std::env::args().collect();
    if args.get(1).map(|s| s.as_str()) == Some("__c43-worker") {
        c43::worker(&args[2..]);
    }
    let ctx = mc_core::Ctx::from_args();
    match ctx.prop.as_str() {
        "C42" => c42::run(ctx),
        "C43" => c43::run(ctx),
        p => mc_core::report::machinery_failure(&format!("mc-hardano does not serve {p}")),
    }
}
