//! Synthetic Byron-era immutable chunks for C42, laid out the way the Haskell
//! node does: one chunk per epoch, named by the 5-digit epoch number, starting
//! with the epoch boundary block (EBB) of that epoch followed by the epoch's
//! main blocks in slot order.
//!
//! Source blocks are the Byron blocks of /repo/test_data (hex text files).
//! EBBs of the needed epochs are `genesis.block` (the mainnet epoch-0 EBB)
//! with the epoch field of its consensus data re-encoded; one extra main block
//! is `byron3.block` (epoch 150, slot 1) with its slot-in-epoch re-encoded as
//! 0, so that one chunk holds a main block in the SAME absolute slot as its EBB
//! (as on mainnet, where the first main block of an epoch may sit in slot 0).
//! Slot, epoch and hash are read from the CBOR with `refcbor` + own Blake2b
//! (`db::ref_block`); pallas is consulted only as a sanity assert on the
//! unmodified fixtures.

use crate::db::{self, RefBlock, RefChunk, EPOCH_SLOTS};
use mc_core::refcbor::{self, Node};

/// number of relative slots of a finished chunk: the EBB slot + 21600
pub const REL_SLOTS: u64 = EPOCH_SLOTS + 1;

pub struct SourceBlock {
    pub label: String,
    pub bytes: Vec<u8>,
    pub info: RefBlock,
    /// unmodified fixture (pallas must agree on slot and hash) or derived from one
    pub pristine: bool,
}

pub struct ByronSet {
    pub chunks: Vec<RefChunk>,
    pub sources: Vec<SourceBlock>,
    /// how many derived (re-encoded) blocks pallas decodes to the reference slot and hash (diagnostic)
    pub derived_agree: usize,
    pub derived: usize,
}

fn load_hex(name: &str) -> Result<Vec<u8>, String> {
    let p = std::path::Path::new(db::TEST_DATA).join(name);
    let s = std::fs::read_to_string(&p).map_err(|e| format!("{p:?}: {e}"))?;
    hex::decode(s.trim()).map_err(|e| format!("{name}: not hex: {e}"))
}

fn inspect(label: &str, bytes: Vec<u8>, pristine: bool) -> Result<SourceBlock, String> {
    let node = refcbor::parse_one(&bytes).map_err(|e| format!("{label}: not one CBOR item: {e:?}"))?;
    let info = db::ref_block(&bytes, &node).map_err(|e| format!("{label}: {e}"))?;
    Ok(SourceBlock { label: label.to_string(), bytes, info, pristine })
}

/// Replace the bytes of the unsigned integer at `path` (indices through nested
/// definite/indefinite arrays) by the minimal encoding of `v`. Only arrays are
/// on the way (they count items, not bytes), so the result stays well-formed.
fn respell_uint(bytes: &[u8], path: &[usize], v: u64) -> Result<Vec<u8>, String> {
    let root = refcbor::parse_one(bytes).map_err(|e| format!("{e:?}"))?;
    let mut n = &root;
    for i in path {
        n = n.as_array().and_then(|a| a.get(*i)).ok_or(format!("no item {i} on path {path:?}"))?;
    }
    n.as_u64().ok_or(format!("item at {path:?} is not an unsigned integer"))?;
    let mut out = bytes[..n.start].to_vec();
    out.extend_from_slice(&Node::uint(v).to_vec());
    out.extend_from_slice(&bytes[n.end..]);
    Ok(out)
}

/// `[0, [header = [magic, prev, proof, [EPOCH, [difficulty]], extra], body, extra]]`
const EBB_EPOCH: [usize; 4] = [1, 0, 3, 0];
/// `[1, [header = [magic, prev, proof, [[epoch, SLOT], pubkey, [difficulty], sig], extra], body, extra]]`
const MAIN_SLOT: [usize; 5] = [1, 0, 3, 0, 1];

fn pallas_view(bytes: &[u8]) -> Option<(u64, Vec<u8>, bool)> {
    mc_core::catch(|| pallas_traverse::MultiEraBlock::decode(bytes).ok().map(|b| (b.slot(), b.hash().to_vec(), matches!(b, pallas_traverse::MultiEraBlock::EpochBoundary(_))))).ok().flatten()
}

/// The Byron chunk set. Epochs: every epoch that has a main block among the
/// fixtures, plus epoch 0 holding nothing but the unmodified genesis EBB.
pub fn build() -> Result<ByronSet, String> {
    let mut sources: Vec<SourceBlock> = vec![];
    let genesis = load_hex("genesis.block")?;
    sources.push(inspect("genesis.block", genesis.clone(), true)?);
    let mut k = 1;
    loop {
        let name = format!("byron{k}.block");
        if !std::path::Path::new(db::TEST_DATA).join(&name).exists() {
            break;
        }
        sources.push(inspect(&name, load_hex(&name)?, true)?);
        k += 1;
    }
    if !sources[0].info.ebb || sources[0].info.epoch != 0 || sources[1..].iter().any(|s| s.info.ebb) || sources.len() < 5 {
        return Err("unexpected Byron fixtures: genesis.block must be the epoch-0 EBB and byronN.block main blocks".into());
    }
    // sanity (not the oracle): pallas agrees on the unmodified fixtures
    for s in &sources {
        match pallas_view(&s.bytes) {
            Some((slot, hash, ebb)) if slot == s.info.slot && hash == s.info.hash && ebb == s.info.ebb => {}
            other => return Err(format!("{}: reference (slot {}, hash {}, ebb {}) vs pallas_traverse {:?}", s.label, s.info.slot, hex::encode(s.info.hash), s.info.ebb, other.map(|(s, h, e)| (s, hex::encode(h), e)))),
        }
    }
    // a main block in slot 0 of its epoch (same absolute slot as the EBB)
    let Some(donor) = sources.iter().find(|s| !s.info.ebb && s.info.slot % EPOCH_SLOTS == 1) else {
        return Err("no Byron fixture with slot-in-epoch 1 to derive the slot-0 block from".into());
    };
    let shared = inspect(&format!("{} with slot-in-epoch 0", donor.label), respell_uint(&donor.bytes, &MAIN_SLOT, 0)?, false)?;
    if shared.info.slot + 1 != donor.info.slot || shared.info.epoch != donor.info.epoch || shared.info.hash == donor.info.hash || shared.bytes.len() != donor.bytes.len() {
        return Err("derived slot-0 block is not what was intended".into());
    }
    sources.push(shared);

    let mut epochs: Vec<u64> = sources.iter().map(|s| s.info.epoch).collect();
    epochs.sort();
    epochs.dedup();
    let mut chunks = vec![];
    let mut extra: Vec<SourceBlock> = vec![];
    for e in epochs {
        let ebb = if e == 0 { SourceBlock { label: "genesis.block".into(), bytes: genesis.clone(), info: sources[0].info.clone(), pristine: true } } else { inspect(&format!("genesis.block with epoch {e}"), respell_uint(&genesis, &EBB_EPOCH, e)?, false)? };
        if !ebb.info.ebb || ebb.info.epoch != e || ebb.info.slot != e * EPOCH_SLOTS {
            return Err(format!("EBB of epoch {e} is not what was intended"));
        }
        let mut mains: Vec<&SourceBlock> = sources.iter().filter(|s| !s.info.ebb && s.info.epoch == e).collect();
        mains.sort_by_key(|s| s.info.slot);
        let mut chunk = vec![];
        let mut blocks = vec![];
        for s in std::iter::once(&ebb).chain(mains) {
            let mut b = s.info.clone();
            b.offset = chunk.len();
            chunk.extend_from_slice(&s.bytes);
            blocks.push(b);
        }
        let (primary, secondary) = db::build_indexes(e, &chunk, &blocks, REL_SLOTS)?;
        // the reference reader re-derives everything from the three files' bytes
        let name = format!("{e:05}");
        let rc = db::parse_triplet(&name, chunk, primary, secondary, true)?;
        if rc.blocks.len() != blocks.len() || rc.blocks.iter().zip(&blocks).any(|(a, b)| a.slot != b.slot || a.hash != b.hash || a.offset != b.offset || a.ebb != b.ebb) {
            return Err(format!("{name}: reference reader disagrees with the chunk writer"));
        }
        chunks.push(rc);
        if e != 0 {
            extra.push(ebb);
        }
    }
    sources.extend(extra);
    let derived: Vec<&SourceBlock> = sources.iter().filter(|s| !s.pristine).collect();
    let derived_agree = derived.iter().filter(|s| matches!(pallas_view(&s.bytes), Some((slot, hash, ebb)) if slot == s.info.slot && hash == s.info.hash && ebb == s.info.ebb)).count();
    let derived = derived.len();
    Ok(ByronSet { chunks, sources, derived_agree, derived })
}
