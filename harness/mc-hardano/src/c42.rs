//! C42 — immutable-DB reads return exactly the requested chain suffix.
//! GRID, complete over start points: every contiguous subset of a chunk
//! sequence is laid out as a scratch DB; `read_blocks`, `get_tip` and
//! `read_blocks_from_point` (every block as exact point, fuzzy slots, absent
//! exact points) are compared with a reference block list obtained by
//! splitting the chunk files at CBOR item boundaries (see `db.rs`).
//! Three database families:
//! * Shelley: the three test chunk triplets of /repo/test_data;
//! * Byron: synthetic chunks, one per epoch, each starting with an epoch
//!   boundary block (see `byron.rs`); one chunk holds a main block in the same
//!   slot as its EBB (reference order: EBB first);
//! * Mixed: the Byron chunks followed by the Shelley triplets, every
//!   contiguous subset crossing the era boundary.

use crate::byron;
use crate::db::{self, RefChunk, Scratch};
use mc_core::{catch, cov, json, Ctx, Level, Value};
use pallas_hardano::storage::immutable::{self, Point};
use rayon::prelude::*;
use std::collections::{BTreeMap, BTreeSet};
use std::path::PathBuf;

/// One reference block of a database (index into chunk + block).
#[derive(Clone, Copy)]
struct BRef {
    chunk: usize,
    block: usize,
}

#[derive(Clone, Copy, PartialEq, Eq, Debug)]
enum Family {
    Shelley,
    Byron,
    Mixed,
}

struct Db {
    label: String,
    names: Vec<String>,
    dir: PathBuf,
    family: Family,
    /// indices (into the fixture's chunk list) of the first and the last chunk
    range: (usize, usize),
    /// blocks of all chunks but the last (the immutable ones), in order
    imm: Vec<BRef>,
    /// blocks of the last (volatile, never served) chunk
    last: Vec<BRef>,
}

#[derive(Clone, Copy, PartialEq, Eq, PartialOrd, Ord, Debug)]
enum Kind {
    Exact,
    Fuzzy,
    FuzzyOutside,
    Absent,
}

#[derive(Clone)]
struct Case {
    db: usize,
    kind: Kind,
    slot: u64,
    hash: Vec<u8>,
    /// what was done to build the point (for the replay / fingerprint class)
    how: &'static str,
}

#[derive(Debug, Clone, PartialEq, Eq, PartialOrd, Ord)]
enum Outcome {
    /// Ok(iterator) whose items equal the reference suffix starting here
    Suffix(usize),
    /// Ok(iterator) yielding something else
    Other(String),
    Err(String),
}

struct Fixture {
    /// the Byron chunks (`..nb`) followed by the Shelley-family triplets
    chunks: Vec<RefChunk>,
    nb: usize,
}

impl Fixture {
    fn byron(&self, r: BRef) -> bool {
        r.chunk < self.nb
    }
    fn ebb(&self, r: BRef) -> bool {
        self.chunks[r.chunk].blocks[r.block].ebb
    }
    fn slot(&self, r: BRef) -> u64 {
        self.chunks[r.chunk].blocks[r.block].slot
    }
    fn hash(&self, r: BRef) -> [u8; 32] {
        self.chunks[r.chunk].blocks[r.block].hash
    }
    fn bytes(&self, r: BRef) -> &[u8] {
        let c = &self.chunks[r.chunk];
        c.bytes(&c.blocks[r.block])
    }
}

fn err_variant(e: &immutable::Error) -> String {
    let s = format!("{e:?}");
    s.split(|c: char| !c.is_alphanumeric()).next().unwrap_or("").to_string()
}

/// Compare an iterator with the reference list `imm[..]`: returns the start
/// index of the matching suffix or a description of the first deviation.
fn classify(fx: &Fixture, db: &Db, it: impl Iterator<Item = immutable::FallibleBlock>) -> Outcome {
    let mut it = it;
    let n = db.imm.len();
    let first = match it.next() {
        None => return Outcome::Suffix(n),
        Some(Err(e)) => return Outcome::Other(format!("first item is an error: {e}")),
        Some(Ok(b)) => b,
    };
    // locate the first yielded block in the reference list by content
    let Some(start) = db.imm.iter().position(|r| fx.bytes(*r) == first.as_slice()) else {
        return Outcome::Other(format!("first item ({} bytes) is not a block of the database", first.len()));
    };
    let mut k = start + 1;
    for item in it {
        match item {
            Err(e) => return Outcome::Other(format!("suffix from {start}: item {k} is an error: {e}")),
            Ok(b) => {
                if k >= n {
                    return Outcome::Other(format!("suffix from {start}: more than {n} blocks"));
                }
                if fx.bytes(db.imm[k]) != b.as_slice() {
                    return Outcome::Other(format!("suffix from {start}: item {k} differs from reference block {k}"));
                }
                k += 1;
            }
        }
    }
    if k != n {
        return Outcome::Other(format!("suffix from {start}: ended after block {} of {n}", k));
    }
    Outcome::Suffix(start)
}

fn read_from(fx: &Fixture, db: &Db, slot: u64, hash: &[u8]) -> Result<Outcome, mc_core::panics::PanicInfo> {
    catch(|| match immutable::read_blocks_from_point(&db.dir, Point::Specific(slot, hash.to_vec())) {
        Err(e) => Outcome::Err(err_variant(&e)),
        Ok(it) => classify(fx, db, it),
    })
}

fn build_dbs(fx: &Fixture, scratch: &Scratch) -> Vec<Db> {
    // every triplet is written once and hard-linked into the databases
    let pool = scratch.0.join("pool");
    if let Err(e) = std::fs::create_dir_all(&pool) {
        scratch.fail(&format!("scratch pool: {e}"));
    }
    for ch in &fx.chunks {
        if let Err(e) = db::write_triplet(&pool, &ch.name, &ch.chunk, &ch.primary, &ch.secondary) {
            scratch.fail(&format!("scratch pool {}: {e}", ch.name));
        }
    }
    let (nb, nc) = (fx.nb, fx.chunks.len());
    // Shelley family first (the original enumeration order), then Byron, then mixed
    let mut ranges: Vec<(usize, usize, Family)> = vec![];
    for (lo, hi, only, fam) in [(nb, nc, None, Family::Shelley), (0, nb, None, Family::Byron), (0, nc, Some(nb), Family::Mixed)] {
        let mut r = vec![];
        for i in lo..hi {
            for j in i..hi {
                // mixed = crossing the era boundary
                if only.map(|b| i < b && j >= b).unwrap_or(true) {
                    r.push((i, j, fam));
                }
            }
        }
        // new families: smaller databases first, so that the first witness of a fingerprint is a small one
        if fam != Family::Shelley {
            r.sort_by_key(|(i, j, _)| (j - i, *i));
        }
        ranges.extend(r);
    }
    let mut dbs = vec![];
    for (i, j, family) in ranges {
        let names: Vec<String> = (i..=j).map(|c| fx.chunks[c].name.clone()).collect();
        let label = names.join("+");
        let dir = scratch.0.join(&label);
        if let Err(e) = std::fs::create_dir_all(&dir) {
            scratch.fail(&format!("scratch db {label}: {e}"));
        }
        for c in i..=j {
            if let Err(e) = db::link_triplet(&pool, &dir, &fx.chunks[c].name) {
                scratch.fail(&format!("scratch db {label}: {e}"));
            }
        }
        let all = |c: usize| (0..fx.chunks[c].blocks.len()).map(move |b| BRef { chunk: c, block: b });
        let imm: Vec<BRef> = (i..j).flat_map(all).collect();
        let last: Vec<BRef> = all(j).collect();
        dbs.push(Db { label, names, dir, family, range: (i, j), imm, last });
    }
    dbs
}

/// Sampling of the Shelley-family blocks of a database: (absent stride, stride
/// of the three hash-shape variants, fuzzy stride, exact stride). Byron blocks
/// and both ends of every chunk are always taken.
fn strides(db: &Db, thorough: bool) -> (usize, usize, usize, usize) {
    match (db.family, thorough) {
        (Family::Shelley, true) | (Family::Byron, _) => (1, 1, 1, 1),
        // quick: absent points around every 4th block; the three hash-shape variants only on
        // every 16th block; in the three-chunk database (whose two immutable chunks are also
        // read in the two-chunk databases) fuzzy points only around every 4th block
        (Family::Shelley, false) => (4, 16, if db.names.len() < 3 { 1 } else { 4 }, 1),
        // the Shelley-family blocks are enumerated completely in their own family
        (Family::Mixed, true) => (16, 16, 16, 16),
        (Family::Mixed, false) => (64, 64, 64, 64),
    }
}

/// Point reads are made on every database, except that the quick tier takes, of the mixed
/// databases, only those starting at the first or at one of the last three Byron chunks.
fn explored(fx: &Fixture, db: &Db, thorough: bool) -> bool {
    thorough || db.family != Family::Mixed || db.range.0 == 0 || db.range.0 + 3 >= fx.nb
}

fn cases_for(fx: &Fixture, dbi: usize, db: &Db, thorough: bool) -> Vec<Case> {
    let mut v = vec![];
    if !explored(fx, db, thorough) {
        return v;
    }
    let n = db.imm.len();
    let slots: Vec<u64> = db.imm.iter().map(|r| fx.slot(*r)).collect();
    let (st_absent, st_variants, st_fuzzy, st_exact) = strides(db, thorough);
    let edge = |k: usize| k == 0 || k + 1 == n || db.imm[k - 1].chunk != db.imm[k].chunk || db.imm[k + 1].chunk != db.imm[k].chunk;
    let take = |k: usize, stride: usize| fx.byron(db.imm[k]) || k % stride == 0 || edge(k);
    let exists = |slot: u64, hash: &[u8]| db.imm.iter().any(|r| fx.slot(*r) == slot && fx.hash(*r)[..] == *hash);
    // ---- every block as exact point
    for (k, r) in db.imm.iter().enumerate() {
        if take(k, st_exact) {
            v.push(Case { db: dbi, kind: Kind::Exact, slot: fx.slot(*r), hash: fx.hash(*r).to_vec(), how: "block" });
        }
    }
    // ---- absent exact points
    let absent = |v: &mut Vec<Case>, slot: Option<u64>, hash: Vec<u8>, how: &'static str| {
        // (an EBB and the main block after it may share a slot: such a pair is a block of the database)
        if let Some(slot) = slot {
            if !exists(slot, &hash) {
                v.push(Case { db: dbi, kind: Kind::Absent, slot, hash, how });
            }
        }
    };
    for (k, r) in db.imm.iter().enumerate() {
        let (s, h) = (fx.slot(*r), fx.hash(*r));
        if !take(k, st_absent) {
            continue;
        }
        let mut flipped = h;
        flipped[0] ^= 1;
        absent(&mut v, Some(s), flipped.to_vec(), "right slot, hash with one bit flipped");
        absent(&mut v, s.checked_add(1), h.to_vec(), "slot+1, right hash");
        absent(&mut v, s.checked_sub(1), h.to_vec(), "slot-1, right hash");
        if fx.byron(*r) {
            // the neighbours inside the chunk: EBB <-> main block
            if k + 1 < n && db.imm[k + 1].chunk == r.chunk && fx.ebb(*r) {
                absent(&mut v, Some(s), fx.hash(db.imm[k + 1]).to_vec(), "slot of the EBB, hash of the main block after it");
                absent(&mut v, Some(fx.slot(db.imm[k + 1])), h.to_vec(), "slot of the main block after the EBB, hash of the EBB");
            }
            // the EBB's secondary entry carries the epoch number where other entries carry the slot
            if fx.ebb(*r) {
                absent(&mut v, Some(s / db::EPOCH_SLOTS), h.to_vec(), "epoch number as slot, hash of the EBB");
            }
        }
        if !take(k, st_variants) {
            continue;
        }
        let other = if k + 1 < n { db.imm[k + 1] } else if k > 0 { db.imm[k - 1] } else { db.last[0] };
        absent(&mut v, Some(s), fx.hash(other).to_vec(), "right slot, hash of another block");
        absent(&mut v, Some(s), h[..31].to_vec(), "right slot, hash truncated to 31 bytes");
        let mut long = h.to_vec();
        long.push(0);
        absent(&mut v, Some(s), long, "right slot, hash extended to 33 bytes");
    }
    // blocks of the last (not immutable, never served) chunk are absent from the database
    for (k, r) in db.last.iter().enumerate() {
        let stride = if db.family == Family::Mixed { st_absent } else if thorough { 1 } else { 16 };
        if !(fx.byron(*r) || k % stride == 0 || k + 1 == db.last.len()) {
            continue;
        }
        absent(&mut v, Some(fx.slot(*r)), fx.hash(*r).to_vec(), "block of the last (non-immutable) chunk");
    }
    // ---- fuzzy points
    let around = |x: u64| [x.saturating_sub(1), x, x.saturating_add(1)];
    let mut fuzzy: BTreeSet<u64> = BTreeSet::new();
    for (k, s) in slots.iter().enumerate() {
        if take(k, st_fuzzy) {
            fuzzy.extend(around(*s));
        }
    }
    // chunk boundaries of every chunk of the DB (incl. the last one)
    for name in &db.names {
        let c: u64 = name.parse().unwrap_or(0);
        for b in [c * db::EPOCH_SLOTS, (c + 1) * db::EPOCH_SLOTS] {
            fuzzy.extend(around(b));
        }
    }
    // before / between / after
    fuzzy.extend([0, 1, u64::MAX]);
    if let (Some(a), Some(b)) = (db.last.first(), db.last.last()) {
        fuzzy.extend([fx.slot(*a), fx.slot(*b)]);
    }
    if thorough {
        for (k, w) in slots.windows(2).enumerate() {
            if take(k, st_fuzzy) {
                fuzzy.insert(w[0] + (w[1] - w[0]) / 2);
            }
        }
        // Shelley family: every slot of the epochs of the immutable chunks, stride 1.
        // Byron epochs (at most 3 main blocks each): a window around every block and chunk
        // boundary plus a stride through the epoch; finer in the database of all Byron chunks
        let full_byron = db.family == Family::Byron && db.names.len() == fx.nb;
        let (window, stride) = if full_byron { (64u64, 16usize) } else { (8, 720) };
        for name in &db.names[..db.names.len() - 1] {
            let c: u64 = name.parse().unwrap_or(0);
            let epoch = c * db::EPOCH_SLOTS..(c + 1) * db::EPOCH_SLOTS;
            if db.family == Family::Shelley {
                fuzzy.extend(epoch);
            } else if fx.chunks[..fx.nb].iter().any(|ch| ch.name == *name) {
                fuzzy.extend(epoch.clone().step_by(stride));
                for x in slots.iter().copied().filter(|x| epoch.contains(x)).chain([epoch.start, epoch.end]) {
                    fuzzy.extend(x.saturating_sub(window)..=x + window);
                }
            }
        }
    }
    for s in fuzzy {
        let inside = n > 0 && s >= slots[0] && s <= slots[n - 1];
        v.push(Case { db: dbi, kind: if inside { Kind::Fuzzy } else { Kind::FuzzyOutside }, slot: s, hash: vec![], how: "empty hash" });
    }
    v
}

fn case_json(db: &Db, c: &Case) -> Value {
    json!({"db_chunks": db.names, "family": format!("{:?}", db.family), "call": "read_blocks_from_point", "kind": format!("{:?}", c.kind), "slot": c.slot, "hash": hex::encode(&c.hash), "how": c.how})
}

struct Viol {
    fp: String,
    what: String,
    replay: Value,
}

pub fn run(ctx: Ctx) -> ! {
    let scratch = Scratch::new("c42");
    let shelley: Vec<RefChunk> = db::CHUNKS
        .iter()
        .map(|n| match db::load(std::path::Path::new(db::TEST_DATA), n, *n != "02019") {
            Ok(c) => c,
            Err(e) => scratch.fail(&format!("reference reader: {e}")),
        })
        .collect();
    // the index writer used for the synthetic chunks reproduces the index files of the consistent fixtures
    for c in shelley.iter().filter(|c| c.name != "02019") {
        match db::build_indexes(c.number(), &c.chunk, &c.blocks, byron::REL_SLOTS) {
            Ok((p, s)) if p == c.primary && s == c.secondary => {}
            Ok(_) => scratch.fail(&format!("index writer does not reproduce the index files of fixture {}", c.name)),
            Err(e) => scratch.fail(&format!("index writer on fixture {}: {e}", c.name)),
        }
    }
    let bset = match byron::build() {
        Ok(b) => b,
        Err(e) => scratch.fail(&format!("Byron chunk set: {e}")),
    };
    let nb = bset.chunks.len();
    let byron_layout: Vec<Value> = bset.chunks.iter().map(|c| json!({"chunk": c.name, "blocks": c.blocks.iter().map(|b| json!({"slot": b.slot, "ebb": b.ebb, "bytes": b.len})).collect::<Vec<_>>()})).collect();
    // the Byron chunks precede the Shelley ones in chunk number and in slot
    let mixed_monotone = match (bset.chunks.last(), shelley.first()) {
        (Some(b), Some(s)) => b.number() < s.number() && b.blocks.last().map(|x| x.slot) < s.blocks.first().map(|x| x.slot),
        _ => false,
    };
    if !mixed_monotone {
        scratch.fail("Byron chunks do not precede the Shelley fixtures in slot order");
    }
    let (byron_derived, byron_derived_agree) = (bset.derived, bset.derived_agree);
    let byron_sources: Vec<String> = bset.sources.iter().map(|s| s.label.clone()).collect();
    let mut chunks = bset.chunks;
    chunks.extend(shelley);
    let fx = Fixture { chunks, nb };
    let dbs = build_dbs(&fx, &scratch);

    if let Some(p) = &ctx.replay {
        let v: Value = std::fs::read_to_string(p).ok().and_then(|s| mc_core::serde_json::from_str(&s).ok()).unwrap_or_else(|| scratch.fail("cannot read replay file"));
        let c = &v["case"];
        let names: Vec<String> = c["db_chunks"].as_array().map(|a| a.iter().filter_map(|x| x.as_str().map(String::from)).collect()).unwrap_or_default();
        let Some(db) = dbs.iter().find(|d| d.names == names) else { scratch.fail("replay: unknown db") };
        match c["call"].as_str() {
            Some("read_blocks_from_point") => {
                let slot = c["slot"].as_u64().unwrap_or(0);
                let hash = hex::decode(c["hash"].as_str().unwrap_or("")).unwrap_or_default();
                println!("replay C42 db={} point=({slot},{}) -> {:?}", db.label, hex::encode(&hash), read_from(&fx, db, slot, &hash));
            }
            Some("read_blocks") => println!("replay C42 db={} read_blocks -> {:?}", db.label, catch(|| immutable::read_blocks(&db.dir).map(|it| classify(&fx, db, it)).map_err(|e| err_variant(&e)))),
            _ => println!("replay C42 db={} get_tip -> {:?}", db.label, catch(|| immutable::get_tip(&db.dir).map_err(|e| err_variant(&e)))),
        }
        scratch.cleanup();
        std::process::exit(0);
    }

    let mut viols: Vec<Viol> = vec![];
    let mut evals = 0u64;
    let mut samples: Vec<Value> = vec![];
    let mut per_db: Vec<Value> = vec![];

    // ---- whole-database reads and tip
    for db in &dbs {
        evals += 2;
        let cj = json!({"db_chunks": db.names, "call": "read_blocks"});
        match catch(|| immutable::read_blocks(&db.dir).map(|it| classify(&fx, db, it)).map_err(|e| err_variant(&e))) {
            Err(p) => viols.push(Viol { fp: db::normalize_site(&p.site()), what: format!("read_blocks panicked: {} at {}", p.message, p.location), replay: cj }),
            Ok(Err(e)) => viols.push(Viol { fp: "C42:read_blocks:error".into(), what: format!("read_blocks on intact db {} failed with {e}", db.label), replay: cj }),
            Ok(Ok(Outcome::Suffix(0))) => {}
            Ok(Ok(Outcome::Suffix(k))) if k == db.imm.len() && k == 0 => {}
            Ok(Ok(o)) => viols.push(Viol {
                fp: "C42:read_blocks:not-the-reference-list".into(),
                what: format!("read_blocks on db {} ({} immutable blocks) yielded {o:?}", db.label, db.imm.len()),
                replay: cj,
            }),
        }
        let want = db.imm.last().map(|r| Point::Specific(fx.slot(*r), fx.hash(*r).to_vec()));
        let cj = json!({"db_chunks": db.names, "call": "get_tip"});
        match catch(|| immutable::get_tip(&db.dir).map_err(|e| err_variant(&e))) {
            Err(p) => viols.push(Viol { fp: db::normalize_site(&p.site()), what: format!("get_tip panicked: {} at {}", p.message, p.location), replay: cj }),
            Ok(Err(e)) => viols.push(Viol { fp: "C42:get_tip:error".into(), what: format!("get_tip on intact db {} failed with {e}", db.label), replay: cj }),
            Ok(Ok(got)) => {
                if got != want {
                    viols.push(Viol { fp: "C42:get_tip:not-last-immutable-block".into(), what: format!("get_tip on db {} = {got:?}, last immutable block is {want:?}", db.label), replay: cj });
                }
            }
        }
    }

    // ---- point reads
    let cases: Vec<Case> = dbs.iter().enumerate().flat_map(|(i, d)| cases_for(&fx, i, d, ctx.thorough)).collect();
    let results: Vec<Result<Outcome, mc_core::panics::PanicInfo>> = cases.par_iter().map(|c| read_from(&fx, &dbs[c.db], c.slot, &c.hash)).collect();
    evals += cases.len() as u64;

    let mut nontrivial: BTreeSet<(usize, u8, u64, Vec<u8>)> = BTreeSet::new();
    let mut counts: BTreeMap<String, u64> = BTreeMap::new();
    let mut diag_outside: BTreeMap<String, u64> = BTreeMap::new();
    let mut distinct_expected: BTreeSet<(usize, Option<usize>)> = BTreeSet::new();
    let mut cross_chunk_fuzzy = 0u64;
    let mut cross_chunk_fuzzy_byron = 0u64;
    let (mut ebb_start_points, mut ebb_start_points_ok, mut fuzzy_answered_by_ebb, mut exact_sharing_slot, mut byron_exact_ok) = (0u64, 0u64, 0u64, 0u64, 0u64);
    let mut fam_cases: BTreeMap<&'static str, u64> = BTreeMap::new();
    let mut fam_samples: BTreeSet<&'static str> = BTreeSet::new();
    for (c, r) in cases.iter().zip(results.iter()) {
        let db = &dbs[c.db];
        *fam_cases.entry(match db.family { Family::Shelley => "shelley", Family::Byron => "byron", Family::Mixed => "mixed" }).or_default() += 1;
        let n = db.imm.len();
        let cj = case_json(db, c);
        let out = match r {
            Err(p) => {
                viols.push(Viol { fp: db::normalize_site(&p.site()), what: format!("read_blocks_from_point panicked: {} at {}", p.message, p.location), replay: cj });
                continue;
            }
            Ok(o) => o,
        };
        *counts.entry(format!("{:?}", c.kind)).or_default() += 1;
        let slots_after_tip = n > 0 && c.slot > fx.slot(db.imm[n - 1]);
        let pos_class = if n == 0 {
            "db-without-immutable-chunk"
        } else if slots_after_tip {
            "slot-after-tip"
        } else if c.slot < fx.slot(db.imm[0]) {
            "slot-before-first-block"
        } else {
            "slot-in-range"
        };
        match c.kind {
            Kind::Exact => {
                let k = db.imm.iter().position(|r| fx.slot(*r) == c.slot && fx.hash(*r)[..] == c.hash[..]).unwrap();
                distinct_expected.insert((c.db, Some(k)));
                nontrivial.insert((c.db, 0, c.slot, c.hash.clone()));
                let is_ebb = fx.ebb(db.imm[k]);
                // the block before it in the chain has the same slot (an EBB and the first main block of its epoch)
                let shares_slot = k > 0 && fx.slot(db.imm[k - 1]) == c.slot;
                ebb_start_points += is_ebb as u64;
                exact_sharing_slot += shares_slot as u64;
                if *out != Outcome::Suffix(k) {
                    viols.push(Viol {
                        fp: format!(
                            "C42:exact-point:{}{}",
                            match out { Outcome::Err(e) => format!("error-{e}"), Outcome::Suffix(_) => "wrong-suffix".into(), Outcome::Other(_) => "not-a-suffix".into() },
                            if shares_slot { ":block-in-the-slot-of-the-preceding-ebb" } else { "" }
                        ),
                        what: format!(
                            "db {}: reading from existing block {k} (slot {}{}) gave {out:?}, expected the suffix from block {k}",
                            db.label,
                            c.slot,
                            if shares_slot { ", main block in the same slot as the epoch boundary block before it" } else if is_ebb { ", epoch boundary block" } else { "" }
                        ),
                        replay: cj,
                    });
                } else {
                    ebb_start_points_ok += is_ebb as u64;
                    byron_exact_ok += fx.byron(db.imm[k]) as u64;
                    if samples.len() < 3 && k % 401 == 7 {
                        samples.push(json!({"case": cj, "outcome": format!("{out:?}")}));
                    } else if is_ebb && k > 0 && fam_samples.insert(if db.family == Family::Byron { "byron-ebb-exact" } else { "mixed-ebb-exact" }) {
                        samples.push(json!({"case": cj, "outcome": format!("{out:?}"), "note": "exact start at an epoch boundary block"}));
                    } else if db.family == Family::Mixed && !fx.byron(db.imm[k]) && fam_samples.insert("mixed-shelley-exact") {
                        samples.push(json!({"case": cj, "outcome": format!("{out:?}"), "note": "exact start in the Shelley part of a mixed database"}));
                    }
                }
            }
            Kind::Fuzzy => {
                let k = db.imm.iter().position(|r| fx.slot(*r) >= c.slot).unwrap();
                distinct_expected.insert((c.db, Some(k)));
                nontrivial.insert((c.db, 1, c.slot, vec![]));
                // the chunk the binary search has to pick differs from the chunk of the answer
                let chunk_of_slot = c.slot / 21600;
                if fx.chunks[db.imm[k].chunk].number() != chunk_of_slot {
                    cross_chunk_fuzzy += 1;
                    cross_chunk_fuzzy_byron += fx.byron(db.imm[k]) as u64;
                }
                if fx.ebb(db.imm[k]) {
                    fuzzy_answered_by_ebb += 1;
                    if *out == Outcome::Suffix(k) && fx.slot(db.imm[k]) == c.slot && k + 1 < n && fx.slot(db.imm[k + 1]) == c.slot && fam_samples.insert("fuzzy-shared-slot") {
                        samples.push(json!({"case": cj, "outcome": format!("{out:?}"), "note": "fuzzy point on a slot shared by an EBB and a main block: suffix starts at the EBB"}));
                    }
                }
                if *out != Outcome::Suffix(k) {
                    viols.push(Viol {
                        fp: format!("C42:fuzzy-point:{}", match out { Outcome::Err(e) => format!("error-{e}"), Outcome::Suffix(_) => "wrong-suffix".into(), Outcome::Other(_) => "not-a-suffix".into() }),
                        what: format!("db {}: fuzzy read from slot {} gave {out:?}, first block at or after it is block {k} (slot {})", db.label, c.slot, fx.slot(db.imm[k])),
                        replay: cj,
                    });
                } else if samples.len() < 6 && c.slot % 977 == 3 {
                    samples.push(json!({"case": cj, "outcome": format!("{out:?}")}));
                }
            }
            Kind::FuzzyOutside => {
                // not in the quantifier ("every slot in and between blocks"): logged only
                let o = match out {
                    Outcome::Err(e) => format!("error {e}"),
                    Outcome::Suffix(k) if *k == n => "empty iterator".to_string(),
                    Outcome::Suffix(0) => "whole database".to_string(),
                    Outcome::Suffix(_) => "inner suffix".to_string(),
                    Outcome::Other(_) => "other".to_string(),
                };
                *diag_outside.entry(format!("{pos_class} -> {o}")).or_default() += 1;
            }
            Kind::Absent => {
                distinct_expected.insert((c.db, None));
                nontrivial.insert((c.db, 2, c.slot, c.hash.clone()));
                match out {
                    Outcome::Err(_) => {
                        if samples.len() < 8 && c.slot % 1013 == 5 {
                            samples.push(json!({"case": cj, "outcome": format!("{out:?}")}));
                        } else if c.how.contains("EBB") && fam_samples.insert(c.how) {
                            samples.push(json!({"case": cj, "outcome": format!("{out:?}")}));
                        }
                    }
                    ok => {
                        let got = match ok {
                            Outcome::Suffix(k) if *k == n => "an empty iterator".to_string(),
                            Outcome::Suffix(k) => format!("the suffix from block {k}"),
                            o => format!("{o:?}"),
                        };
                        viols.push(Viol {
                            fp: format!("C42:absent-exact-point-accepted:{pos_class}"),
                            what: format!("db {}: read_blocks_from_point(Specific({}, {})) [{}] is not a block of the database but returned Ok with {got}", db.label, c.slot, hex::encode(&c.hash), c.how),
                            replay: cj,
                        });
                    }
                }
            }
        }
    }
    for (i, db) in dbs.iter().enumerate() {
        per_db.push(json!({
            "chunks": db.names, "family": format!("{:?}", db.family), "immutable_blocks": db.imm.len(),
            "exact": cases.iter().filter(|c| c.db == i && c.kind == Kind::Exact).count(),
            "fuzzy_in_range": cases.iter().filter(|c| c.db == i && c.kind == Kind::Fuzzy).count(),
            "fuzzy_outside_diagnostic": cases.iter().filter(|c| c.db == i && c.kind == Kind::FuzzyOutside).count(),
            "absent": cases.iter().filter(|c| c.db == i && c.kind == Kind::Absent).count(),
        }));
    }

    // ---- vacuity guards
    let fam = |f: Family| dbs.iter().enumerate().filter(move |(_, d)| d.family == f);
    let imm_of = |f: Family| fam(f).map(|(_, d)| d.imm.len()).sum::<usize>();
    let exact_of = |f: Family, byron_only: bool| cases.iter().filter(|c| c.kind == Kind::Exact && dbs[c.db].family == f && (!byron_only || c.slot < (fx.chunks[nb - 1].number() + 1) * db::EPOCH_SLOTS)).count();
    let total_imm = imm_of(Family::Shelley);
    let exact_ok = cases.iter().zip(results.iter()).filter(|(c, r)| c.kind == Kind::Exact && dbs[c.db].family == Family::Shelley && matches!(r, Ok(Outcome::Suffix(_)))).count();
    if fam(Family::Shelley).count() != 6 || total_imm != 864 + 913 + 1777 || exact_of(Family::Shelley, false) != total_imm {
        scratch.fail(&format!("C42 enumeration incomplete: dbs={} immutable blocks={total_imm}", dbs.len()));
    }
    let byron_blocks_in_mixed: usize = fam(Family::Mixed).filter(|(_, d)| explored(&fx, d, ctx.thorough)).map(|(_, d)| d.imm.iter().filter(|r| fx.byron(**r)).count()).sum();
    if nb < 4
        || !fx.chunks[..nb].iter().any(|c| c.blocks.iter().filter(|b| !b.ebb).count() >= 2)
        || fx.chunks[..nb].iter().any(|c| !c.blocks[0].ebb || c.blocks[1..].iter().any(|b| b.ebb))
        || fam(Family::Byron).count() != nb * (nb + 1) / 2
        || fam(Family::Mixed).count() != nb * 3
        || exact_of(Family::Byron, false) != imm_of(Family::Byron)
        || exact_of(Family::Mixed, true) != byron_blocks_in_mixed
    {
        scratch.fail(&format!("C42 Byron family incomplete: {nb} Byron chunks, dbs={}, exact points {} of {} / {} of {}", dbs.len(), exact_of(Family::Byron, false), imm_of(Family::Byron), exact_of(Family::Mixed, true), byron_blocks_in_mixed));
    }
    if exact_ok == 0 || counts.get("Fuzzy").copied().unwrap_or(0) == 0 || counts.get("Absent").copied().unwrap_or(0) == 0 || cross_chunk_fuzzy == 0 {
        scratch.fail("C42 vacuous: no accepted exact point / no fuzzy point / no absent point / no fuzzy point crossing a chunk boundary");
    }
    // (reached, not "accepted": a defect that breaks every EBB start point is a violation, not a machinery failure)
    if ebb_start_points == 0 || fuzzy_answered_by_ebb == 0 || cross_chunk_fuzzy_byron == 0 || exact_sharing_slot == 0 {
        scratch.fail("C42 vacuous on the Byron family: no EBB start point / no fuzzy point answered by an EBB / none crossing a chunk boundary / no main block in the slot of its EBB");
    }

    // first witness per fingerprint = first in enumeration order (deterministic; results were collected in case order)
    for v in viols {
        ctx.violation(v.fp, v.what, v.replay);
    }
    scratch.cleanup();
    let cov = cov! {
        "evaluations" => evals,
        "distinct_nontrivial" => nontrivial.len(),
        "rule" => "evaluation = one read_blocks / get_tip / read_blocks_from_point call on a scratch database, its whole result compared item by item with the reference list (chunk files split at CBOR item boundaries by refcbor; slot from the header body, hash = own Blake2b-256 of the header item, both cross-checked with the secondary index and CRC-32); non-trivial = distinct (database, point) in the property's domain (exact, fuzzy between first and last block, absent) whose outcome was compared with the expected suffix index or expected failure",
        "samples" => samples,
        "exhaustive" => true,
        "databases" => per_db,
        "point_reads_by_kind" => counts,
        "distinct_expected_outcomes" => distinct_expected.len(),
        "fuzzy_points_answered_from_a_later_chunk" => cross_chunk_fuzzy,
        "byron_databases" => fam(Family::Byron).count(),
        "mixed_databases" => fam(Family::Mixed).count(),
        "mixed_databases_with_point_reads" => fam(Family::Mixed).filter(|(_, d)| explored(&fx, d, ctx.thorough)).count(),
        "byron_cases" => fam_cases.get("byron").copied().unwrap_or(0),
        "mixed_cases" => fam_cases.get("mixed").copied().unwrap_or(0),
        "shelley_cases" => fam_cases.get("shelley").copied().unwrap_or(0),
        "ebb_start_points" => ebb_start_points,
        "ebb_start_points_answered_with_the_reference_suffix" => ebb_start_points_ok,
        "byron_block_start_points_answered_with_the_reference_suffix" => byron_exact_ok,
        "exact_points_on_a_main_block_in_the_slot_of_its_ebb" => exact_sharing_slot,
        "fuzzy_points_answered_by_an_ebb" => fuzzy_answered_by_ebb,
        "byron_fuzzy_points_answered_from_a_later_chunk" => cross_chunk_fuzzy_byron,
        "byron_chunk_layout" => byron_layout,
        "byron_source_blocks" => byron_sources,
        "byron_derived_blocks_pallas_decodes_to_reference_slot_and_hash" => format!("{byron_derived_agree} of {byron_derived} (diagnostic)"),
        "mixed_database_shelley_block_stride" => if ctx.thorough { "every 16th Shelley-family block and both ends of each chunk (exact, fuzzy, absent); every Byron block" } else { "every 64th Shelley-family block and both ends of each chunk; every Byron block" },
        "diagnostic_fuzzy_points_outside_block_range" => diag_outside,
        "absent_points" => if ctx.thorough { "per block: flipped hash bit, slot+1, slot-1, another block's hash, 31-byte hash, 33-byte hash; every block of the last chunk; per EBB also: its slot with the hash of the main block after it, that block's slot with the EBB's hash (unless they share the slot), the epoch number as slot" } else { "on every 4th Shelley-family block and both ends of each chunk: flipped hash bit, slot+1, slot-1; on every 16th block and the ends also another block's hash, 31-byte hash, 33-byte hash; every 16th block of the last chunk; every Byron block: all six; per EBB also: its slot with the hash of the main block after it, that block's slot with the EBB's hash (unless they share the slot), the epoch number as slot" },
        "fuzzy_stride" => if ctx.thorough { "Shelley family: every slot of the epochs of the immutable chunks + every block slot +-1, midpoints, chunk boundaries; Byron epochs: every block slot and chunk boundary +-8 and every 720th slot, in the database of all Byron chunks +-64 and every 16th slot; midpoints" } else { "two-chunk databases: every block slot +-1; three-chunk database: every 4th block slot +-1 and both ends of each chunk; chunk boundaries +-1; Byron blocks: every block slot +-1" },
    };
    ctx.finish(
        Level::Exploration,
        cov,
        &[
            "the three chunk triplets under /repo/test_data are a valid immutable DB (checked: CBOR item boundaries == secondary offsets, CRC-32, header hashes, slots, primary occupancy)",
            "the last chunk of a database is not immutable and is never served (build_stack_of_chunk_names); 'every block of its immutable chunks' = all chunks but the last",
            "fuzzy points before the first or after the last immutable block are outside 'every slot in and between blocks' and only logged",
            "fixture 02019 is not a consistent triplet (5 blocks in the chunk file, 15 secondary entries, 1 occupied primary slot); in every contiguous subset that contains it it is the last chunk, which pallas never opens, so it only contributes absent points and never served blocks",
            "the Shelley-family test blocks are Babbage-era; the Byron family is synthetic: one chunk per epoch = that epoch's EBB (genesis.block with the epoch field of its consensus data re-encoded) + the byronN.block fixtures of the epoch in slot order, full-size primary index (21601 relative slots, EBB in relative slot 0), secondary entries carrying the epoch number for the EBB; the index writer is checked to reproduce the index files of fixtures 01285 and 01836 byte for byte",
            "one synthetic main block (byron3.block with its slot-in-epoch re-encoded from 1 to 0) sits in the same absolute slot as the EBB of its chunk; reference order 'EBB before the main block of the same slot', a fuzzy point on that slot starts at the EBB, both (slot, hash) pairs are existing points",
            "block signatures, body proofs and prev-hash links of the synthetic Byron chain are not consistent (none of the readers under test looks at them)",
            "in mixed databases the Shelley-family blocks are sampled (they are enumerated completely in their own family); the quick tier makes point reads only on the mixed databases that start at the first or at one of the last three Byron chunks (read_blocks and get_tip on all); the slots of a Byron epoch (at most 3 main blocks) are not all taken as fuzzy points: windows around blocks and chunk boundaries plus a stride (see fuzzy_stride)",
        ],
    )
}
