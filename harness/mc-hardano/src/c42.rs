//! C42 — immutable-DB reads return exactly the requested chain suffix.
//! GRID, complete over start points: every contiguous subset of the three
//! test chunk triplets is copied into a scratch DB; `read_blocks`, `get_tip`
//! and `read_blocks_from_point` (every block as exact point, fuzzy slots,
//! absent exact points) are compared with a reference block list obtained by
//! splitting the chunk files at CBOR item boundaries (see `db.rs`).

use crate::db::{self, RefChunk, Scratch};
use mc_core::{catch, cov, json, Ctx, Level, Value};
use pallas_hardano::storage::immutable::{self, Point};
use rayon::prelude::*;
use std::collections::{BTreeMap, BTreeSet};
use std::path::PathBuf;

/// One reference block of a database (index into chunk + block).
#[derive(Clone, Copy)]
struct BRef {
    chunk: usize,
    block: usize,
}

struct Db {
    label: String,
    names: Vec<String>,
    dir: PathBuf,
    /// blocks of all chunks but the last (the immutable ones), in order
    imm: Vec<BRef>,
    /// blocks of the last (volatile, never served) chunk
    last: Vec<BRef>,
}

#[derive(Clone, Copy, PartialEq, Eq, PartialOrd, Ord, Debug)]
enum Kind {
    Exact,
    Fuzzy,
    FuzzyOutside,
    Absent,
}

#[derive(Clone)]
struct Case {
    db: usize,
    kind: Kind,
    slot: u64,
    hash: Vec<u8>,
    /// what was done to build the point (for the replay / fingerprint class)
    how: &'static str,
}

#[derive(Debug, Clone, PartialEq, Eq, PartialOrd, Ord)]
enum Outcome {
    /// Ok(iterator) whose items equal the reference suffix starting here
    Suffix(usize),
    /// Ok(iterator) yielding something else
    Other(String),
    Err(String),
}

struct Fixture {
    chunks: Vec<RefChunk>,
}

impl Fixture {
    fn slot(&self, r: BRef) -> u64 {
        self.chunks[r.chunk].blocks[r.block].slot
    }
    fn hash(&self, r: BRef) -> [u8; 32] {
        self.chunks[r.chunk].blocks[r.block].hash
    }
    fn bytes(&self, r: BRef) -> &[u8] {
        let c = &self.chunks[r.chunk];
        c.bytes(&c.blocks[r.block])
    }
}

fn err_variant(e: &immutable::Error) -> String {
    let s = format!("{e:?}");
    s.split(|c: char| !c.is_alphanumeric()).next().unwrap_or("").to_string()
}

/// Compare an iterator with the reference list `imm[..]`: returns the start
/// index of the matching suffix or a description of the first deviation.
fn classify(fx: &Fixture, db: &Db, it: impl Iterator<Item = immutable::FallibleBlock>) -> Outcome {
    let mut it = it;
    let n = db.imm.len();
    let first = match it.next() {
        None => return Outcome::Suffix(n),
        Some(Err(e)) => return Outcome::Other(format!("first item is an error: {e}")),
        Some(Ok(b)) => b,
    };
    // locate the first yielded block in the reference list by content
    let Some(start) = db.imm.iter().position(|r| fx.bytes(*r) == first.as_slice()) else {
        return Outcome::Other(format!("first item ({} bytes) is not a block of the database", first.len()));
    };
    let mut k = start + 1;
    for item in it {
        match item {
            Err(e) => return Outcome::Other(format!("suffix from {start}: item {k} is an error: {e}")),
            Ok(b) => {
                if k >= n {
                    return Outcome::Other(format!("suffix from {start}: more than {n} blocks"));
                }
                if fx.bytes(db.imm[k]) != b.as_slice() {
                    return Outcome::Other(format!("suffix from {start}: item {k} differs from reference block {k}"));
                }
                k += 1;
            }
        }
    }
    if k != n {
        return Outcome::Other(format!("suffix from {start}: ended after block {} of {n}", k));
    }
    Outcome::Suffix(start)
}

fn read_from(fx: &Fixture, db: &Db, slot: u64, hash: &[u8]) -> Result<Outcome, mc_core::panics::PanicInfo> {
    catch(|| match immutable::read_blocks_from_point(&db.dir, Point::Specific(slot, hash.to_vec())) {
        Err(e) => Outcome::Err(err_variant(&e)),
        Ok(it) => classify(fx, db, it),
    })
}

fn build_dbs(fx: &Fixture, scratch: &Scratch) -> Vec<Db> {
    let mut dbs = vec![];
    for i in 0..fx.chunks.len() {
        for j in i..fx.chunks.len() {
            let names: Vec<String> = (i..=j).map(|c| fx.chunks[c].name.clone()).collect();
            let label = names.join("+");
            let dir = scratch.0.join(&label);
            if let Err(e) = std::fs::create_dir_all(&dir) {
                scratch.fail(&format!("scratch db {label}: {e}"));
            }
            for c in i..=j {
                let ch = &fx.chunks[c];
                if let Err(e) = db::write_triplet(&dir, &ch.name, &ch.chunk, &ch.primary, &ch.secondary) {
                    scratch.fail(&format!("scratch db {label}: {e}"));
                }
            }
            let all = |c: usize| (0..fx.chunks[c].blocks.len()).map(move |b| BRef { chunk: c, block: b });
            let imm: Vec<BRef> = (i..j).flat_map(all).collect();
            let last: Vec<BRef> = all(j).collect();
            dbs.push(Db { label, names, dir, imm, last });
        }
    }
    dbs
}

fn cases_for(fx: &Fixture, dbi: usize, db: &Db, thorough: bool) -> Vec<Case> {
    let mut v = vec![];
    let n = db.imm.len();
    let slots: Vec<u64> = db.imm.iter().map(|r| fx.slot(*r)).collect();
    // ---- every block as exact point
    for r in &db.imm {
        v.push(Case { db: dbi, kind: Kind::Exact, slot: fx.slot(*r), hash: fx.hash(*r).to_vec(), how: "block" });
    }
    // ---- absent exact points
    for (k, r) in db.imm.iter().enumerate() {
        let (s, h) = (fx.slot(*r), fx.hash(*r));
        // quick: absent points around every 4th block (and both ends of every chunk); the
        // three hash-shape variants only on every 16th block and both ends
        let edge = k == 0 || k + 1 == n || db.imm[k - 1].chunk != r.chunk || db.imm[k + 1].chunk != r.chunk;
        if !(thorough || k % 4 == 0 || edge) {
            continue;
        }
        let all_variants = thorough || k % 16 == 0 || edge;
        let mut flipped = h;
        flipped[0] ^= 1;
        v.push(Case { db: dbi, kind: Kind::Absent, slot: s, hash: flipped.to_vec(), how: "right slot, hash with one bit flipped" });
        v.push(Case { db: dbi, kind: Kind::Absent, slot: s + 1, hash: h.to_vec(), how: "slot+1, right hash" });
        v.push(Case { db: dbi, kind: Kind::Absent, slot: s - 1, hash: h.to_vec(), how: "slot-1, right hash" });
        if !all_variants {
            continue;
        }
        let other = if k + 1 < n { db.imm[k + 1] } else if k > 0 { db.imm[k - 1] } else { db.last[0] };
        v.push(Case { db: dbi, kind: Kind::Absent, slot: s, hash: fx.hash(other).to_vec(), how: "right slot, hash of another block" });
        v.push(Case { db: dbi, kind: Kind::Absent, slot: s, hash: h[..31].to_vec(), how: "right slot, hash truncated to 31 bytes" });
        let mut long = h.to_vec();
        long.push(0);
        v.push(Case { db: dbi, kind: Kind::Absent, slot: s, hash: long, how: "right slot, hash extended to 33 bytes" });
    }
    // blocks of the last (not immutable, never served) chunk are absent from the database
    for (k, r) in db.last.iter().enumerate() {
        if !(thorough || k % 16 == 0 || k + 1 == db.last.len()) {
            continue;
        }
        v.push(Case { db: dbi, kind: Kind::Absent, slot: fx.slot(*r), hash: fx.hash(*r).to_vec(), how: "block of the last (non-immutable) chunk" });
    }
    // ---- fuzzy points
    let mut fuzzy: BTreeSet<u64> = BTreeSet::new();
    for (k, s) in slots.iter().enumerate() {
        // quick: in the three-chunk database (whose two immutable chunks are also read in the
        // two-chunk databases) only around every 4th block and both ends of every chunk
        let edge = k == 0 || k + 1 == n || db.imm[k - 1].chunk != db.imm[k].chunk || db.imm[k + 1].chunk != db.imm[k].chunk;
        if thorough || db.names.len() < 3 || k % 4 == 0 || edge {
            fuzzy.extend([s - 1, *s, s + 1]);
        }
    }
    // chunk boundaries of every chunk of the DB (incl. the last one)
    for name in &db.names {
        let c: u64 = name.parse().unwrap_or(0);
        for b in [c * 21600, (c + 1) * 21600] {
            fuzzy.extend([b - 1, b, b + 1]);
        }
    }
    // before / between / after
    fuzzy.extend([0, 1, u64::MAX]);
    if let (Some(a), Some(b)) = (db.last.first(), db.last.last()) {
        fuzzy.extend([fx.slot(*a), fx.slot(*b)]);
    }
    if thorough {
        for w in slots.windows(2) {
            fuzzy.insert(w[0] + (w[1] - w[0]) / 2);
        }
        // every slot of the epochs of the immutable chunks, stride 1
        for name in &db.names[..db.names.len() - 1] {
            let c: u64 = name.parse().unwrap_or(0);
            fuzzy.extend(c * 21600..(c + 1) * 21600);
        }
    }
    for s in fuzzy {
        let inside = n > 0 && s >= slots[0] && s <= slots[n - 1];
        v.push(Case { db: dbi, kind: if inside { Kind::Fuzzy } else { Kind::FuzzyOutside }, slot: s, hash: vec![], how: "empty hash" });
    }
    v
}

fn case_json(db: &Db, c: &Case) -> Value {
    json!({"db_chunks": db.names, "call": "read_blocks_from_point", "kind": format!("{:?}", c.kind), "slot": c.slot, "hash": hex::encode(&c.hash), "how": c.how})
}

struct Viol {
    fp: String,
    what: String,
    replay: Value,
}

pub fn run(ctx: Ctx) -> ! {
    let scratch = Scratch::new("c42");
    let chunks: Vec<RefChunk> = db::CHUNKS
        .iter()
        .map(|n| match db::load(std::path::Path::new(db::TEST_DATA), n, *n != "02019") {
            Ok(c) => c,
            Err(e) => scratch.fail(&format!("reference reader: {e}")),
        })
        .collect();
    let fx = Fixture { chunks };
    let dbs = build_dbs(&fx, &scratch);

    if let Some(p) = &ctx.replay {
        let v: Value = std::fs::read_to_string(p).ok().and_then(|s| mc_core::serde_json::from_str(&s).ok()).unwrap_or_else(|| scratch.fail("cannot read replay file"));
        let c = &v["case"];
        let names: Vec<String> = c["db_chunks"].as_array().map(|a| a.iter().filter_map(|x| x.as_str().map(String::from)).collect()).unwrap_or_default();
        let Some(db) = dbs.iter().find(|d| d.names == names) else { scratch.fail("replay: unknown db") };
        match c["call"].as_str() {
            Some("read_blocks_from_point") => {
                let slot = c["slot"].as_u64().unwrap_or(0);
                let hash = hex::decode(c["hash"].as_str().unwrap_or("")).unwrap_or_default();
                println!("replay C42 db={} point=({slot},{}) -> {:?}", db.label, hex::encode(&hash), read_from(&fx, db, slot, &hash));
            }
            Some("read_blocks") => println!("replay C42 db={} read_blocks -> {:?}", db.label, catch(|| immutable::read_blocks(&db.dir).map(|it| classify(&fx, db, it)).map_err(|e| err_variant(&e)))),
            _ => println!("replay C42 db={} get_tip -> {:?}", db.label, catch(|| immutable::get_tip(&db.dir).map_err(|e| err_variant(&e)))),
        }
        scratch.cleanup();
        std::process::exit(0);
    }

    let mut viols: Vec<Viol> = vec![];
    let mut evals = 0u64;
    let mut samples: Vec<Value> = vec![];
    let mut per_db: Vec<Value> = vec![];

    // ---- whole-database reads and tip
    for db in &dbs {
        evals += 2;
        let cj = json!({"db_chunks": db.names, "call": "read_blocks"});
        match catch(|| immutable::read_blocks(&db.dir).map(|it| classify(&fx, db, it)).map_err(|e| err_variant(&e))) {
            Err(p) => viols.push(Viol { fp: db::normalize_site(&p.site()), what: format!("read_blocks panicked: {} at {}", p.message, p.location), replay: cj }),
            Ok(Err(e)) => viols.push(Viol { fp: "C42:read_blocks:error".into(), what: format!("read_blocks on intact db {} failed with {e}", db.label), replay: cj }),
            Ok(Ok(Outcome::Suffix(0))) => {}
            Ok(Ok(Outcome::Suffix(k))) if k == db.imm.len() && k == 0 => {}
            Ok(Ok(o)) => viols.push(Viol {
                fp: "C42:read_blocks:not-the-reference-list".into(),
                what: format!("read_blocks on db {} ({} immutable blocks) yielded {o:?}", db.label, db.imm.len()),
                replay: cj,
            }),
        }
        let want = db.imm.last().map(|r| Point::Specific(fx.slot(*r), fx.hash(*r).to_vec()));
        let cj = json!({"db_chunks": db.names, "call": "get_tip"});
        match catch(|| immutable::get_tip(&db.dir).map_err(|e| err_variant(&e))) {
            Err(p) => viols.push(Viol { fp: db::normalize_site(&p.site()), what: format!("get_tip panicked: {} at {}", p.message, p.location), replay: cj }),
            Ok(Err(e)) => viols.push(Viol { fp: "C42:get_tip:error".into(), what: format!("get_tip on intact db {} failed with {e}", db.label), replay: cj }),
            Ok(Ok(got)) => {
                if got != want {
                    viols.push(Viol { fp: "C42:get_tip:not-last-immutable-block".into(), what: format!("get_tip on db {} = {got:?}, last immutable block is {want:?}", db.label), replay: cj });
                }
            }
        }
    }

    // ---- point reads
    let cases: Vec<Case> = dbs.iter().enumerate().flat_map(|(i, d)| cases_for(&fx, i, d, ctx.thorough)).collect();
    let results: Vec<Result<Outcome, mc_core::panics::PanicInfo>> = cases.par_iter().map(|c| read_from(&fx, &dbs[c.db], c.slot, &c.hash)).collect();
    evals += cases.len() as u64;

    let mut nontrivial: BTreeSet<(usize, u8, u64, Vec<u8>)> = BTreeSet::new();
    let mut counts: BTreeMap<String, u64> = BTreeMap::new();
    let mut diag_outside: BTreeMap<String, u64> = BTreeMap::new();
    let mut distinct_expected: BTreeSet<(usize, Option<usize>)> = BTreeSet::new();
    let mut cross_chunk_fuzzy = 0u64;
    for (c, r) in cases.iter().zip(results.iter()) {
        let db = &dbs[c.db];
        let n = db.imm.len();
        let cj = case_json(db, c);
        let out = match r {
            Err(p) => {
                viols.push(Viol { fp: db::normalize_site(&p.site()), what: format!("read_blocks_from_point panicked: {} at {}", p.message, p.location), replay: cj });
                continue;
            }
            Ok(o) => o,
        };
        *counts.entry(format!("{:?}", c.kind)).or_default() += 1;
        let slots_after_tip = n > 0 && c.slot > fx.slot(db.imm[n - 1]);
        let pos_class = if n == 0 {
            "db-without-immutable-chunk"
        } else if slots_after_tip {
            "slot-after-tip"
        } else if c.slot < fx.slot(db.imm[0]) {
            "slot-before-first-block"
        } else {
            "slot-in-range"
        };
        match c.kind {
            Kind::Exact => {
                let k = db.imm.iter().position(|r| fx.slot(*r) == c.slot).unwrap();
                distinct_expected.insert((c.db, Some(k)));
                nontrivial.insert((c.db, 0, c.slot, c.hash.clone()));
                if *out != Outcome::Suffix(k) {
                    viols.push(Viol {
                        fp: format!("C42:exact-point:{}", match out { Outcome::Err(e) => format!("error-{e}"), Outcome::Suffix(_) => "wrong-suffix".into(), Outcome::Other(_) => "not-a-suffix".into() }),
                        what: format!("db {}: reading from existing block {k} (slot {}) gave {out:?}, expected the suffix from block {k}", db.label, c.slot),
                        replay: cj,
                    });
                } else if samples.len() < 3 && k % 401 == 7 {
                    samples.push(json!({"case": cj, "outcome": format!("{out:?}")}));
                }
            }
            Kind::Fuzzy => {
                let k = db.imm.iter().position(|r| fx.slot(*r) >= c.slot).unwrap();
                distinct_expected.insert((c.db, Some(k)));
                nontrivial.insert((c.db, 1, c.slot, vec![]));
                // the chunk the binary search has to pick differs from the chunk of the answer
                let chunk_of_slot = c.slot / 21600;
                if fx.chunks[db.imm[k].chunk].number() != chunk_of_slot {
                    cross_chunk_fuzzy += 1;
                }
                if *out != Outcome::Suffix(k) {
                    viols.push(Viol {
                        fp: format!("C42:fuzzy-point:{}", match out { Outcome::Err(e) => format!("error-{e}"), Outcome::Suffix(_) => "wrong-suffix".into(), Outcome::Other(_) => "not-a-suffix".into() }),
                        what: format!("db {}: fuzzy read from slot {} gave {out:?}, first block at or after it is block {k} (slot {})", db.label, c.slot, fx.slot(db.imm[k])),
                        replay: cj,
                    });
                } else if samples.len() < 6 && c.slot % 977 == 3 {
                    samples.push(json!({"case": cj, "outcome": format!("{out:?}")}));
                }
            }
            Kind::FuzzyOutside => {
                // not in the quantifier ("every slot in and between blocks"): logged only
                let o = match out {
                    Outcome::Err(e) => format!("error {e}"),
                    Outcome::Suffix(k) if *k == n => "empty iterator".to_string(),
                    Outcome::Suffix(0) => "whole database".to_string(),
                    Outcome::Suffix(_) => "inner suffix".to_string(),
                    Outcome::Other(_) => "other".to_string(),
                };
                *diag_outside.entry(format!("{pos_class} -> {o}")).or_default() += 1;
            }
            Kind::Absent => {
                distinct_expected.insert((c.db, None));
                nontrivial.insert((c.db, 2, c.slot, c.hash.clone()));
                match out {
                    Outcome::Err(_) => {
                        if samples.len() < 8 && c.slot % 1013 == 5 {
                            samples.push(json!({"case": cj, "outcome": format!("{out:?}")}));
                        }
                    }
                    ok => {
                        let got = match ok {
                            Outcome::Suffix(k) if *k == n => "an empty iterator".to_string(),
                            Outcome::Suffix(k) => format!("the suffix from block {k}"),
                            o => format!("{o:?}"),
                        };
                        viols.push(Viol {
                            fp: format!("C42:absent-exact-point-accepted:{pos_class}"),
                            what: format!("db {}: read_blocks_from_point(Specific({}, {})) [{}] is not a block of the database but returned Ok with {got}", db.label, c.slot, hex::encode(&c.hash), c.how),
                            replay: cj,
                        });
                    }
                }
            }
        }
    }
    for (i, db) in dbs.iter().enumerate() {
        per_db.push(json!({
            "chunks": db.names, "immutable_blocks": db.imm.len(),
            "exact": cases.iter().filter(|c| c.db == i && c.kind == Kind::Exact).count(),
            "fuzzy_in_range": cases.iter().filter(|c| c.db == i && c.kind == Kind::Fuzzy).count(),
            "fuzzy_outside_diagnostic": cases.iter().filter(|c| c.db == i && c.kind == Kind::FuzzyOutside).count(),
            "absent": cases.iter().filter(|c| c.db == i && c.kind == Kind::Absent).count(),
        }));
    }

    // ---- vacuity guards
    let total_imm: usize = dbs.iter().map(|d| d.imm.len()).sum();
    let exact_ok = cases.iter().zip(results.iter()).filter(|(c, r)| c.kind == Kind::Exact && matches!(r, Ok(Outcome::Suffix(_)))).count();
    if dbs.len() != 6 || total_imm != 864 + 913 + 1777 || counts.get("Exact").copied().unwrap_or(0) as usize != total_imm {
        scratch.fail(&format!("C42 enumeration incomplete: dbs={} immutable blocks={total_imm}", dbs.len()));
    }
    if exact_ok == 0 || counts.get("Fuzzy").copied().unwrap_or(0) == 0 || counts.get("Absent").copied().unwrap_or(0) == 0 || cross_chunk_fuzzy == 0 {
        scratch.fail("C42 vacuous: no accepted exact point / no fuzzy point / no absent point / no fuzzy point crossing a chunk boundary");
    }

    // first witness per fingerprint = first in enumeration order (deterministic; results were collected in case order)
    for v in viols {
        ctx.violation(v.fp, v.what, v.replay);
    }
    scratch.cleanup();
    let cov = cov! {
        "evaluations" => evals,
        "distinct_nontrivial" => nontrivial.len(),
        "rule" => "evaluation = one read_blocks / get_tip / read_blocks_from_point call on a scratch database, its whole result compared item by item with the reference list (chunk files split at CBOR item boundaries by refcbor; slot from the header body, hash = own Blake2b-256 of the header item, both cross-checked with the secondary index and CRC-32); non-trivial = distinct (database, point) in the property's domain (exact, fuzzy between first and last block, absent) whose outcome was compared with the expected suffix index or expected failure",
        "samples" => samples,
        "exhaustive" => true,
        "databases" => per_db,
        "point_reads_by_kind" => counts,
        "distinct_expected_outcomes" => distinct_expected.len(),
        "fuzzy_points_answered_from_a_later_chunk" => cross_chunk_fuzzy,
        "diagnostic_fuzzy_points_outside_block_range" => diag_outside,
        "absent_points" => if ctx.thorough { "per block: flipped hash bit, slot+1, slot-1, another block's hash, 31-byte hash, 33-byte hash; every block of the last chunk" } else { "on every 4th block and both ends of each chunk: flipped hash bit, slot+1, slot-1; on every 16th block and the ends also another block's hash, 31-byte hash, 33-byte hash; every 16th block of the last chunk" },
        "fuzzy_stride" => if ctx.thorough { "every slot of the epochs of the immutable chunks + every block slot +-1, midpoints, chunk boundaries" } else { "two-chunk databases: every block slot +-1; three-chunk database: every 4th block slot +-1 and both ends of each chunk; chunk boundaries +-1" },
    };
    ctx.finish(
        Level::Exploration,
        cov,
        &[
            "the three chunk triplets under /repo/test_data are a valid immutable DB (checked: CBOR item boundaries == secondary offsets, CRC-32, header hashes, slots, primary occupancy)",
            "the last chunk of a database is not immutable and is never served (build_stack_of_chunk_names); 'every block of its immutable chunks' = all chunks but the last",
            "fuzzy points before the first or after the last immutable block are outside 'every slot in and between blocks' and only logged",
            "fixture 02019 is not a consistent triplet (5 blocks in the chunk file, 15 secondary entries, 1 occupied primary slot); in every contiguous subset that contains it it is the last chunk, which pallas never opens, so it only contributes absent points and never served blocks",
            "all test blocks are Babbage-era; Byron/EBB chunks (equal slots) are not in the fixtures",
        ],
    )
}
