//! C43 — immutable-DB readers report corrupted files as errors, never panic.
//! FAULT enumeration: every single fault of a stated family (every truncation
//! length of each of the three files, offset substitutions in every secondary
//! and primary entry, single-bit flips of the first entries) is applied to a
//! scratch copy of a small database, which is then read through every public
//! reader. Because a corrupted offset can request an absurd allocation (which
//! aborts the process instead of panicking), faulted databases are only ever
//! read in worker SUBPROCESSES (this binary re-invoked with `__c43-worker`);
//! the worker journals fault id and reader before each call, so a crash,
//! abort or hang is attributed to exactly one (fault, reader).

use crate::db::{self, Scratch, SEC_ENTRY};
use mc_core::{catch, cov, json, Ctx, Level, Value};
use pallas_hardano::storage::immutable::{self, chunk, primary, secondary, Point};
use rayon::prelude::*;
use std::collections::{BTreeMap, BTreeSet};
use std::io::{BufRead, BufReader, Read, Write};
use std::path::{Path, PathBuf};
use std::process::{Command, Stdio};
use std::sync::mpsc;
use std::time::Duration;

/// Name of the faulted chunk inside a scratch DB and of the intact chunk that
/// follows it (so that the faulted one is "immutable" and gets served).
const LAST: &str = "99999";
const OPS: [&str; 11] = [
    "primary::Reader",
    "secondary::read_entries",
    "chunk::read_blocks",
    "read_blocks",
    "get_tip",
    "read_blocks_from_point(first block)",
    "read_blocks_from_point(middle block)",
    "read_blocks_from_point(last block)",
    "read_blocks_from_point(fuzzy middle)",
    "read_blocks_from_point(fuzzy before first)",
    "read_blocks_from_point(Origin)",
];
const PER_FAULT_TIMEOUT: Duration = Duration::from_secs(60);

// ------------------------------------------------------------------ bases

pub struct Base {
    pub label: &'static str,
    pub name: String,
    pub chunk: Vec<u8>,
    pub primary: Vec<u8>,
    pub secondary: Vec<u8>,
    /// (slot, hash) used to build the start points (from the reference reader)
    pub points: Vec<(u64, [u8; 32])>,
    /// the three files agree with each other (an intact database)
    pub consistent: bool,
    /// fault families applied: 0 = none (read as is), 1 = index files only, 2 = all
    pub families: u8,
}

/// The first `k` blocks of a large (consistent) chunk as a self-contained,
/// consistent triplet.
fn base_head(label: &'static str, chunk: &str, k: usize) -> Result<Base, String> {
    let c = db::load_chunk(chunk)?;
    let end = c.blocks[k].offset;
    let sec_end = (k * SEC_ENTRY) as u32;
    let offs = db::primary_offsets(&c.primary);
    let j = offs.iter().position(|o| *o == sec_end).ok_or("head: no primary offset at the k-th entry")?;
    let primary = c.primary[..1 + 4 * (j + 1)].to_vec();
    let points = c.blocks[..k].iter().map(|b| (b.slot, b.hash)).collect();
    Ok(Base { label, name: c.name.clone(), chunk: c.chunk[..end].to_vec(), primary, secondary: c.secondary[..k * SEC_ENTRY].to_vec(), points, consistent: true, families: 2 })
}

/// A fixture that is itself inconsistent, read as it is.
fn base_as_is(label: &'static str, dir: &str, name: &str, families: u8) -> Result<Base, String> {
    let c = match db::load(Path::new(dir), name, false) {
        Ok(c) => c,
        Err(_) => {
            // not even a CBOR sequence of Shelley-family blocks: raw files, synthetic points
            let rd = |ext: &str| std::fs::read(Path::new(dir).join(format!("{name}.{ext}"))).map_err(|e| format!("{name}.{ext}: {e}"));
            db::RefChunk { name: name.to_string(), chunk: rd("chunk")?, primary: rd("primary")?, secondary: rd("secondary")?, blocks: vec![] }
        }
    };
    let mut points: Vec<(u64, [u8; 32])> = c.blocks.iter().map(|b| (b.slot, b.hash)).collect();
    if points.is_empty() {
        points.push((c.number() * 21600 + 1, [0u8; 32]));
    }
    Ok(Base { label, name: c.name.clone(), chunk: c.chunk, primary: c.primary, secondary: c.secondary, points, consistent: false, families })
}

fn bases(thorough: bool) -> Result<Vec<Base>, String> {
    let mut v = vec![
        base_head("head15-of-01836", "01836", 15)?,
        // 5 blocks in the chunk file, 15 secondary entries, 1 occupied primary slot
        base_as_is("02019-as-is", db::TEST_DATA, "02019", if thorough { 2 } else { 1 })?,
        // pallas' own fixture for Error::InconsistentState
        base_as_is("inconsistent_indexes-10366-as-is", "/repo/test_data/inconsistent_indexes", "10366", 0)?,
    ];
    if thorough {
        v.push(base_head("head20-of-01285", "01285", 20)?);
    }
    Ok(v)
}

// ------------------------------------------------------------------ faults

#[derive(Clone, Debug)]
pub struct Fault {
    pub base: usize,
    /// "primary" | "secondary" | "chunk" | "none"
    pub file: &'static str,
    /// fault family, e.g. "truncate", "block_offset", "offset", "bitflip"
    pub family: &'static str,
    pub detail: String,
    /// None = truncate to `at`; Some(bytes) = overwrite at `at`
    pub at: usize,
    pub bytes: Option<Vec<u8>>,
}

impl Fault {
    fn to_line(&self) -> String {
        format!("{} {} {} {} {} {}", self.base, self.file, self.family, self.at, self.bytes.as_ref().map(hex::encode).unwrap_or_else(|| "-".into()), self.detail.replace(' ', "_"))
    }
    fn from_line(l: &str) -> Option<Fault> {
        let p: Vec<&str> = l.split(' ').collect();
        if p.len() != 6 {
            return None;
        }
        let st = |s: &str| -> &'static str {
            match s {
                "primary" => "primary",
                "secondary" => "secondary",
                "chunk" => "chunk",
                "truncate" => "truncate",
                "block_offset" => "block_offset",
                "offset" => "offset",
                "bitflip" => "bitflip",
                _ => "none",
            }
        };
        Some(Fault { base: p[0].parse().ok()?, file: st(p[1]), family: st(p[2]), at: p[3].parse().ok()?, bytes: if p[4] == "-" { None } else { Some(hex::decode(p[4]).ok()?) }, detail: p[5].to_string() })
    }
    fn class(&self) -> String {
        if self.file == "none" {
            return "fixture.as-is".into();
        }
        format!("{}.{}", self.file, self.family)
    }
    fn json(&self, bases: &[Base]) -> Value {
        json!({"base": bases[self.base].label, "file": self.file, "family": self.family, "detail": self.detail, "at": self.at, "bytes": self.bytes.as_ref().map(hex::encode), "spec": self.to_line()})
    }
    fn apply(&self, b: &Base) -> Option<(&'static str, Vec<u8>)> {
        let src = match self.file {
            "primary" => &b.primary,
            "secondary" => &b.secondary,
            "chunk" => &b.chunk,
            _ => return None,
        };
        let mut v = src.clone();
        match &self.bytes {
            None => v.truncate(self.at),
            Some(x) => {
                if self.at + x.len() > v.len() {
                    return None;
                }
                v[self.at..self.at + x.len()].copy_from_slice(x);
            }
        }
        Some((self.file, v))
    }
}

fn faults_for(bi: usize, b: &Base, thorough: bool) -> Vec<Fault> {
    let mut v = vec![];
    if b.families == 0 {
        return v;
    }
    // every truncation length of each file
    for (file, len) in [("primary", b.primary.len()), ("secondary", b.secondary.len()), ("chunk", b.chunk.len())] {
        if file == "chunk" && b.families < 2 {
            continue;
        }
        // index files: every truncation length. Chunk file: every length (thorough); quick =
        // the first 64 lengths, every block boundary (secondary offsets) -2..=+2, every 64th length
        let boundaries: BTreeSet<usize> = (0..b.secondary.len() / SEC_ENTRY).map(|e| db::sec_offset(&b.secondary, e) as usize).collect();
        for l in 0..len {
            if file == "chunk" && !thorough && !(l < 64 || l % 64 == 0 || l + 2 >= len || (l.saturating_sub(2)..=l + 2).any(|x| boundaries.contains(&x))) {
                continue;
            }
            v.push(Fault { base: bi, file, family: "truncate", detail: format!("to {l} of {len} bytes"), at: l, bytes: None });
        }
    }
    // secondary block_offset substitutions
    let n = b.secondary.len() / SEC_ENTRY;
    let flen = b.chunk.len() as u64;
    for e in 0..n {
        let orig = db::sec_offset(&b.secondary, e);
        let mut vals: Vec<(u64, &str)> = vec![(0, "0")];
        if e > 0 {
            let prev = db::sec_offset(&b.secondary, e - 1);
            vals.push((prev.wrapping_sub(1), "prev-1"));
            vals.push((prev, "prev"));
        }
        if e + 1 < n {
            vals.push((db::sec_offset(&b.secondary, e + 1) + 1, "next+1"));
        }
        vals.extend([(flen, "file_len"), (flen + 1, "file_len+1"), (1 << 32, "2^32"), (1 << 63, "2^63"), (u64::MAX, "2^64-1")]);
        let mut seen = BTreeSet::new();
        for (val, lab) in vals {
            if val != orig && seen.insert(val) {
                v.push(Fault { base: bi, file: "secondary", family: "block_offset", detail: format!("entry {e}: {orig} -> {lab} = {val}"), at: e * SEC_ENTRY, bytes: Some(val.to_be_bytes().to_vec()) });
            }
        }
    }
    // primary offset substitutions
    let offs = db::primary_offsets(&b.primary);
    for (i, orig) in offs.iter().enumerate() {
        let mut vals: Vec<(u32, &str)> = vec![(0, "0")];
        if i > 0 {
            vals.push((offs[i - 1].wrapping_sub(1), "prev-1"));
        }
        vals.extend([(orig.wrapping_add(1), "+1"), (u32::MAX, "2^32-1")]);
        let mut seen = BTreeSet::new();
        for (val, lab) in vals {
            if val != *orig && seen.insert(val) {
                v.push(Fault { base: bi, file: "primary", family: "offset", detail: format!("offset {i}: {orig} -> {lab} = {val}"), at: 1 + 4 * i, bytes: Some(val.to_be_bytes().to_vec()) });
            }
        }
    }
    // every single-bit flip of the version byte + first 2 entries of each index
    for (file, src, upto) in [("primary", &b.primary, 9usize), ("secondary", &b.secondary, 2 * SEC_ENTRY)] {
        for pos in 0..upto.min(src.len()) {
            for bit in 0..8 {
                v.push(Fault { base: bi, file, family: "bitflip", detail: format!("byte {pos} bit {bit}"), at: pos, bytes: Some(vec![src[pos] ^ (1 << bit)]) });
            }
        }
    }
    v
}

// ------------------------------------------------------------------ worker

fn fnv(h: &mut u64, data: &[u8]) {
    for b in data {
        *h ^= *b as u64;
        *h = h.wrapping_mul(0x100000001b3);
    }
}

fn variant(dbg: String) -> String {
    let mut out = String::new();
    for c in dbg.chars() {
        if c.is_alphanumeric() || c == '(' {
            out.push(c);
        } else {
            break;
        }
    }
    // keep one level of nesting: `ChunkReadError(CannotReadBlock`
    if let Some(i) = out.find('(') {
        let (a, b) = out.split_at(i);
        let inner: String = dbg[i + 1..].chars().take_while(|c| c.is_alphanumeric()).collect();
        let _ = b;
        return format!("{a}({inner})");
    }
    out
}

/// Drain an iterator of results with a cap; summarise as
/// `ok=<n> err=<n> first_err=<variant> len=<bytes> fnv=<hash>`.
fn drain<T, E: std::fmt::Debug>(it: impl Iterator<Item = Result<T, E>>, cap: usize, bytes: impl Fn(&T) -> Vec<u8>) -> String {
    let (mut ok, mut err, mut len, mut h) = (0usize, 0usize, 0usize, 0xcbf29ce484222325u64);
    let mut first_err = String::from("-");
    let mut items = 0usize;
    for x in it {
        items += 1;
        if items > cap {
            return format!("NONTERMINATION after {cap} items");
        }
        match x {
            Ok(v) => {
                ok += 1;
                let b = bytes(&v);
                len += b.len();
                fnv(&mut h, &(b.len() as u64).to_be_bytes());
                fnv(&mut h, &b);
            }
            Err(e) => {
                err += 1;
                if first_err == "-" {
                    first_err = variant(format!("{e:?}"));
                }
            }
        }
    }
    format!("ok={ok} err={err} first_err={first_err} len={len} fnv={h:016x}")
}

fn run_op(op: usize, dir: &Path, name: &str, b: &Base) -> String {
    let cap = 8 * (b.points.len() + 8) + b.primary.len();
    let n = b.points.len();
    let from_point = |p: Point| match immutable::read_blocks_from_point(dir, p) {
        Err(e) => format!("Err({})", variant(format!("{e:?}"))),
        Ok(it) => drain(it, cap, |v: &Vec<u8>| v.clone()),
    };
    match op {
        0 => match std::fs::File::open(dir.join(format!("{name}.primary"))) {
            Err(e) => format!("open failed: {e}"),
            Ok(f) => match primary::Reader::open(f) {
                Err(e) => format!("Err({})", variant(format!("{e:?}"))),
                Ok(r) => drain(r, cap, |e: &primary::Entry| format!("{e:?}").into_bytes()),
            },
        },
        1 => match secondary::read_entries(dir, name) {
            Err(e) => format!("Err({})", variant(format!("{e:?}"))),
            Ok(r) => drain(r, cap, |e: &secondary::Entry| format!("{e:?}").into_bytes()),
        },
        2 => match chunk::read_blocks(dir, name) {
            Err(e) => format!("Err({})", variant(format!("{e:?}"))),
            Ok(r) => drain(r, cap, |v: &Vec<u8>| v.clone()),
        },
        3 => match immutable::read_blocks(dir) {
            Err(e) => format!("Err({})", variant(format!("{e:?}"))),
            Ok(r) => drain(r, cap, |v: &Vec<u8>| v.clone()),
        },
        4 => match immutable::get_tip(dir) {
            Err(e) => format!("Err({})", variant(format!("{e:?}"))),
            Ok(t) => format!("Ok({t:?})"),
        },
        5 => from_point(Point::Specific(b.points[0].0, b.points[0].1.to_vec())),
        6 => from_point(Point::Specific(b.points[n / 2].0, b.points[n / 2].1.to_vec())),
        7 => from_point(Point::Specific(b.points[n - 1].0, b.points[n - 1].1.to_vec())),
        8 => from_point(Point::Specific(b.points[n / 2].0 + 1, vec![])),
        9 => from_point(Point::Specific(b.points[0].0 - 1, vec![])),
        _ => from_point(Point::Origin),
    }
}

/// `mc-hardano __c43-worker <dir> <specfile> <start> <end> <from_op> <tier> <stride>`:
/// handles faults start, start+stride, .. < end; the first one from reader `from_op`.
pub fn worker(args: &[String]) -> ! {
    let fail = |m: &str| -> ! {
        eprintln!("WORKER-FAILURE: {m}");
        std::process::exit(3)
    };
    if args.len() != 7 {
        fail("usage");
    }
    let stride: usize = args[6].parse().unwrap_or(1).max(1);
    let dir = PathBuf::from(&args[0]);
    let spec = std::fs::read_to_string(&args[1]).unwrap_or_else(|e| fail(&format!("spec: {e}")));
    let (start, end, from_op): (usize, usize, usize) = (args[2].parse().unwrap_or(0), args[3].parse().unwrap_or(0), args[4].parse().unwrap_or(0));
    let bases = bases(args[5] == "thorough").unwrap_or_else(|e| fail(&e));
    let lines: Vec<&str> = spec.lines().collect();
    let out = std::io::stdout();
    let say = |s: String| {
        let mut o = out.lock();
        let _ = writeln!(o, "{s}");
        let _ = o.flush();
    };
    if std::fs::create_dir_all(&dir).is_err() {
        fail("mkdir");
    }
    let mut current_base = usize::MAX;
    for idx in (start..end.min(lines.len())).step_by(stride) {
        let Some(f) = Fault::from_line(lines[idx]) else { fail(&format!("bad spec line {idx}")) };
        let Some(b) = bases.get(f.base) else { fail("bad base") };
        if current_base != f.base {
            // fresh copy of the base + an intact later chunk that makes it immutable
            let _ = std::fs::remove_dir_all(&dir);
            let ok = std::fs::create_dir_all(&dir).is_ok()
                && db::write_triplet(&dir, &b.name, &b.chunk, &b.primary, &b.secondary).is_ok()
                && db::write_triplet(&dir, LAST, &b.chunk, &b.primary, &b.secondary).is_ok();
            if !ok {
                fail("cannot materialise the base database");
            }
            current_base = f.base;
        }
        say(format!("B {idx}"));
        let faulted = f.apply(b);
        if let Some((file, data)) = &faulted {
            if std::fs::write(dir.join(format!("{}.{file}", b.name)), data).is_err() {
                fail("cannot write the faulted file");
            }
        } else if f.file != "none" {
            fail(&format!("fault {idx} does not apply"));
        }
        let first_op = if idx == start { from_op } else { 0 };
        for op in first_op..OPS.len() {
            say(format!("O {idx} {op}"));
            let r = match catch(|| run_op(op, &dir, &b.name, b)) {
                Ok(s) => json!({"op": op, "out": s}),
                Err(p) => json!({"op": op, "panic": {"site": db::normalize_site(&p.site()), "message": p.message, "location": db::normalize_site(&p.location)}}),
            };
            say(format!("R {idx} {r}"));
        }
        say(format!("D {idx}"));
        // restore the intact file
        if let Some((file, _)) = &faulted {
            let orig = match *file {
                "primary" => &b.primary,
                "secondary" => &b.secondary,
                _ => &b.chunk,
            };
            if std::fs::write(dir.join(format!("{}.{file}", b.name)), orig).is_err() {
                fail("cannot restore");
            }
        }
    }
    say("E".into());
    std::process::exit(0)
}

// ------------------------------------------------------------------ parent

#[derive(Debug, Clone)]
enum OpResult {
    Out(String),
    Panic { site: String, message: String, location: String },
    /// the worker died / hung inside this op
    Crash { how: String, class: String, stderr_tail: String },
    /// not run: an earlier reader of the same fault killed the worker (quick tier)
    Skipped,
}

struct BatchOut {
    /// (fault idx, op) -> result
    results: BTreeMap<(usize, usize), OpResult>,
    spawns: u64,
    machinery: Option<String>,
}

fn signal_name(s: i32) -> String {
    match s {
        4 => "SIGILL".into(),
        6 => "SIGABRT".into(),
        7 => "SIGBUS".into(),
        9 => "SIGKILL".into(),
        11 => "SIGSEGV".into(),
        n => format!("signal{n}"),
    }
}

/// Classify the stderr of a dead worker: which defect killed it.
fn crash_class(stderr: &str) -> String {
    if stderr.contains("memory allocation of") {
        // the allocation probe names the pallas frame that asked for the memory
        let site = stderr.lines().rev().find_map(|l| l.strip_prefix("BIGALLOC ")).map(|l| l.split_once(' ').map(|x| x.1).unwrap_or(l).to_string()).unwrap_or_else(|| "unknown-site".into());
        format!("allocation-failure@{site}")
    } else if stderr.contains("stack overflow") {
        "stack-overflow".into()
    } else {
        "unclassified".into()
    }
}

/// Runs faults start, start+stride, .. < end in worker processes. `resume` =
/// after a reader killed the worker, run the remaining readers of that fault
/// in a fresh worker (otherwise they are recorded as `Skipped`).
fn run_batch(exe: &Path, dir: &Path, spec: &Path, start: usize, end: usize, stride: usize, tier: &str, resume: bool) -> BatchOut {
    use std::os::unix::process::ExitStatusExt;
    let mut out = BatchOut { results: BTreeMap::new(), spawns: 0, machinery: None };
    let (mut idx, mut from_op) = (start, 0usize);
    while idx < end {
        out.spawns += 1;
        let mut child = match Command::new(exe)
            .arg("__c43-worker")
            .arg(dir)
            .arg(spec)
            .arg(idx.to_string())
            .arg(end.to_string())
            .arg(from_op.to_string())
            .arg(tier)
            .arg(stride.to_string())
            .env("RUST_BACKTRACE", "0")
            .stdin(Stdio::null())
            .stdout(Stdio::piped())
            .stderr(Stdio::piped())
            .spawn()
        {
            Ok(c) => c,
            Err(e) => {
                out.machinery = Some(format!("cannot spawn worker: {e}"));
                return out;
            }
        };
        let stdout = child.stdout.take().unwrap();
        let mut stderr = child.stderr.take().unwrap();
        let (tx, rx) = mpsc::channel::<String>();
        let t_out = std::thread::spawn(move || {
            for l in BufReader::new(stdout).lines().map_while(Result::ok) {
                if tx.send(l).is_err() {
                    break;
                }
            }
        });
        let t_err = std::thread::spawn(move || {
            let mut s = Vec::new();
            let _ = stderr.read_to_end(&mut s);
            String::from_utf8_lossy(&s).to_string()
        });
        let mut cur: Option<(usize, Option<usize>)> = None; // (fault, op in flight)
        let mut finished = false;
        let mut timed_out = false;
        loop {
            match rx.recv_timeout(PER_FAULT_TIMEOUT) {
                Ok(l) => {
                    let mut p = l.splitn(3, ' ');
                    match (p.next(), p.next(), p.next()) {
                        (Some("B"), Some(i), _) => cur = i.parse().ok().map(|i| (i, None)),
                        (Some("O"), Some(i), Some(o)) => cur = Some((i.parse().unwrap_or(0), o.parse().ok())),
                        (Some("R"), Some(i), Some(js)) => {
                            let i: usize = i.parse().unwrap_or(0);
                            let v: Value = mc_core::serde_json::from_str(js).unwrap_or(Value::Null);
                            let op = v["op"].as_u64().unwrap_or(0) as usize;
                            let r = if let Some(s) = v["out"].as_str() {
                                OpResult::Out(s.to_string())
                            } else {
                                OpResult::Panic {
                                    site: v["panic"]["site"].as_str().unwrap_or("?").to_string(),
                                    message: v["panic"]["message"].as_str().unwrap_or("?").to_string(),
                                    location: v["panic"]["location"].as_str().unwrap_or("?").to_string(),
                                }
                            };
                            out.results.insert((i, op), r);
                            cur = Some((i, None));
                        }
                        (Some("D"), Some(i), _) => cur = i.parse::<usize>().ok().map(|i| (i + stride, None)),
                        (Some("E"), _, _) => finished = true,
                        _ => {}
                    }
                }
                Err(mpsc::RecvTimeoutError::Timeout) => {
                    timed_out = true;
                    let _ = child.kill();
                    break;
                }
                Err(mpsc::RecvTimeoutError::Disconnected) => break,
            }
        }
        let status = child.wait();
        let _ = t_out.join();
        let stderr_s = t_err.join().unwrap_or_default();
        if finished && matches!(&status, Ok(s) if s.success()) {
            return out;
        }
        // the worker died: attribute it to the journaled (fault, op)
        let (how, class) = if timed_out {
            (format!("no progress for {} s (killed)", PER_FAULT_TIMEOUT.as_secs()), "timeout".to_string())
        } else {
            match &status {
                Ok(s) if s.signal().is_some() => {
                    let sig = signal_name(s.signal().unwrap());
                    (format!("killed by {sig}"), format!("abort:{sig}:{}", crash_class(&stderr_s)))
                }
                Ok(s) if s.code() == Some(3) => {
                    out.machinery = Some(format!("worker failure: {}", stderr_s.trim()));
                    return out;
                }
                Ok(s) => (format!("exit status {:?}", s.code()), format!("exit:{:?}:{}", s.code(), crash_class(&stderr_s))),
                Err(e) => {
                    out.machinery = Some(format!("wait: {e}"));
                    return out;
                }
            }
        };
        match cur {
            Some((i, Some(op))) => {
                let tail: Vec<&str> = stderr_s.lines().filter(|l| !l.trim().is_empty()).collect();
                let tail = tail[tail.len().saturating_sub(4)..].join(" | ");
                out.results.insert((i, op), OpResult::Crash { how, class, stderr_tail: tail });
                // resume after the op that killed the worker
                if resume && op + 1 < OPS.len() {
                    idx = i;
                    from_op = op + 1;
                } else {
                    for o in op + 1..OPS.len() {
                        out.results.insert((i, o), OpResult::Skipped);
                    }
                    idx = i + stride;
                    from_op = 0;
                }
            }
            _ => {
                out.machinery = Some(format!("worker died outside a reader call ({how}); stderr: {}", stderr_s.trim()));
                return out;
            }
        }
    }
    out
}

fn parse_counts(s: &str) -> Option<(usize, usize)> {
    let mut ok = None;
    let mut err = None;
    for t in s.split(' ') {
        if let Some(v) = t.strip_prefix("ok=") {
            ok = v.parse().ok();
        }
        if let Some(v) = t.strip_prefix("err=") {
            err = v.parse().ok();
        }
    }
    Some((ok?, err?))
}

/// Diagnostic class of one reader outcome relative to the intact database.
fn outcome_class(out: &str, baseline: &str) -> &'static str {
    if out == baseline {
        return "same as unfaulted";
    }
    if out.starts_with("Err(") || out.starts_with("open failed") {
        return "error";
    }
    match (parse_counts(out), parse_counts(baseline)) {
        (Some((ok, err)), Some((bok, _))) => {
            if err > 0 {
                "error item"
            } else if ok < bok {
                "fewer items, no error"
            } else if ok > bok {
                "more items, no error"
            } else {
                "same count, different content, no error"
            }
        }
        _ => "different value, no error",
    }
}

pub fn run(ctx: Ctx) -> ! {
    let scratch = Scratch::new("c43");
    let bases = bases(ctx.thorough).unwrap_or_else(|e| scratch.fail(&format!("reference reader: {e}")));
    let exe = std::env::current_exe().unwrap_or_else(|e| scratch.fail(&format!("current_exe: {e}")));
    let spec = scratch.0.join("faults.spec");

    // fault 0..bases.len(): the identity (baseline) per base
    let mut faults: Vec<Fault> = (0..bases.len()).map(|bi| Fault { base: bi, file: "none", family: "none", detail: "intact".into(), at: 0, bytes: None }).collect();
    if let Some(p) = &ctx.replay {
        let v: Value = std::fs::read_to_string(p).ok().and_then(|s| mc_core::serde_json::from_str(&s).ok()).unwrap_or_else(|| scratch.fail("cannot read replay file"));
        let line = v["case"]["fault"]["spec"].as_str().unwrap_or("");
        let f = Fault::from_line(line).unwrap_or_else(|| scratch.fail("replay: no fault spec"));
        if f.base >= bases.len() {
            scratch.fail("replay: this fault needs --tier thorough");
        }
        faults = vec![f];
    } else {
        for (bi, b) in bases.iter().enumerate() {
            faults.extend(faults_for(bi, b, ctx.thorough));
        }
    }
    let body: String = faults.iter().map(|f| f.to_line() + "\n").collect();
    if let Err(e) = std::fs::write(&spec, body) {
        scratch.fail(&format!("spec: {e}"));
    }

    // worker w handles faults w, w+stride, ..: the (slow) crashing faults, which are
    // neighbours in the enumeration, get spread over all workers
    let stride = (rayon::current_num_threads().max(1) * 4).min(faults.len()).max(1);
    let resume = ctx.thorough || ctx.replay.is_some();
    let outs: Vec<BatchOut> = (0..stride)
        .into_par_iter()
        .map(|w| run_batch(&exe, &scratch.0.join(format!("w{w}")), &spec, w, faults.len(), stride, ctx.tier(), resume))
        .collect();
    let mut results: BTreeMap<(usize, usize), OpResult> = BTreeMap::new();
    let mut spawns = 0u64;
    for o in outs {
        if let Some(m) = o.machinery {
            scratch.fail(&format!("C43 worker machinery: {m}"));
        }
        spawns += o.spawns;
        results.extend(o.results);
    }

    if ctx.replay.is_some() {
        for ((_, op), r) in &results {
            println!("replay C43 {} -> {r:?}", OPS[*op]);
        }
        scratch.cleanup();
        std::process::exit(0);
    }

    // ---- every (fault, op) must have exactly one result
    for i in 0..faults.len() {
        for op in 0..OPS.len() {
            if !results.contains_key(&(i, op)) {
                scratch.fail(&format!("C43: no result for fault {i} ({}) reader {}", faults[i].to_line(), OPS[op]));
            }
        }
    }
    // ---- baselines: an intact database must read completely (otherwise the
    // harness, not pallas, is at fault); as-is fixtures have no expectation
    let mut baseline: Vec<Vec<String>> = vec![];
    let mut as_is_notes: Vec<Value> = vec![];
    for (bi, b) in bases.iter().enumerate() {
        let mut row = vec![];
        for op in 0..OPS.len() {
            match &results[&(bi, op)] {
                OpResult::Out(s) => row.push(s.clone()),
                r if b.consistent => scratch.fail(&format!("C43: intact base {} reader {} gave {r:?}", b.label, OPS[op])),
                _ => row.push("<no value>".into()),
            }
        }
        if b.consistent {
            let n = b.points.len();
            let want_tip = format!("Ok(Some(({}, {})))", b.points[n - 1].0, hex::encode(b.points[n - 1].1));
            let counts_ok = parse_counts(&row[1]) == Some((n, 0))
                && parse_counts(&row[2]) == Some((n, 0))
                && parse_counts(&row[3]) == Some((n, 0))
                && parse_counts(&row[5]) == Some((n, 0))
                && parse_counts(&row[6]) == Some((n - n / 2, 0))
                && parse_counts(&row[7]) == Some((1, 0))
                && parse_counts(&row[8]) == Some((n - n / 2 - 1, 0));
            if !counts_ok || row[4] != want_tip {
                scratch.fail(&format!("C43: intact base {} does not read as expected: {row:?}", b.label));
            }
        } else {
            as_is_notes.push(json!({"base": b.label, "outcomes": OPS.iter().zip(row.iter()).map(|(o, r)| format!("{o}: {r}")).collect::<Vec<_>>()}));
        }
        baseline.push(row);
    }

    // ---- verdicts + diagnostics
    let mut evals = 0u64;
    let mut skipped = 0u64;
    let mut affected: BTreeSet<usize> = BTreeSet::new();
    let mut classes: BTreeMap<String, BTreeMap<String, u64>> = BTreeMap::new();
    let mut by_family: BTreeMap<String, u64> = BTreeMap::new();
    let mut samples: Vec<Value> = vec![];
    let mut distinct_outcomes: BTreeSet<(usize, String)> = BTreeSet::new();
    for (i, f) in faults.iter().enumerate() {
        if f.file == "none" && bases[f.base].consistent {
            continue; // the intact baseline, checked above
        }
        *by_family.entry(format!("{}:{}", bases[f.base].label, f.class())).or_default() += 1;
        for op in 0..OPS.len() {
            evals += 1;
            let case = json!({"fault": f.json(&bases), "reader": OPS[op]});
            match &results[&(i, op)] {
                OpResult::Out(s) => {
                    if s.starts_with("NONTERMINATION") {
                        ctx.violation(format!("nontermination:{}:{}", OPS[op], f.class()), format!("{} on a database with {} {} ({}) did not end: {s}", OPS[op], f.file, f.family, f.detail), case);
                        continue;
                    }
                    let cl = if f.file == "none" { "as-is fixture" } else { outcome_class(s, &baseline[f.base][op]) };
                    if cl != "same as unfaulted" {
                        affected.insert(i);
                    }
                    *classes.entry(f.class()).or_default().entry(cl.to_string()).or_default() += 1;
                    let shape: String = s.split(" len=").next().unwrap_or(s).chars().take(60).collect();
                    if distinct_outcomes.insert((op, shape)) && samples.len() < 12 && cl != "same as unfaulted" {
                        samples.push(json!({"fault": f.to_line(), "reader": OPS[op], "outcome": s, "class": cl}));
                    }
                }
                OpResult::Panic { site, message, location } => {
                    affected.insert(i);
                    *classes.entry(f.class()).or_default().entry("PANIC".into()).or_default() += 1;
                    ctx.violation(site.clone(), format!("{} panicked on a database whose {} file has {} ({}): {message} at {location}", OPS[op], f.file, f.family, f.detail), case);
                }
                OpResult::Skipped => {
                    evals -= 1;
                    skipped += 1;
                }
                OpResult::Crash { how, class, stderr_tail } => {
                    affected.insert(i);
                    *classes.entry(f.class()).or_default().entry("CRASH".into()).or_default() += 1;
                    ctx.violation(class.clone(), format!("{} neither returned a value nor an error on a database whose {} file has {} ({}): worker process {how}; stderr: {stderr_tail}", OPS[op], f.file, f.family, f.detail), case);
                }
            }
        }
    }
    let nfaults = faults.len() - bases.iter().filter(|b| b.consistent).count();
    let errors_seen: u64 = classes.values().flat_map(|m| m.iter()).filter(|(k, _)| k.starts_with("error")).map(|(_, v)| *v).sum();
    let fewer_seen: u64 = classes.values().flat_map(|m| m.iter()).filter(|(k, _)| k.starts_with("fewer")).map(|(_, v)| *v).sum();
    if nfaults < 1000 || errors_seen == 0 || fewer_seen == 0 || affected.len() < nfaults / 4 {
        scratch.fail(&format!("C43 vacuous: faults={nfaults} affected={} error outcomes={errors_seen} fewer-block outcomes={fewer_seen}", affected.len()));
    }
    scratch.cleanup();
    let cov = cov! {
        "evaluations" => evals,
        "distinct_nontrivial" => affected.len(),
        "rule" => "evaluation = one public reader (11 per fault: primary::Reader, secondary::read_entries, chunk::read_blocks, read_blocks, get_tip, read_blocks_from_point x 6 points) drained to the end in a worker subprocess on a scratch database with exactly one fault; non-trivial = distinct faults for which at least one reader's outcome (item counts, first error, content hash, panic, crash) differs from the intact database",
        "samples" => samples,
        "exhaustive" => true,
        "faults" => nfaults,
        "chunk_truncation_lengths" => if ctx.thorough { "every length" } else { "first 64 lengths, every block boundary -2..=+2, every 64th length, last 2 (index files: every length in both tiers)" },
        "faults_by_base_and_family" => by_family,
        "readers" => OPS,
        "worker_processes" => spawns,
        "readers_not_run_after_a_reader_killed_the_worker" => skipped,
        "after_a_crash" => if resume { "the remaining readers of the fault are run in a fresh worker" } else { "the remaining readers of that fault are skipped (quick tier) and not counted as evaluations" },
        "distinct_outcome_shapes" => distinct_outcomes.len(),
        "diagnostic_outcome_classes_by_fault_family" => classes,
        "as_is_fixture_outcomes" => as_is_notes,
        "bases" => bases.iter().map(|b| json!({"label": b.label, "chunk": b.name, "consistent": b.consistent, "fault_families": (match b.families { 0 => "none (read as is)", 1 => "index files only", _ => "all" }), "reference_blocks": b.points.len(), "chunk_bytes": b.chunk.len(), "primary_bytes": b.primary.len(), "secondary_bytes": b.secondary.len()})).collect::<Vec<_>>(),
    };
    ctx.finish(
        Level::FaultEnumeration,
        cov,
        &[
            "single faults only (one truncation, one substituted offset or one flipped bit per database)",
            "verdict = every reader ends with values and/or errors: a panic, a process abort/crash or a hang (60 s without progress) is a violation; whether a silently accepted corruption should have been an error is logged per fault family, not judged",
            "built with overflow checks (dev-build semantics): offset subtractions that would wrap in a release build panic here",
            "whether a multi-GiB zeroed allocation succeeds depends on the machine's overcommit policy; 2^63-class requests fail everywhere",
        ],
    )
}
