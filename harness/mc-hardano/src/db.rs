//! Reference view of the immutable-DB test fixtures, independent of pallas:
//! the chunk file is split at CBOR item boundaries with `refcbor`, slot and
//! header hash of every block are read from the CBOR structure (Shelley-family
//! layout `[era, [[header_body, sig], ..]]`, slot = header_body[1], hash =
//! Blake2b-256 of the header item) and cross-checked against the secondary
//! index entry (offset, CRC-32, header hash, slot). Also scratch directories.

use mc_core::{blake2b, misc, refcbor};
use std::path::{Path, PathBuf};

pub const TEST_DATA: &str = "/repo/test_data";
pub const CHUNKS: [&str; 3] = ["01285", "01836", "02019"];
pub const SEC_ENTRY: usize = 56;

#[derive(Clone)]
pub struct RefBlock {
    pub offset: usize,
    pub len: usize,
    pub slot: u64,
    pub hash: [u8; 32],
}

pub struct RefChunk {
    pub name: String,
    pub chunk: Vec<u8>,
    pub primary: Vec<u8>,
    pub secondary: Vec<u8>,
    pub blocks: Vec<RefBlock>,
}

impl RefChunk {
    pub fn bytes(&self, b: &RefBlock) -> &[u8] {
        &self.chunk[b.offset..b.offset + b.len]
    }
    pub fn number(&self) -> u64 {
        self.name.parse().unwrap_or(0)
    }
}

fn be(b: &[u8]) -> u64 {
    b.iter().fold(0u64, |a, x| (a << 8) | *x as u64)
}

pub fn sec_offset(secondary: &[u8], e: usize) -> u64 {
    be(&secondary[e * SEC_ENTRY..e * SEC_ENTRY + 8])
}

pub fn primary_offsets(primary: &[u8]) -> Vec<u32> {
    primary[1..].chunks_exact(4).map(|c| be(c) as u32).collect()
}

/// Strict load of a fixture that must be a consistent triplet.
pub fn load_chunk(name: &str) -> Result<RefChunk, String> {
    load(Path::new(TEST_DATA), name, true)
}

/// `strict` = additionally require that the three files agree with each other
/// (the fixture 02019 does not: 5 blocks in the chunk file, 15 secondary
/// entries, 1 occupied primary slot; pallas' own tests only use it as the
/// last, never-read chunk).
pub fn load(dir: &Path, name: &str, strict: bool) -> Result<RefChunk, String> {
    let rd = |ext: &str| std::fs::read(dir.join(format!("{name}.{ext}"))).map_err(|e| format!("{name}.{ext}: {e}"));
    let chunk = rd("chunk")?;
    let primary = rd("primary")?;
    let secondary = rd("secondary")?;
    let items = refcbor::parse_seq(&chunk).map_err(|e| format!("{name}.chunk is not a CBOR sequence: {e:?}"))?;
    let mut blocks = vec![];
    for it in &items {
        let arr = it.as_array().ok_or("block is not an array")?;
        if arr.len() != 2 {
            return Err(format!("{name}: block wrapper of {} items", arr.len()));
        }
        let era = arr[0].as_u64().ok_or("era tag")?;
        if era < 2 {
            return Err(format!("{name}: Byron block (era {era}) - the reference slot/hash reader only covers the Shelley-family layout"));
        }
        let inner = arr[1].as_array().ok_or("block body")?;
        let header = inner.first().ok_or("header")?;
        let hb = header.as_array().and_then(|h| h.first()).and_then(|x| x.as_array()).ok_or("header body")?;
        let slot = hb.get(1).and_then(|x| x.as_u64()).ok_or("slot")?;
        let hash = blake2b::blake2b_256(header.span(&chunk));
        blocks.push(RefBlock { offset: it.start, len: it.end - it.start, slot, hash });
    }
    for w in blocks.windows(2) {
        if w[0].slot >= w[1].slot {
            return Err(format!("{name}: reference slots not strictly increasing"));
        }
    }
    if !strict {
        return Ok(RefChunk { name: name.to_string(), chunk, primary, secondary, blocks });
    }
    // cross-check against the secondary index (second, unrelated source)
    if secondary.len() % SEC_ENTRY != 0 || secondary.len() / SEC_ENTRY != blocks.len() {
        return Err(format!("{name}: {} CBOR items but secondary index of {} bytes", blocks.len(), secondary.len()));
    }
    for (i, b) in blocks.iter().enumerate() {
        let e = &secondary[i * SEC_ENTRY..(i + 1) * SEC_ENTRY];
        if be(&e[0..8]) as usize != b.offset {
            return Err(format!("{name}: entry {i} offset {} vs CBOR boundary {}", be(&e[0..8]), b.offset));
        }
        if be(&e[12..16]) as u32 != misc::crc32(&chunk[b.offset..b.offset + b.len]) {
            return Err(format!("{name}: entry {i} CRC mismatch"));
        }
        if e[16..48] != b.hash {
            return Err(format!("{name}: entry {i} header hash differs from Blake2b-256 of the header item"));
        }
        if be(&e[48..56]) != b.slot {
            return Err(format!("{name}: entry {i} slot {} vs header slot {}", be(&e[48..56]), b.slot));
        }
    }
    // primary index: occupied slots must equal the blocks' relative slots
    if primary.len() < 5 || (primary.len() - 1) % 4 != 0 {
        return Err(format!("{name}: primary index of {} bytes", primary.len()));
    }
    let offs = primary_offsets(&primary);
    let base = name.parse::<u64>().map_err(|e| e.to_string())? * 21600;
    // relative slot 0 of a chunk is reserved for an epoch boundary block; the
    // block of slot s sits in relative slot (s - chunk_no * 21600) + 1
    if offs[1] > offs[0] {
        return Err(format!("{name}: relative slot 0 (EBB) is occupied - not covered by the reference reader"));
    }
    let occupied: Vec<u64> = (1..offs.len() - 1).filter(|i| offs[i + 1] > offs[*i]).map(|i| base + i as u64 - 1).collect();
    let slots: Vec<u64> = blocks.iter().map(|b| b.slot).collect();
    if occupied != slots {
        return Err(format!("{name}: primary index occupancy differs from the block slots"));
    }
    Ok(RefChunk { name: name.to_string(), chunk, primary, secondary, blocks })
}

/// Scratch directory under the system temp dir, unique per process + tag;
/// removed by `cleanup` (called on every exit path of the checks) and on drop.
pub struct Scratch(pub PathBuf);

impl Scratch {
    pub fn new(tag: &str) -> Scratch {
        let p = std::env::temp_dir().join(format!("mc-hardano-{tag}-{}", std::process::id()));
        let _ = std::fs::remove_dir_all(&p);
        if let Err(e) = std::fs::create_dir_all(&p) {
            mc_core::report::machinery_failure(&format!("cannot create scratch dir {p:?}: {e}"));
        }
        Scratch(p)
    }
    pub fn cleanup(&self) {
        let _ = std::fs::remove_dir_all(&self.0);
    }
    pub fn fail(&self, msg: &str) -> ! {
        self.cleanup();
        mc_core::report::machinery_failure(msg)
    }
}

impl Drop for Scratch {
    fn drop(&mut self) {
        self.cleanup();
    }
}

pub fn write_triplet(dir: &Path, name: &str, chunk: &[u8], primary: &[u8], secondary: &[u8]) -> std::io::Result<()> {
    std::fs::write(dir.join(format!("{name}.chunk")), chunk)?;
    std::fs::write(dir.join(format!("{name}.primary")), primary)?;
    std::fs::write(dir.join(format!("{name}.secondary")), secondary)
}

/// `/rustc/<hash>/library/..` -> `rustc:library/..` so that a std panic site
/// does not carry the toolchain commit.
pub fn normalize_site(s: &str) -> String {
    if let Some(i) = s.find("/rustc/") {
        let rest = &s[i + 7..];
        if let Some(j) = rest.find('/') {
            return format!("{}rustc:{}", &s[..i], &rest[j + 1..]);
        }
    }
    s.to_string()
}
