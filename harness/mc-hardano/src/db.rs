//! Reference view of immutable-DB chunk triplets, independent of pallas:
//! the chunk file is split at CBOR item boundaries with `refcbor`, slot and
//! header hash of every block are read from the CBOR structure and
//! cross-checked against the secondary index entry (offset, header offset and
//! size, CRC-32, header hash, slot / epoch) and the primary index occupancy.
//! * Shelley family `[era >= 2, [[header_body, sig], ..]]`: slot =
//!   header_body[1], hash = Blake2b-256 of the header item;
//! * Byron `[0 | 1, [header, body, extra]]`, header = `[magic, prev, proof,
//!   consensus_data, extra]`: main block (1) consensus_data = `[[epoch, slot],
//!   pubkey, [difficulty], sig]`, slot = epoch*21600 + slot; epoch boundary
//!   block (0) consensus_data = `[epoch, [difficulty]]`, slot = epoch*21600;
//!   hash = Blake2b-256 of the CBOR pair `[era tag, header]`.
//! Also the index-file writer (`build_indexes`) and scratch directories.

use mc_core::{blake2b, misc, refcbor};
use std::path::{Path, PathBuf};

pub const TEST_DATA: &str = "/repo/test_data";
pub const CHUNKS: [&str; 3] = ["01285", "01836", "02019"];
pub const SEC_ENTRY: usize = 56;
pub const EPOCH_SLOTS: u64 = 21600;

#[derive(Clone)]
pub struct RefBlock {
    pub offset: usize,
    pub len: usize,
    pub slot: u64,
    pub hash: [u8; 32],
    /// Byron epoch boundary block (sits in relative slot 0 of its chunk; its
    /// secondary entry carries the epoch number instead of the slot)
    pub ebb: bool,
    /// epoch number read from the header (Byron only, else 0)
    pub epoch: u64,
    /// span of the header item relative to the start of the block
    pub header_off: usize,
    pub header_len: usize,
}

/// Slot, hash and header span of one serialized block, from the CBOR alone.
pub fn ref_block(buf: &[u8], it: &refcbor::Node) -> Result<RefBlock, String> {
    let arr = it.as_array().ok_or("block is not an array")?;
    if arr.len() != 2 {
        return Err(format!("block wrapper of {} items", arr.len()));
    }
    let era = arr[0].as_u64().ok_or("era tag")?;
    let inner = arr[1].as_array().ok_or("block body")?;
    let header = inner.first().ok_or("header")?;
    let (slot, hash, ebb, epoch) = if era < 2 {
        if inner.len() != 3 {
            return Err(format!("Byron block of {} items", inner.len()));
        }
        let h = header.as_array().ok_or("Byron header")?;
        if h.len() != 5 {
            return Err(format!("Byron header of {} items", h.len()));
        }
        let cd = h[3].as_array().ok_or("consensus data")?;
        let (epoch, rel) = if era == 0 {
            if cd.len() != 2 {
                return Err(format!("EBB consensus data of {} items", cd.len()));
            }
            (cd[0].as_u64().ok_or("EBB epoch")?, 0)
        } else {
            if cd.len() != 4 {
                return Err(format!("Byron consensus data of {} items", cd.len()));
            }
            let sid = cd[0].as_array().ok_or("slot id")?;
            if sid.len() != 2 {
                return Err("slot id is not a pair".into());
            }
            let rel = sid[1].as_u64().ok_or("slot in epoch")?;
            if rel >= EPOCH_SLOTS {
                return Err(format!("slot in epoch {rel}"));
            }
            (sid[0].as_u64().ok_or("epoch")?, rel)
        };
        let mut pre = vec![0x82u8, era as u8];
        pre.extend_from_slice(header.span(buf));
        (epoch * EPOCH_SLOTS + rel, blake2b::blake2b_256(&pre), era == 0, epoch)
    } else {
        let hb = header.as_array().and_then(|h| h.first()).and_then(|x| x.as_array()).ok_or("header body")?;
        (hb.get(1).and_then(|x| x.as_u64()).ok_or("slot")?, blake2b::blake2b_256(header.span(buf)), false, 0)
    };
    Ok(RefBlock { offset: it.start, len: it.end - it.start, slot, hash, ebb, epoch, header_off: header.start - it.start, header_len: header.end - header.start })
}

/// Relative slot of a block inside chunk number `chunk_no`: 0 for the EBB,
/// slot-in-epoch + 1 for a regular block.
pub fn relative_slot(chunk_no: u64, b: &RefBlock) -> Option<u64> {
    if b.ebb {
        return (b.epoch == chunk_no).then_some(0);
    }
    let rel = b.slot.checked_sub(chunk_no * EPOCH_SLOTS)?;
    (rel < EPOCH_SLOTS).then_some(rel + 1)
}

/// One secondary-index entry as the node writes it.
pub fn secondary_entry(block: &[u8], b: &RefBlock) -> [u8; SEC_ENTRY] {
    let mut e = [0u8; SEC_ENTRY];
    e[0..8].copy_from_slice(&(b.offset as u64).to_be_bytes());
    e[8..10].copy_from_slice(&(b.header_off as u16).to_be_bytes());
    e[10..12].copy_from_slice(&(b.header_len as u16).to_be_bytes());
    e[12..16].copy_from_slice(&misc::crc32(block).to_be_bytes());
    e[16..48].copy_from_slice(&b.hash);
    e[48..56].copy_from_slice(&(if b.ebb { b.epoch } else { b.slot }).to_be_bytes());
    e
}

/// Primary + secondary index of a finished chunk (`rel_slots` relative slots:
/// the EBB slot + 21600 for a chunk closed by the node).
pub fn build_indexes(chunk_no: u64, chunk: &[u8], blocks: &[RefBlock], rel_slots: u64) -> Result<(Vec<u8>, Vec<u8>), String> {
    let mut secondary = vec![];
    let mut primary = vec![1u8];
    primary.extend_from_slice(&0u32.to_be_bytes());
    let mut next_rel = 0u64;
    for b in blocks {
        let rel = relative_slot(chunk_no, b).ok_or(format!("block of slot {} does not belong to chunk {chunk_no}", b.slot))?;
        if rel < next_rel || rel >= rel_slots {
            return Err(format!("relative slot {rel} out of order / range"));
        }
        // empty relative slots repeat the previous offset
        for _ in next_rel..rel {
            primary.extend_from_slice(&(secondary.len() as u32).to_be_bytes());
        }
        secondary.extend_from_slice(&secondary_entry(&chunk[b.offset..b.offset + b.len], b));
        primary.extend_from_slice(&(secondary.len() as u32).to_be_bytes());
        next_rel = rel + 1;
    }
    for _ in next_rel..rel_slots {
        primary.extend_from_slice(&(secondary.len() as u32).to_be_bytes());
    }
    Ok((primary, secondary))
}

pub struct RefChunk {
    pub name: String,
    pub chunk: Vec<u8>,
    pub primary: Vec<u8>,
    pub secondary: Vec<u8>,
    pub blocks: Vec<RefBlock>,
}

impl RefChunk {
    pub fn bytes(&self, b: &RefBlock) -> &[u8] {
        &self.chunk[b.offset..b.offset + b.len]
    }
    pub fn number(&self) -> u64 {
        self.name.parse().unwrap_or(0)
    }
}

fn be(b: &[u8]) -> u64 {
    b.iter().fold(0u64, |a, x| (a << 8) | *x as u64)
}

pub fn sec_offset(secondary: &[u8], e: usize) -> u64 {
    be(&secondary[e * SEC_ENTRY..e * SEC_ENTRY + 8])
}

pub fn primary_offsets(primary: &[u8]) -> Vec<u32> {
    primary[1..].chunks_exact(4).map(|c| be(c) as u32).collect()
}

/// Strict load of a fixture that must be a consistent triplet.
pub fn load_chunk(name: &str) -> Result<RefChunk, String> {
    load(Path::new(TEST_DATA), name, true)
}

/// `strict` = additionally require that the three files agree with each other
/// (the fixture 02019 does not: 5 blocks in the chunk file, 15 secondary
/// entries, 1 occupied primary slot; pallas' own tests only use it as the
/// last, never-read chunk).
pub fn load(dir: &Path, name: &str, strict: bool) -> Result<RefChunk, String> {
    let rd = |ext: &str| std::fs::read(dir.join(format!("{name}.{ext}"))).map_err(|e| format!("{name}.{ext}: {e}"));
    parse_triplet(name, rd("chunk")?, rd("primary")?, rd("secondary")?, strict)
}

/// Reference reader over the three files' bytes.
pub fn parse_triplet(name: &str, chunk: Vec<u8>, primary: Vec<u8>, secondary: Vec<u8>, strict: bool) -> Result<RefChunk, String> {
    let items = refcbor::parse_seq(&chunk).map_err(|e| format!("{name}.chunk is not a CBOR sequence: {e:?}"))?;
    let mut blocks = vec![];
    for it in &items {
        blocks.push(ref_block(&chunk, it).map_err(|e| format!("{name}: {e}"))?);
    }
    for w in blocks.windows(2) {
        // slot order; only an EBB may share its slot with the block after it
        let ok = w[0].slot < w[1].slot || (w[0].slot == w[1].slot && w[0].ebb && !w[1].ebb);
        if !ok {
            return Err(format!("{name}: reference slots not increasing"));
        }
    }
    if !strict {
        return Ok(RefChunk { name: name.to_string(), chunk, primary, secondary, blocks });
    }
    // cross-check against the secondary index (second, unrelated source)
    if secondary.len() % SEC_ENTRY != 0 || secondary.len() / SEC_ENTRY != blocks.len() {
        return Err(format!("{name}: {} CBOR items but secondary index of {} bytes", blocks.len(), secondary.len()));
    }
    for (i, b) in blocks.iter().enumerate() {
        let e = &secondary[i * SEC_ENTRY..(i + 1) * SEC_ENTRY];
        if be(&e[0..8]) as usize != b.offset {
            return Err(format!("{name}: entry {i} offset {} vs CBOR boundary {}", be(&e[0..8]), b.offset));
        }
        if be(&e[8..10]) as usize != b.header_off || be(&e[10..12]) as usize != b.header_len {
            return Err(format!("{name}: entry {i} header span ({}, {}) vs CBOR header item ({}, {})", be(&e[8..10]), be(&e[10..12]), b.header_off, b.header_len));
        }
        if be(&e[12..16]) as u32 != misc::crc32(&chunk[b.offset..b.offset + b.len]) {
            return Err(format!("{name}: entry {i} CRC mismatch"));
        }
        if e[16..48] != b.hash {
            return Err(format!("{name}: entry {i} header hash differs from Blake2b-256 of the header"));
        }
        // block_or_ebb: slot of a regular block, EPOCH of an epoch boundary block
        let want = if b.ebb { b.epoch } else { b.slot };
        if be(&e[48..56]) != want {
            return Err(format!("{name}: entry {i} block_or_ebb {} vs header {}", be(&e[48..56]), want));
        }
    }
    // primary index: occupied relative slots must equal the blocks' relative
    // slots (0 = epoch boundary block, block of slot s in (s - chunk_no * 21600) + 1)
    if primary.len() < 9 || (primary.len() - 1) % 4 != 0 || primary[0] != 1 {
        return Err(format!("{name}: primary index of {} bytes / version {}", primary.len(), primary.first().copied().unwrap_or(0)));
    }
    let offs = primary_offsets(&primary);
    let no = name.parse::<u64>().map_err(|e| e.to_string())?;
    if offs[0] != 0 || offs.windows(2).any(|w| w[1] != w[0] && w[1] != w[0] + SEC_ENTRY as u32) || *offs.last().unwrap_or(&0) as usize != secondary.len() {
        return Err(format!("{name}: primary offsets are not a 0/56 step sequence ending at the secondary index size"));
    }
    let occupied: Vec<u64> = (0..offs.len() - 1).filter(|i| offs[i + 1] > offs[*i]).map(|i| i as u64).collect();
    let rels: Option<Vec<u64>> = blocks.iter().map(|b| relative_slot(no, b)).collect();
    if rels.as_ref() != Some(&occupied) {
        return Err(format!("{name}: primary index occupancy differs from the blocks' relative slots"));
    }
    Ok(RefChunk { name: name.to_string(), chunk, primary, secondary, blocks })
}

/// Write each triplet once (`pool`) and hard-link it into a database directory
/// (falls back to a copy where links are not supported).
pub fn link_triplet(pool: &Path, dir: &Path, name: &str) -> std::io::Result<()> {
    for ext in ["chunk", "primary", "secondary"] {
        let (from, to) = (pool.join(format!("{name}.{ext}")), dir.join(format!("{name}.{ext}")));
        if std::fs::hard_link(&from, &to).is_err() {
            std::fs::copy(&from, &to)?;
        }
    }
    Ok(())
}

/// Scratch directory under the system temp dir, unique per process + tag;
/// removed by `cleanup` (called on every exit path of the checks) and on drop.
pub struct Scratch(pub PathBuf);

impl Scratch {
    pub fn new(tag: &str) -> Scratch {
        let p = std::env::temp_dir().join(format!("mc-hardano-{tag}-{}", std::process::id()));
        let _ = std::fs::remove_dir_all(&p);
        if let Err(e) = std::fs::create_dir_all(&p) {
            mc_core::report::machinery_failure(&format!("cannot create scratch dir {p:?}: {e}"));
        }
        Scratch(p)
    }
    pub fn cleanup(&self) {
        let _ = std::fs::remove_dir_all(&self.0);
    }
    pub fn fail(&self, msg: &str) -> ! {
        self.cleanup();
        mc_core::report::machinery_failure(msg)
    }
}

impl Drop for Scratch {
    fn drop(&mut self) {
        self.cleanup();
    }
}

pub fn write_triplet(dir: &Path, name: &str, chunk: &[u8], primary: &[u8], secondary: &[u8]) -> std::io::Result<()> {
    std::fs::write(dir.join(format!("{name}.chunk")), chunk)?;
    std::fs::write(dir.join(format!("{name}.primary")), primary)?;
    std::fs::write(dir.join(format!("{name}.secondary")), secondary)
}

/// `/rustc/<hash>/library/..` -> `rustc:library/..` so that a std panic site
/// does not carry the toolchain commit.
pub fn normalize_site(s: &str) -> String {
    if let Some(i) = s.find("/rustc/") {
        let rest = &s[i + 7..];
        if let Some(j) = rest.find('/') {
            return format!("{}rustc:{}", &s[..i], &rest[j + 1..]);
        }
    }
    s.to_string()
}
