//! TxLab model and builder.
//!
//! A [`Case`] = transaction description ([`TxSpec`]) + environment
//! ([`EnvSpec`]: UTxO entries, slot, network, size limit) for one era.
//! [`build`] turns it into wire bytes using only `mc_core::refcbor` (no pallas
//! encoder), resolving the symbolic parts:
//!   * `FeeSpec::MinPlus(d)`  fee = a*L + b + d, L = ledger size of the final tx
//!   * `Coin::Change`         inputs - fee - other outputs
//!   * `HashSpec::Right`      aux-data hash / script-integrity hash computed here
//!   * `VkWit::Valid(k)` ...  signatures over Blake2b-256(body bytes) — so every
//!     deviation that changes the body is re-signed automatically
//!   * `SizeSpec::LedgerPlus` max_tx_size relative to L

use crate::keys;
use crate::params;
use mc_core::blake2b::{blake2b_224, blake2b_256};
use mc_core::refcbor::Node;
use mc_core::{json, Value};

// ------------------------------------------------------------------ eras

#[derive(Clone, Copy, Debug, PartialEq, Eq, PartialOrd, Ord, Hash)]
pub enum Era {
    Byron,
    Shelley,
    Allegra,
    Mary,
    Alonzo,
    Babbage,
    Conway,
}

pub const POST_BYRON: [Era; 6] = [Era::Shelley, Era::Allegra, Era::Mary, Era::Alonzo, Era::Babbage, Era::Conway];

impl Era {
    pub fn name(self) -> &'static str {
        match self {
            Era::Byron => "byron",
            Era::Shelley => "shelley",
            Era::Allegra => "allegra",
            Era::Mary => "mary",
            Era::Alonzo => "alonzo",
            Era::Babbage => "babbage",
            Era::Conway => "conway",
        }
    }
    pub fn from_name(s: &str) -> Option<Era> {
        [Era::Byron, Era::Shelley, Era::Allegra, Era::Mary, Era::Alonzo, Era::Babbage, Era::Conway].into_iter().find(|e| e.name() == s)
    }
    pub fn pallas(self) -> pallas_traverse::Era {
        match self {
            Era::Byron => pallas_traverse::Era::Byron,
            Era::Shelley => pallas_traverse::Era::Shelley,
            Era::Allegra => pallas_traverse::Era::Allegra,
            Era::Mary => pallas_traverse::Era::Mary,
            Era::Alonzo => pallas_traverse::Era::Alonzo,
            Era::Babbage => pallas_traverse::Era::Babbage,
            Era::Conway => pallas_traverse::Era::Conway,
        }
    }
    pub fn multiasset(self) -> bool {
        self >= Era::Mary
    }
    pub fn plutus(self) -> bool {
        self >= Era::Alonzo
    }
    pub fn map_outputs(self) -> bool {
        self >= Era::Babbage
    }
    /// Which validator module serves the era (used in fingerprints).
    pub fn group(self) -> &'static str {
        match self {
            Era::Byron => "byron",
            Era::Shelley | Era::Allegra | Era::Mary => "shelley_ma",
            Era::Alonzo => "alonzo",
            Era::Babbage => "babbage",
            Era::Conway => "conway",
        }
    }
}

// ------------------------------------------------------------------ UTxO alphabet

/// Transaction ids T0, T1 (in the UTxO alphabet) and T2 (never in it).
#[derive(Clone, Copy, Debug, PartialEq, Eq, PartialOrd, Ord, Hash)]
pub struct InRef {
    pub tx: u8,
    pub ix: u64,
}

impl InRef {
    pub const fn new(tx: u8, ix: u64) -> InRef {
        InRef { tx, ix }
    }
    pub fn tx_id(&self) -> [u8; 32] {
        [0x10 * (self.tx + 1); 32]
    }
    pub fn node(&self) -> Node {
        Node::array(vec![Node::bytes(&self.tx_id()), Node::uint(self.ix)])
    }
    pub fn show(&self) -> String {
        format!("T{}#{}", self.tx, self.ix)
    }
}

// ------------------------------------------------------------------ scripts, data

#[derive(Clone, Debug, PartialEq)]
pub enum Native {
    Pubkey(usize),
    All(Vec<Native>),
    Any(Vec<Native>),
    NOfK(u32, Vec<Native>),
    InvalidBefore(u64),
    InvalidHereafter(u64),
}

impl Native {
    pub fn node(&self) -> Node {
        match self {
            Native::Pubkey(k) => Node::array(vec![Node::uint(0), Node::bytes(&keys::key(*k).hash)]),
            Native::All(v) => Node::array(vec![Node::uint(1), Node::array(v.iter().map(|s| s.node()).collect())]),
            Native::Any(v) => Node::array(vec![Node::uint(2), Node::array(v.iter().map(|s| s.node()).collect())]),
            Native::NOfK(n, v) => Node::array(vec![Node::uint(3), Node::uint(*n as u64), Node::array(v.iter().map(|s| s.node()).collect())]),
            Native::InvalidBefore(s) => Node::array(vec![Node::uint(4), Node::uint(*s)]),
            Native::InvalidHereafter(s) => Node::array(vec![Node::uint(5), Node::uint(*s)]),
        }
    }
    pub fn hash(&self) -> [u8; 28] {
        let mut p = vec![0u8];
        p.extend(self.node().to_vec());
        blake2b_224(&p)
    }
}

/// Native script that locks a UTxO entry (needs K0).
pub fn native_lock() -> Native {
    Native::Pubkey(0)
}
/// Native minting policy (needs K1).
pub fn native_policy() -> Native {
    Native::Pubkey(1)
}
/// A second native script nobody needs.
pub fn native_other() -> Native {
    Native::All(vec![Native::Pubkey(2)])
}

/// Dummy Plutus script (phase 1 never runs it): the usual "always succeeds".
pub fn plutus_script() -> Vec<u8> {
    hex::decode("4e4d01000033222220051200120011").unwrap()
}
pub fn plutus_script_other() -> Vec<u8> {
    hex::decode("4746010000222499").unwrap()
}
pub fn plutus_hash(lang: u8, script: &[u8]) -> [u8; 28] {
    let mut p = vec![lang];
    p.extend_from_slice(script);
    blake2b_224(&p)
}

#[derive(Clone, Debug, PartialEq)]
pub enum Data {
    Int(i64),
    Bytes(Vec<u8>),
    /// constructor 0 without fields
    Unit,
}

impl Data {
    pub fn node(&self) -> Node {
        match self {
            Data::Int(i) => Node::int(*i as i128),
            Data::Bytes(b) => Node::bytes(b),
            Data::Unit => Node::tag(121, Node::array(vec![])),
        }
    }
    pub fn bytes(&self) -> Vec<u8> {
        self.node().to_vec()
    }
    pub fn hash(&self) -> [u8; 32] {
        blake2b_256(&self.bytes())
    }
}

// ------------------------------------------------------------------ addresses

#[derive(Clone, Debug, PartialEq)]
pub enum Pay {
    Key(usize),
    Script([u8; 28]),
}

#[derive(Clone, Debug, PartialEq)]
pub enum Addr {
    Enterprise { net: u8, pay: Pay },
    Base { net: u8, pay: Pay, stake_key: usize },
    /// Byron bootstrap address of key k
    Byron(usize),
    Raw(Vec<u8>),
}

pub const MAINNET: u8 = 1;
pub const TESTNET: u8 = 0;

impl Addr {
    pub fn key(k: usize) -> Addr {
        Addr::Enterprise { net: MAINNET, pay: Pay::Key(k) }
    }
    pub fn base(k: usize, stake: usize) -> Addr {
        Addr::Base { net: MAINNET, pay: Pay::Key(k), stake_key: stake }
    }
    pub fn script(h: [u8; 28]) -> Addr {
        Addr::Enterprise { net: MAINNET, pay: Pay::Script(h) }
    }
    pub fn with_net(&self, n: u8) -> Addr {
        match self {
            Addr::Enterprise { pay, .. } => Addr::Enterprise { net: n, pay: pay.clone() },
            Addr::Base { pay, stake_key, .. } => Addr::Base { net: n, pay: pay.clone(), stake_key: *stake_key },
            other => other.clone(),
        }
    }
    pub fn bytes(&self) -> Vec<u8> {
        match self {
            Addr::Enterprise { net, pay } => {
                let (t, h): (u8, [u8; 28]) = match pay {
                    Pay::Key(k) => (0b0110, keys::key(*k).hash),
                    Pay::Script(h) => (0b0111, *h),
                };
                let mut v = vec![(t << 4) | (net & 0x0f)];
                v.extend_from_slice(&h);
                v
            }
            Addr::Base { net, pay, stake_key } => {
                let (t, h): (u8, [u8; 28]) = match pay {
                    Pay::Key(k) => (0b0000, keys::key(*k).hash),
                    Pay::Script(h) => (0b0001, *h),
                };
                let mut v = vec![(t << 4) | (net & 0x0f)];
                v.extend_from_slice(&h);
                v.extend_from_slice(&keys::key(*stake_key).hash);
                v
            }
            Addr::Byron(k) => crate::byron::address_node(*k).to_vec(),
            Addr::Raw(b) => b.clone(),
        }
    }
}

// ------------------------------------------------------------------ outputs

#[derive(Clone, Debug, PartialEq)]
pub enum Coin {
    Fixed(u64),
    /// inputs - fee - other outputs (clamped at 0)
    Change,
}

pub type PolicyId = [u8; 28];
pub type Assets = Vec<(PolicyId, Vec<(Vec<u8>, u64)>)>;
pub type Mint = Vec<(PolicyId, Vec<(Vec<u8>, i128)>)>;

pub fn asset_a() -> Vec<u8> {
    b"A".to_vec()
}
pub fn asset_b() -> Vec<u8> {
    b"B".to_vec()
}

#[derive(Clone, Debug, PartialEq)]
pub enum Datum {
    None,
    Hash(Data),
    RawHash([u8; 32]),
    Inline(Data),
}

#[derive(Clone, Copy, Debug, PartialEq)]
pub enum OutForm {
    /// `[address, value, ?datum_hash]`
    Legacy,
    /// `{0: address, 1: value, ?2: datum_option}` (Babbage+)
    Map,
}

#[derive(Clone, Debug, PartialEq)]
pub struct Out {
    pub addr: Addr,
    pub coin: Coin,
    /// None: plain coin; Some(v): `[coin, multiasset]` (v may be empty)
    pub assets: Option<Assets>,
    pub datum: Datum,
    pub form: OutForm,
    /// reference script (map form only): (language tag 1/2/3, script bytes)
    pub script_ref: Option<(u8, Vec<u8>)>,
}

impl Out {
    pub fn with_script_ref(mut self, lang_tag: u8, script: Vec<u8>) -> Out {
        self.script_ref = Some((lang_tag, script));
        self
    }
    pub fn new(era: Era, addr: Addr, coin: u64) -> Out {
        Out { addr, coin: Coin::Fixed(coin), assets: None, datum: Datum::None, form: if era.map_outputs() { OutForm::Map } else { OutForm::Legacy }, script_ref: None }
    }
    pub fn change(era: Era, addr: Addr) -> Out {
        Out { coin: Coin::Change, ..Out::new(era, addr, 0) }
    }
    pub fn with_asset(mut self, policy: PolicyId, name: Vec<u8>, qty: u64) -> Out {
        set_asset(&mut self.assets, policy, name, qty);
        self
    }
    pub fn with_datum(mut self, d: Datum) -> Out {
        self.datum = d;
        self
    }
    pub fn fixed(&self) -> u64 {
        match self.coin {
            Coin::Fixed(c) => c,
            Coin::Change => 0,
        }
    }
    pub fn value_node(&self, coin: u64) -> Node {
        match &self.assets {
            None => Node::uint(coin),
            Some(a) => Node::array(vec![
                Node::uint(coin),
                Node::map(a.iter().map(|(p, m)| (Node::bytes(p), Node::map(m.iter().map(|(n, q)| (Node::bytes(n), Node::uint(*q))).collect()))).collect()),
            ]),
        }
    }
    pub fn node(&self, coin: u64) -> Node {
        match self.form {
            OutForm::Legacy => {
                let mut v = vec![Node::bytes(&self.addr.bytes()), self.value_node(coin)];
                match &self.datum {
                    Datum::Hash(d) => v.push(Node::bytes(&d.hash())),
                    Datum::RawHash(h) => v.push(Node::bytes(h)),
                    _ => {}
                }
                Node::array(v)
            }
            OutForm::Map => {
                let mut v = vec![(Node::uint(0), Node::bytes(&self.addr.bytes())), (Node::uint(1), self.value_node(coin))];
                match &self.datum {
                    Datum::Hash(d) => v.push((Node::uint(2), Node::array(vec![Node::uint(0), Node::bytes(&d.hash())]))),
                    Datum::RawHash(h) => v.push((Node::uint(2), Node::array(vec![Node::uint(0), Node::bytes(h)]))),
                    Datum::Inline(d) => v.push((Node::uint(2), Node::array(vec![Node::uint(1), Node::tag(24, Node::bytes(&d.bytes()))]))),
                    Datum::None => {}
                }
                if let Some((tag, script)) = &self.script_ref {
                    let inner = Node::array(vec![Node::uint(*tag as u64), Node::bytes(script)]).to_vec();
                    v.push((Node::uint(3), Node::tag(24, Node::bytes(&inner))));
                }
                Node::map(v)
            }
        }
    }
}

pub fn set_asset(assets: &mut Option<Assets>, policy: PolicyId, name: Vec<u8>, qty: u64) {
    let a = assets.get_or_insert_with(Vec::new);
    if let Some((_, m)) = a.iter_mut().find(|(p, _)| *p == policy) {
        if let Some(e) = m.iter_mut().find(|(n, _)| *n == name) {
            e.1 = qty;
        } else {
            m.push((name, qty));
            m.sort();
        }
    } else {
        a.push((policy, vec![(name, qty)]));
        a.sort();
    }
}

// ------------------------------------------------------------------ witnesses

#[derive(Clone, Debug, PartialEq, Eq, PartialOrd, Ord)]
pub enum VkWit {
    /// key k, valid signature of the tx id
    Valid(usize),
    /// key k, signature with one bit flipped
    CorruptSig(usize),
    /// a 31-byte key with a 64-byte signature
    WrongLenKey,
    /// key k with a 63-byte signature
    WrongLenSig(usize),
}

impl VkWit {
    pub fn show(&self) -> String {
        match self {
            VkWit::Valid(k) => format!("V{k}"),
            VkWit::CorruptSig(k) => format!("C{k}"),
            VkWit::WrongLenKey => "WLK".into(),
            VkWit::WrongLenSig(k) => format!("WLS{k}"),
        }
    }
    pub fn node(&self, tx_id: &[u8; 32]) -> Node {
        if *tx_id == [0u8; 32] {
            // sizing pass of the builder: only the lengths matter
            let (kl, sl) = match self {
                VkWit::WrongLenKey => (31, 64),
                VkWit::WrongLenSig(_) => (32, 63),
                _ => (32, 64),
            };
            return Node::array(vec![Node::bytes(&vec![0u8; kl]), Node::bytes(&vec![0u8; sl])]);
        }
        let (vk, sig): (Vec<u8>, Vec<u8>) = match self {
            VkWit::Valid(k) => {
                let key = keys::key(*k);
                (key.vk.to_vec(), key.sign(tx_id).to_vec())
            }
            VkWit::CorruptSig(k) => {
                let key = keys::key(*k);
                let mut s = key.sign(tx_id).to_vec();
                s[0] ^= 0x01;
                (key.vk.to_vec(), s)
            }
            VkWit::WrongLenKey => {
                let key = keys::key(2);
                (key.vk[..31].to_vec(), key.sign(tx_id).to_vec())
            }
            VkWit::WrongLenSig(k) => {
                let key = keys::key(*k);
                (key.vk.to_vec(), key.sign(tx_id)[..63].to_vec())
            }
        };
        Node::array(vec![Node::bytes(&vk), Node::bytes(&sig)])
    }
}

#[derive(Clone, Debug, PartialEq)]
pub struct Redeemer {
    pub tag: u8,
    pub index: u32,
    pub data: Data,
    pub mem: u64,
    pub steps: u64,
}

#[derive(Clone, Debug, PartialEq, Default)]
pub struct Wits {
    pub vkeys: Option<Vec<VkWit>>,
    pub native: Option<Vec<Native>>,
    pub plutus_v1: Option<Vec<Vec<u8>>>,
    pub plutus_v2: Option<Vec<Vec<u8>>>,
    pub datums: Option<Vec<Data>>,
    /// encode the datum list as an indefinite-length array
    pub datums_indef: bool,
    pub redeemers: Option<Vec<Redeemer>>,
    /// Conway map form `{[tag, index]: [data, ex_units]}` instead of the list form
    pub redeemers_map: bool,
    /// wrap the vkey witness list in tag 258 (Conway)
    pub vkeys_tag258: bool,
    /// encode the witness-set map with indefinite length
    pub map_indef: bool,
}

impl Wits {
    pub fn redeemers_node(&self) -> Option<Node> {
        let r = self.redeemers.as_ref()?;
        let ex = |x: &Redeemer| Node::array(vec![Node::uint(x.mem), Node::uint(x.steps)]);
        Some(if self.redeemers_map {
            Node::map(r.iter().map(|x| (Node::array(vec![Node::uint(x.tag as u64), Node::uint(x.index as u64)]), Node::array(vec![x.data.node(), ex(x)]))).collect())
        } else {
            Node::array(r.iter().map(|x| Node::array(vec![Node::uint(x.tag as u64), Node::uint(x.index as u64), x.data.node(), ex(x)])).collect())
        })
    }
    pub fn datums_node(&self) -> Option<Node> {
        let d = self.datums.as_ref()?;
        let items: Vec<Node> = d.iter().map(|x| x.node()).collect();
        Some(if self.datums_indef { Node::array_indef(items) } else { Node::array(items) })
    }
    pub fn node(&self, tx_id: &[u8; 32]) -> Node {
        let mut m = vec![];
        if let Some(v) = &self.vkeys {
            let l = Node::array(v.iter().map(|w| w.node(tx_id)).collect());
            m.push((Node::uint(0), if self.vkeys_tag258 { Node::tag(258, l) } else { l }));
        }
        if let Some(v) = &self.native {
            m.push((Node::uint(1), Node::array(v.iter().map(|s| s.node()).collect())));
        }
        if let Some(v) = &self.plutus_v1 {
            m.push((Node::uint(3), Node::array(v.iter().map(|s| Node::bytes(s)).collect())));
        }
        if let Some(n) = self.datums_node() {
            m.push((Node::uint(4), n));
        }
        if let Some(n) = self.redeemers_node() {
            m.push((Node::uint(5), n));
        }
        if let Some(v) = &self.plutus_v2 {
            m.push((Node::uint(6), Node::array(v.iter().map(|s| Node::bytes(s)).collect())));
        }
        if self.map_indef {
            Node::map_indef(m)
        } else {
            Node::map(m)
        }
    }
}

// ------------------------------------------------------------------ transaction

#[derive(Clone, Copy, Debug, PartialEq)]
pub enum HashSpec {
    Absent,
    Right,
    Wrong,
}

#[derive(Clone, Copy, Debug, PartialEq)]
pub enum FeeSpec {
    Exact(u64),
    /// a*L + b + d with L the ledger size of the final transaction
    MinPlus(i64),
}

/// Alternative wire spellings of the same transaction content. The size, fee
/// and hash rules read raw bytes, so each spelling the decoders accept is a
/// dimension of its own (all default to the usual cardano-cli spelling).
#[derive(Clone, Copy, Debug, PartialEq, Default)]
pub struct Spelling {
    /// the auxiliary-data slot of a transaction without auxiliary data is CBOR
    /// `undefined` (f7) instead of `null` (f6)
    pub aux_slot_undefined: bool,
    /// the outer transaction array has indefinite length (9f .. ff)
    pub outer_indef: bool,
    /// the body map has indefinite length (bf .. ff)
    pub body_indef: bool,
    /// the output list of the body has indefinite length
    pub outputs_indef: bool,
    /// the fee is written with an 8-byte argument (1b ........)
    pub fee_width8: bool,
}

/// Which of the three auxiliary-data shapes is used when `aux` is set.
#[derive(Clone, Copy, Debug, PartialEq, Default)]
pub enum AuxForm {
    /// Shelley: the metadata map itself
    #[default]
    Metadata,
    /// Allegra/Mary: `[metadata, [native scripts]]`
    ShelleyMa,
    /// Alonzo+: `#6.259({0: metadata})`
    PostAlonzo,
}

#[derive(Clone, Copy, Debug, PartialEq)]
pub enum TotalCollateral {
    /// sum of collateral inputs - collateral return
    Right,
    Exact(u64),
}

#[derive(Clone, Debug, PartialEq)]
pub struct TxSpec {
    pub inputs: Vec<InRef>,
    /// wrap the input list in tag 258 (Conway)
    pub inputs_tag258: bool,
    pub outputs: Vec<Out>,
    pub fee: FeeSpec,
    pub ttl: Option<u64>,
    pub validity_start: Option<u64>,
    pub mint: Option<Mint>,
    /// auxiliary data (a metadata map) present?
    pub aux: bool,
    pub aux_form: AuxForm,
    pub spelling: Spelling,
    pub aux_hash: HashSpec,
    pub script_data_hash: HashSpec,
    pub collateral: Option<Vec<InRef>>,
    pub collateral_return: Option<Out>,
    pub total_collateral: Option<TotalCollateral>,
    pub reference_inputs: Option<Vec<InRef>>,
    pub required_signers: Option<Vec<usize>>,
    pub network_id: Option<u8>,
    pub wits: Wits,
    pub valid: bool,
    /// extension hook: further body fields as (key, value), merged in key order
    /// (certificates = 4, withdrawals = 5, ... — not used by C33..C37)
    pub extra_body: Vec<(u64, Node)>,
    /// lovelace the certificates of `extra_body` deposit (> 0) or get refunded
    /// (< 0); only enters the computation of the `Coin::Change` output (0 for
    /// every case of C33..C38)
    pub deposit: i128,
}

impl TxSpec {
    pub fn empty() -> TxSpec {
        TxSpec {
            inputs: vec![],
            inputs_tag258: false,
            outputs: vec![],
            fee: FeeSpec::MinPlus(SLACK),
            ttl: None,
            validity_start: None,
            mint: None,
            aux: false,
            aux_form: AuxForm::Metadata,
            spelling: Spelling::default(),
            aux_hash: HashSpec::Absent,
            script_data_hash: HashSpec::Absent,
            collateral: None,
            collateral_return: None,
            total_collateral: None,
            reference_inputs: None,
            required_signers: None,
            network_id: None,
            wits: Wits::default(),
            valid: true,
            extra_body: vec![],
            deposit: 0,
        }
    }
}

/// Fee slack of the bases (lovelace above a*L+b).
pub const SLACK: i64 = 1000;

// ------------------------------------------------------------------ environment

#[derive(Clone, Copy, Debug, PartialEq)]
pub enum SizeSpec {
    Default,
    Exact(u64),
    /// L + d
    LedgerPlus(i64),
}

#[derive(Clone, Debug, PartialEq)]
pub struct Utxo {
    pub at: InRef,
    pub out: Out,
    /// era the entry is decoded in (None: the transaction's era)
    pub era: Option<Era>,
}

#[derive(Clone, Debug, PartialEq)]
pub struct EnvSpec {
    pub utxo: Vec<Utxo>,
    pub slot: u64,
    pub network_id: u8,
    pub magic: u32,
    pub max_tx_size: SizeSpec,
    /// protocol parameters of another era than the transaction's
    pub params_era: Option<Era>,
    pub account_state: bool,
}

impl EnvSpec {
    pub fn new(era: Era) -> EnvSpec {
        EnvSpec { utxo: vec![], slot: params::numbers(era).default_slot, network_id: MAINNET, magic: params::MAINNET_MAGIC, max_tx_size: SizeSpec::Default, params_era: None, account_state: true }
    }
    pub fn get(&self, r: &InRef) -> Option<&Utxo> {
        self.utxo.iter().find(|u| u.at == *r)
    }
    pub fn get_mut(&mut self, r: &InRef) -> Option<&mut Utxo> {
        self.utxo.iter_mut().find(|u| u.at == *r)
    }
}

#[derive(Clone, Debug, PartialEq)]
pub struct Case {
    pub era: Era,
    pub base: String,
    pub devs: Vec<String>,
    pub tx: TxSpec,
    pub env: EnvSpec,
}

impl Case {
    pub fn label(&self) -> String {
        if self.devs.is_empty() {
            format!("{}/{}", self.era.name(), self.base)
        } else {
            format!("{}/{} + {}", self.era.name(), self.base, self.devs.join(" + "))
        }
    }
}

// ------------------------------------------------------------------ built artefact

#[derive(Clone, Debug, PartialEq)]
pub struct UtxoEntry {
    pub tx_id: [u8; 32],
    pub ix: u64,
    /// era the output bytes are decoded in
    pub era: Era,
    pub bytes: Vec<u8>,
}

/// Everything `validate_tx` is given, as bytes and numbers (replayable).
#[derive(Clone, Debug, PartialEq)]
pub struct Built {
    pub era: Era,
    pub label: String,
    pub tx: Vec<u8>,
    pub utxo: Vec<UtxoEntry>,
    pub params_era: Era,
    pub max_tx_size: u64,
    pub slot: u64,
    pub network_id: u8,
    pub magic: u32,
    /// the environment carries an account state
    pub account_state: bool,
}

impl Built {
    pub fn to_json(&self) -> Value {
        json!({
            "label": self.label,
            "era": self.era.name(),
            "tx": hex::encode(&self.tx),
            "utxo": self.utxo.iter().map(|u| json!({"tx_id": hex::encode(u.tx_id), "ix": u.ix, "era": u.era.name(), "output": hex::encode(&u.bytes)})).collect::<Vec<_>>(),
            "params_era": self.params_era.name(),
            "max_tx_size": self.max_tx_size,
            "slot": self.slot,
            "network_id": self.network_id,
            "magic": self.magic,
            "account_state": self.account_state,
        })
    }
    pub fn from_json(v: &Value) -> Option<Built> {
        let mut utxo = vec![];
        for u in v.get("utxo")?.as_array()? {
            utxo.push(UtxoEntry {
                tx_id: hex::decode(u.get("tx_id")?.as_str()?).ok()?.try_into().ok()?,
                ix: u.get("ix")?.as_u64()?,
                era: Era::from_name(u.get("era")?.as_str()?)?,
                bytes: hex::decode(u.get("output")?.as_str()?).ok()?,
            });
        }
        Some(Built {
            era: Era::from_name(v.get("era")?.as_str()?)?,
            label: v.get("label")?.as_str()?.to_string(),
            tx: hex::decode(v.get("tx")?.as_str()?).ok()?,
            utxo,
            params_era: Era::from_name(v.get("params_era")?.as_str()?)?,
            max_tx_size: v.get("max_tx_size")?.as_u64()?,
            slot: v.get("slot")?.as_u64()?,
            network_id: v.get("network_id")?.as_u64()? as u8,
            magic: v.get("magic")?.as_u64()? as u32,
            account_state: v.get("account_state")?.as_bool()?,
        })
    }
}

// ------------------------------------------------------------------ builder

/// Language views for the script-integrity hash, ledger encoding (copied from
/// the independent C08 oracle, mc-ledger/src/c08.rs): definite map, PlutusV1
/// keyed by the byte string `00` with its cost model as a byte string holding
/// an INDEFINITE list; PlutusV2/V3 keyed by 1/2 with definite lists.
pub fn language_views(langs: &[u8], v2_model: bool) -> Vec<u8> {
    let mut entries = vec![];
    for lang in [1u8, 2] {
        if langs.contains(&lang) {
            if lang == 1 && v2_model {
                // base B3v2 (Babbage, slot in the PlutusV2 epochs): the mainnet V2 model
                entries.push((Node::uint(1), Node::array(params::PLUTUS_V2_COST_MODEL.iter().map(|c| Node::int(*c as i128)).collect())));
                continue;
            }
            // elsewhere TxLab only knows the PlutusV1 model; other languages get it too so
            // that the hash is at least well-formed (those bases never use them).
            entries.push((Node::uint(lang as u64), Node::array(params::PLUTUS_V1_COST_MODEL.iter().map(|c| Node::int(*c as i128)).collect())));
        }
    }
    if langs.contains(&0) {
        let inner = Node::array_indef(params::PLUTUS_V1_COST_MODEL.iter().map(|c| Node::int(*c as i128)).collect()).to_vec();
        entries.push((Node::bytes(&[0x00]), Node::bytes(&inner)));
    }
    Node::map(entries).to_vec()
}

/// Does the validator of `era` at `slot` (mainnet; Conway: the parameters in force at `slot`,
/// `params::multi_era_at`) know the PlutusV2 cost model of
/// [`params::PLUTUS_V2_COST_MODEL`]?
pub fn v2_model_at(era: Era, slot: u64) -> bool {
    (era == Era::Babbage || era == Era::Conway) && slot >= params::V2_MODEL_FROM_SLOT
}

/// Ledger formula: Blake2b-256(redeemer bytes ++ datum bytes (if any) ++ language views).
pub fn script_integrity_hash(era: Era, slot: u64, wits: &Wits, ref_langs: &[u8]) -> Option<[u8; 32]> {
    let r = wits.redeemers_node();
    let d = wits.datums_node();
    if r.is_none() && d.is_none() {
        return None;
    }
    let mut p = vec![];
    match &r {
        Some(n) => p.extend(n.to_vec()),
        None => p.push(if era >= Era::Conway { 0xa0 } else { 0x80 }),
    }
    if let Some(n) = &d {
        if wits.datums.as_ref().map(|v| !v.is_empty()).unwrap_or(false) {
            p.extend(n.to_vec());
        }
    }
    let mut langs = vec![];
    if r.is_some() {
        if wits.plutus_v1.as_ref().map(|v| !v.is_empty()).unwrap_or(false) {
            langs.push(0u8);
        }
        if wits.plutus_v2.as_ref().map(|v| !v.is_empty()).unwrap_or(false) {
            langs.push(1u8);
        }
        // languages of the reference scripts on the reference inputs
        for l in ref_langs {
            if !langs.contains(l) {
                langs.push(*l);
            }
        }
    }
    p.extend(language_views(&langs, v2_model_at(era, slot)));
    Some(blake2b_256(&p))
}

pub fn aux_node() -> Node {
    Node::map(vec![(Node::uint(1), Node::text("txlab"))])
}

pub fn aux_node_of(form: AuxForm) -> Node {
    match form {
        AuxForm::Metadata => aux_node(),
        AuxForm::ShelleyMa => Node::array(vec![aux_node(), Node::array(vec![])]),
        AuxForm::PostAlonzo => Node::tag(259, Node::map(vec![(Node::uint(0), aux_node())])),
    }
}

/// The fourth element of the transaction array.
pub fn aux_slot_node(t: &TxSpec) -> Node {
    if t.aux {
        aux_node_of(t.aux_form)
    } else if t.spelling.aux_slot_undefined {
        Node::undefined()
    } else {
        Node::null()
    }
}

fn body_node(case: &Case, fee: u64, change: u64, total_coll: u64) -> Node {
    let t = &case.tx;
    let mut m: Vec<(Node, Node)> = vec![];
    let ins = Node::array(t.inputs.iter().map(|i| i.node()).collect());
    m.push((Node::uint(0), if t.inputs_tag258 { Node::tag(258, ins) } else { ins }));
    let outs: Vec<Node> = t
        .outputs
        .iter()
        .map(|o| {
            o.node(match o.coin {
                Coin::Fixed(c) => c,
                Coin::Change => change,
            })
        })
        .collect();
    m.push((Node::uint(1), if t.spelling.outputs_indef { Node::array_indef(outs) } else { Node::array(outs) }));
    m.push((Node::uint(2), if t.spelling.fee_width8 { Node::uint_w(fee, 8) } else { Node::uint(fee) }));
    if let Some(x) = t.ttl {
        m.push((Node::uint(3), Node::uint(x)));
    }
    match t.aux_hash {
        HashSpec::Absent => {}
        HashSpec::Right => m.push((Node::uint(7), Node::bytes(&blake2b_256(&aux_node_of(t.aux_form).to_vec())))),
        HashSpec::Wrong => m.push((Node::uint(7), Node::bytes(&[0x77; 32]))),
    }
    if let Some(x) = t.validity_start {
        m.push((Node::uint(8), Node::uint(x)));
    }
    if let Some(mint) = &t.mint {
        m.push((Node::uint(9), Node::map(mint.iter().map(|(p, a)| (Node::bytes(p), Node::map(a.iter().map(|(n, q)| (Node::bytes(n), Node::int(*q))).collect()))).collect())));
    }
    match t.script_data_hash {
        HashSpec::Absent => {}
        HashSpec::Right => {
            let ref_langs: Vec<u8> = t
                .reference_inputs
                .iter()
                .flatten()
                .filter_map(|i| case.env.get(i).and_then(|u| u.out.script_ref.as_ref().map(|(tag, _)| tag - 1)))
                .collect();
            if let Some(h) = script_integrity_hash(case.era, case.env.slot, &t.wits, &ref_langs) {
                m.push((Node::uint(11), Node::bytes(&h)));
            }
        }
        HashSpec::Wrong => m.push((Node::uint(11), Node::bytes(&[0x5d; 32]))),
    }
    if let Some(c) = &t.collateral {
        m.push((Node::uint(13), Node::array(c.iter().map(|i| i.node()).collect())));
    }
    if let Some(r) = &t.required_signers {
        m.push((Node::uint(14), Node::array(r.iter().map(|k| Node::bytes(&keys::key(*k).hash)).collect())));
    }
    if let Some(n) = t.network_id {
        m.push((Node::uint(15), Node::uint(n as u64)));
    }
    if let Some(o) = &t.collateral_return {
        m.push((Node::uint(16), o.node(o.fixed())));
    }
    if let Some(tc) = &t.total_collateral {
        m.push((
            Node::uint(17),
            Node::uint(match tc {
                TotalCollateral::Right => total_coll,
                TotalCollateral::Exact(x) => *x,
            }),
        ));
    }
    if let Some(c) = &t.reference_inputs {
        m.push((Node::uint(18), Node::array(c.iter().map(|i| i.node()).collect())));
    }
    for (k, v) in &t.extra_body {
        m.push((Node::uint(*k), v.clone()));
    }
    m.sort_by_key(|(k, _)| k.as_u64().unwrap_or(u64::MAX));
    if t.spelling.body_indef {
        Node::map_indef(m)
    } else {
        Node::map(m)
    }
}

pub struct Resolved {
    pub fee: u64,
    pub change: u64,
    pub ledger_size: u64,
}

fn min_fee(l: u64) -> u64 {
    params::MINFEE_A * l + params::MINFEE_B
}

/// Build the wire artefacts of a post-Byron case.
pub fn build(case: &Case) -> Built {
    build_resolved(case).0
}

pub fn build_resolved(case: &Case) -> (Built, Resolved) {
    let t = &case.tx;
    let in_sum: u128 = t.inputs.iter().map(|i| case.env.get(i).map(|u| u.out.fixed() as u128).unwrap_or(0)).sum();
    let fixed_out: u128 = t.outputs.iter().map(|o| o.fixed() as u128).sum();
    let coll_sum: u128 = t.collateral.as_ref().map(|c| c.iter().map(|i| case.env.get(i).map(|u| u.out.fixed() as u128).unwrap_or(0)).sum()).unwrap_or(0);
    let total_coll = coll_sum.saturating_sub(t.collateral_return.as_ref().map(|o| o.fixed() as u128).unwrap_or(0)).min(u64::MAX as u128) as u64;
    let aux_len = aux_slot_node(t).to_vec().len() as u64;
    let zero_id = [0u8; 32];
    let wits_len = t.wits.node(&zero_id).to_vec().len() as u64;
    let mut fee = match t.fee {
        FeeSpec::Exact(f) => f,
        FeeSpec::MinPlus(_) => 200_000,
    };
    let mut change;
    let mut rounds = 0;
    let (body, l) = loop {
        change = if t.deposit == 0 {
            in_sum.saturating_sub(fee as u128).saturating_sub(fixed_out).min(u64::MAX as u128) as u64
        } else {
            (in_sum as i128 - fee as i128 - fixed_out as i128 - t.deposit).clamp(0, u64::MAX as i128) as u64
        };
        let body = body_node(case, fee, change, total_coll);
        let l = 1 + body.to_vec().len() as u64 + wits_len + aux_len;
        let want = match t.fee {
            FeeSpec::Exact(f) => f,
            FeeSpec::MinPlus(d) => (min_fee(l) as i128 + d as i128).max(0) as u64,
        };
        if want == fee {
            break (body, l);
        }
        fee = want;
        rounds += 1;
        if rounds > 8 {
            crate::fail(&format!("fee fixpoint does not converge for {}", case.label()));
        }
    };
    let body_bytes = body.to_vec();
    let tx_id = blake2b_256(&body_bytes);
    let wits = t.wits.node(&tx_id);
    let parts = vec![body, wits, Node::bool(t.valid), aux_slot_node(t)];
    let tx = if t.spelling.outer_indef { Node::array_indef(parts) } else { Node::array(parts) }.to_vec();
    let utxo = case
        .env
        .utxo
        .iter()
        .map(|u| {
            let e = u.era.unwrap_or(case.era);
            // a Byron-era entry is a Byron TxOut: [[#6.24(payload), crc], amount]
            let bytes = if e == Era::Byron { Node::array(vec![crate::byron::address_node(0), Node::uint(u.out.fixed())]).to_vec() } else { u.out.node(u.out.fixed()).to_vec() };
            UtxoEntry { tx_id: u.at.tx_id(), ix: u.at.ix, era: e, bytes }
        })
        .collect();
    let default_size = params::numbers(case.env.params_era.unwrap_or(case.era)).max_tx_size;
    let max_tx_size = match case.env.max_tx_size {
        SizeSpec::Default => default_size,
        SizeSpec::Exact(x) => x,
        SizeSpec::LedgerPlus(d) => (l as i64 + d).max(0) as u64,
    };
    (
        Built { era: case.era, label: case.label(), tx, utxo, params_era: case.env.params_era.unwrap_or(case.era), max_tx_size, slot: case.env.slot, network_id: case.env.network_id, magic: case.env.magic, account_state: case.env.account_state },
        Resolved { fee, change, ledger_size: l },
    )
}
