//! Decoding with pallas-traverse and calling the real validator.

use crate::params;
use crate::txlab::{Built, Era};
use mc_core::panics::PanicInfo;
use pallas_codec::utils::CborWrap;
use pallas_crypto::hash::Hash;
use pallas_primitives::alonzo::TransactionInput;
use pallas_primitives::byron::TxIn;
use pallas_traverse::{MultiEraInput, MultiEraOutput, MultiEraTx};
use pallas_validate::phase1::validate_tx;
use pallas_validate::utils::{AccountState, CertState, Environment, UTxOs, ValidationError};
use std::borrow::Cow;

#[derive(Clone, Debug)]
pub enum Verdict {
    Accepted,
    /// `{:?}` of the ValidationError
    Rejected(String),
    Panicked(PanicInfo),
    /// the transaction (or a UTxO entry) is not decodable: outside every property's quantifier
    Undecodable(String),
    /// a pallas *decoder* panicked (C09's business, reported as a note)
    DecodePanicked(PanicInfo),
}

impl Verdict {
    pub fn accepted(&self) -> bool {
        matches!(self, Verdict::Accepted)
    }
    /// Outcome class for statistics.
    pub fn class(&self) -> String {
        match self {
            Verdict::Accepted => "Ok".into(),
            Verdict::Rejected(e) => {
                let mut depth = 0;
                let mut out = String::new();
                for ch in e.chars() {
                    if ch == '(' {
                        depth += 1;
                        if depth == 2 {
                            break;
                        }
                    }
                    out.push(ch);
                }
                let out = out.trim_end_matches(')').to_string();
                if out.contains('(') {
                    format!("Err({out}))")
                } else {
                    format!("Err({out})")
                }
            }
            Verdict::Panicked(p) => p.site(),
            Verdict::Undecodable(_) => "undecodable".into(),
            Verdict::DecodePanicked(p) => format!("decode-{}", p.site()),
        }
    }
}

pub fn environment(b: &Built) -> Environment {
    Environment {
        prot_params: params::multi_era_at(b.params_era, b.max_tx_size, b.slot),
        prot_magic: b.magic,
        block_slot: b.slot,
        network_id: b.network_id,
        acnt: if b.account_state { Some(AccountState { treasury: 261_254_564_000_000, reserves: 0 }) } else { None },
    }
}

/// Decode the artefact with pallas-traverse (transaction for its era, UTxO
/// entries for theirs), build the environment and hand all three to `f`.
/// `Err` = not decodable. No panic capture here.
pub fn with_decoded<R>(b: &Built, f: impl FnOnce(&MultiEraTx, &UTxOs, &Environment) -> R) -> Result<R, String> {
    let tx = MultiEraTx::decode_for_era(b.era.pallas(), &b.tx).map_err(|e| format!("tx: {e}"))?;
    let mut utxos: UTxOs = UTxOs::new();
    for u in &b.utxo {
        let out = MultiEraOutput::decode(u.era.pallas(), &u.bytes).map_err(|e| format!("utxo {}#{}: {e}", hex::encode(&u.tx_id[..2]), u.ix))?;
        let input = if b.era == Era::Byron {
            MultiEraInput::Byron(Box::new(Cow::Owned(TxIn::Variant0(CborWrap((Hash::from(u.tx_id), u.ix as u32))))))
        } else {
            MultiEraInput::AlonzoCompatible(Box::new(Cow::Owned(TransactionInput { transaction_id: Hash::from(u.tx_id), index: u.ix })))
        };
        utxos.insert(input, out);
    }
    let env = environment(b);
    Ok(f(&tx, &utxos, &env))
}

/// The real call, without panic capture: `validate_tx` on the decoded artefact
/// with a fresh certificate state. Outer `Err` = not decodable.
pub fn validate(b: &Built) -> Result<Result<(), ValidationError>, String> {
    with_decoded(b, |tx, utxos, env| {
        let mut cs = CertState::default();
        validate_tx(tx, 0, env, utxos, &mut cs)
    })
}

/// `validate` under `mc_core::catch`, separating decoder panics from validator panics.
pub fn run(b: &Built) -> Verdict {
    // decoders first, on their own, so that a decoder panic is not blamed on phase 1
    match mc_core::catch(|| {
        let t = MultiEraTx::decode_for_era(b.era.pallas(), &b.tx).map(|_| ());
        let u: Vec<_> = b.utxo.iter().map(|u| MultiEraOutput::decode(u.era.pallas(), &u.bytes).map(|_| ())).collect();
        (t, u)
    }) {
        Err(p) => return Verdict::DecodePanicked(p),
        Ok((Err(e), _)) => return Verdict::Undecodable(format!("tx: {e}")),
        Ok((_, u)) => {
            if let Some(e) = u.into_iter().find_map(|r| r.err()) {
                return Verdict::Undecodable(format!("utxo: {e}"));
            }
        }
    }
    match mc_core::catch(|| validate(b)) {
        Err(p) => Verdict::Panicked(p),
        Ok(Err(e)) => Verdict::Undecodable(e),
        Ok(Ok(Ok(()))) => Verdict::Accepted,
        Ok(Ok(Err(e))) => Verdict::Rejected(format!("{e:?}")),
    }
}

/// `MultiEraTx::size()` of the built transaction (C36 compares it with the refcbor size).
pub fn traverse_size(b: &Built) -> Option<usize> {
    mc_core::catch(|| MultiEraTx::decode_for_era(b.era.pallas(), &b.tx).ok().map(|t| t.size())).ok().flatten()
}
