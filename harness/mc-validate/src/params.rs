//! Protocol parameters per era. Values are the ones of the fixtures in
//! /repo/pallas-validate/tests (byron.rs / shelley_ma.rs hardcoded_environment_values,
//! alonzo.rs mk_params_epoch_334, babbage.rs and conway.rs mk_mainnet_params_epoch_365).

use crate::txlab::Era;
use pallas_primitives::alonzo::{Language as AlonzoLanguage, Nonce, NonceVariant, RationalNumber};
use pallas_primitives::{ExUnitPrices, ExUnits};
use pallas_validate::utils::{
    AlonzoProtParams, BabbageProtParams, ByronProtParams, ConwayProtParams, MultiEraProtocolParameters, ShelleyProtParams,
};
use std::collections::BTreeMap;

pub const MAINNET_MAGIC: u32 = 764824073;
pub const MINFEE_A: u64 = 44;
pub const MINFEE_B: u64 = 155381;

/// Mainnet PlutusV1 cost model of the Alonzo era (166 entries) — the one in
/// the test fixtures; it is also what the hard-coded language views of the
/// Alonzo validator and of the Babbage validator (mainnet, slot < 72748820)
/// contain, which the acceptance of base B3 confirms at start-up.
pub const PLUTUS_V1_COST_MODEL: [i64; 166] = [
    197209, 0, 1, 1, 396231, 621, 0, 1, 150000, 1000, 0, 1, 150000, 32, 2477736, 29175, 4, 29773, 100, 29773, 100, 29773, 100,
    29773, 100, 29773, 100, 29773, 100, 100, 100, 29773, 100, 150000, 32, 150000, 32, 150000, 32, 150000, 1000, 0, 1, 150000, 32,
    150000, 1000, 0, 8, 148000, 425507, 118, 0, 1, 1, 150000, 1000, 0, 8, 150000, 112536, 247, 1, 150000, 10000, 1, 136542, 1326,
    1, 1000, 150000, 1000, 1, 150000, 32, 150000, 32, 150000, 32, 1, 1, 150000, 1, 150000, 4, 103599, 248, 1, 103599, 248, 1,
    145276, 1366, 1, 179690, 497, 1, 150000, 32, 150000, 32, 150000, 32, 150000, 32, 150000, 32, 150000, 32, 148000, 425507, 118,
    0, 1, 1, 61516, 11218, 0, 1, 150000, 32, 148000, 425507, 118, 0, 1, 1, 148000, 425507, 118, 0, 1, 1, 2477736, 29175, 4, 0,
    82363, 4, 150000, 5000, 0, 1, 150000, 32, 197209, 0, 1, 1, 150000, 32, 150000, 32, 150000, 32, 150000, 32, 150000, 32, 150000,
    32, 150000, 32, 3345831, 1, 1,
];

/// The numbers the oracles need, per era (same values as in the structs below).
#[derive(Clone, Copy, Debug)]
pub struct Numbers {
    pub default_slot: u64,
    pub max_tx_size: u64,
    pub max_mem: u64,
    pub max_steps: u64,
    pub min_utxo_value: u64,
    pub ada_per_utxo_byte: u64,
    pub collateral_percentage: u64,
    pub max_collateral_inputs: u64,
}

pub fn numbers(era: Era) -> Numbers {
    match era {
        Era::Byron => Numbers { default_slot: 6341, max_tx_size: 4096, max_mem: 0, max_steps: 0, min_utxo_value: 0, ada_per_utxo_byte: 0, collateral_percentage: 0, max_collateral_inputs: 0 },
        Era::Shelley | Era::Allegra | Era::Mary => Numbers { default_slot: 5281340, max_tx_size: 4096, max_mem: 0, max_steps: 0, min_utxo_value: 1_000_000, ada_per_utxo_byte: 0, collateral_percentage: 0, max_collateral_inputs: 0 },
        Era::Alonzo => Numbers { default_slot: 44237276, max_tx_size: 16384, max_mem: 10_000_000, max_steps: 10_000_000_000, min_utxo_value: 0, ada_per_utxo_byte: 34482, collateral_percentage: 150, max_collateral_inputs: 3 },
        Era::Babbage => Numbers { default_slot: 72316896, max_tx_size: 16384, max_mem: 14_000_000, max_steps: 10_000_000_000, min_utxo_value: 0, ada_per_utxo_byte: 4310, collateral_percentage: 150, max_collateral_inputs: 3 },
        Era::Conway => Numbers { default_slot: 72316896, max_tx_size: 16384, max_mem: 14_000_000, max_steps: 10_000_000_000, min_utxo_value: 0, ada_per_utxo_byte: 4310, collateral_percentage: 150, max_collateral_inputs: 3 },
    }
}

fn rat(n: u64, d: u64) -> RationalNumber {
    RationalNumber { numerator: n, denominator: d }
}

fn start() -> chrono::DateTime<chrono::FixedOffset> {
    chrono::DateTime::parse_from_rfc3339("2017-09-23T21:44:51Z").unwrap()
}

fn neutral() -> Nonce {
    Nonce { variant: NonceVariant::NeutralNonce, hash: None }
}

fn prices() -> ExUnitPrices {
    ExUnitPrices { mem_price: rat(577, 10000), step_price: rat(721, 10000000) }
}

pub fn byron(max_tx_size: u64) -> ByronProtParams {
    ByronProtParams {
        block_version: (1, 0, 0),
        start_time: 1506203091,
        script_version: 0,
        slot_duration: 20000,
        max_block_size: 2000000,
        max_header_size: 2000000,
        max_tx_size,
        max_proposal_size: 700,
        mpc_thd: 20000000000000,
        heavy_del_thd: 300000000000,
        update_vote_thd: 1000000000000,
        update_proposal_thd: 100000000000000,
        update_implicit: 10000,
        soft_fork_rule: (900000000000000, 600000000000000, 50000000000000),
        summand: MINFEE_B,
        multiplier: MINFEE_A,
        unlock_stake_epoch: 18446744073709551615,
    }
}

pub fn shelley(max_tx_size: u32) -> ShelleyProtParams {
    ShelleyProtParams {
        system_start: start(),
        epoch_length: 432000,
        slot_length: 1,
        minfee_b: MINFEE_B as u32,
        minfee_a: MINFEE_A as u32,
        max_block_body_size: 65536,
        max_transaction_size: max_tx_size,
        max_block_header_size: 1100,
        key_deposit: 2000000,
        pool_deposit: 500000000,
        maximum_epoch: 18,
        desired_number_of_stake_pools: 150,
        pool_pledge_influence: rat(1, 1),
        expansion_rate: rat(1, 1),
        treasury_growth_rate: rat(1, 1),
        decentralization_constant: rat(1, 1),
        extra_entropy: neutral(),
        protocol_version: (0, 2),
        min_utxo_value: 1000000,
        min_pool_cost: 340000000,
    }
}

pub fn alonzo(max_tx_size: u32) -> AlonzoProtParams {
    AlonzoProtParams {
        system_start: start(),
        epoch_length: 432000,
        slot_length: 1,
        minfee_a: MINFEE_A as u32,
        minfee_b: MINFEE_B as u32,
        max_block_body_size: 65536,
        max_transaction_size: max_tx_size,
        max_block_header_size: 1100,
        key_deposit: 2000000,
        pool_deposit: 500000000,
        maximum_epoch: 18,
        desired_number_of_stake_pools: 500,
        pool_pledge_influence: rat(3, 10),
        expansion_rate: rat(3, 1000),
        treasury_growth_rate: rat(2, 10),
        decentralization_constant: rat(0, 1),
        extra_entropy: neutral(),
        protocol_version: (6, 0),
        min_pool_cost: 340000000,
        ada_per_utxo_byte: 34482,
        cost_models_for_script_languages: [(AlonzoLanguage::PlutusV1, PLUTUS_V1_COST_MODEL.to_vec())].into(),
        execution_costs: prices(),
        max_tx_ex_units: ExUnits { mem: 10000000, steps: 10000000000 },
        max_block_ex_units: ExUnits { mem: 50000000, steps: 40000000000 },
        max_value_size: 5000,
        collateral_percentage: 150,
        max_collateral_inputs: 3,
    }
}

pub fn babbage(max_tx_size: u32) -> BabbageProtParams {
    BabbageProtParams {
        system_start: start(),
        epoch_length: 432000,
        slot_length: 1,
        minfee_a: MINFEE_A as u32,
        minfee_b: MINFEE_B as u32,
        max_block_body_size: 90112,
        max_transaction_size: max_tx_size,
        max_block_header_size: 1100,
        key_deposit: 2000000,
        pool_deposit: 500000000,
        maximum_epoch: 18,
        desired_number_of_stake_pools: 500,
        pool_pledge_influence: rat(3, 10),
        expansion_rate: rat(3, 1000),
        treasury_growth_rate: rat(2, 10),
        decentralization_constant: rat(0, 1),
        extra_entropy: neutral(),
        protocol_version: (7, 0),
        min_pool_cost: 340000000,
        ada_per_utxo_byte: 4310,
        cost_models_for_script_languages: pallas_primitives::babbage::CostModels { plutus_v1: Some(PLUTUS_V1_COST_MODEL.to_vec()), plutus_v2: None },
        execution_costs: prices(),
        max_tx_ex_units: ExUnits { mem: 14000000, steps: 10000000000 },
        max_block_ex_units: ExUnits { mem: 62000000, steps: 40000000000 },
        max_value_size: 5000,
        collateral_percentage: 150,
        max_collateral_inputs: 3,
    }
}

pub fn conway(max_tx_size: u32) -> ConwayProtParams {
    use pallas_primitives::conway::{CostModels, DRepVotingThresholds, PoolVotingThresholds};
    ConwayProtParams {
        system_start: start(),
        epoch_length: 432000,
        slot_length: 1,
        minfee_a: MINFEE_A as u32,
        minfee_b: MINFEE_B as u32,
        max_block_body_size: 90112,
        max_transaction_size: max_tx_size,
        max_block_header_size: 1100,
        key_deposit: 2000000,
        pool_deposit: 500000000,
        maximum_epoch: 18,
        desired_number_of_stake_pools: 500,
        pool_pledge_influence: rat(3, 10),
        expansion_rate: rat(3, 1000),
        treasury_growth_rate: rat(2, 10),
        protocol_version: (7, 0),
        min_pool_cost: 340000000,
        ada_per_utxo_byte: 4310,
        cost_models_for_script_languages: CostModels { plutus_v1: Some(PLUTUS_V1_COST_MODEL.to_vec()), plutus_v2: None, plutus_v3: None, unknown: BTreeMap::default() },
        execution_costs: prices(),
        max_tx_ex_units: ExUnits { mem: 14000000, steps: 10000000000 },
        max_block_ex_units: ExUnits { mem: 62000000, steps: 40000000000 },
        max_value_size: 5000,
        collateral_percentage: 150,
        max_collateral_inputs: 3,
        pool_voting_thresholds: PoolVotingThresholds {
            motion_no_confidence: rat(50, 100),
            committee_normal: rat(60, 100),
            committee_no_confidence: rat(40, 100),
            hard_fork_initiation: rat(75, 100),
            security_voting_threshold: rat(80, 100),
        },
        drep_voting_thresholds: DRepVotingThresholds {
            motion_no_confidence: rat(10, 100),
            committee_normal: rat(25, 100),
            committee_no_confidence: rat(15, 100),
            update_constitution: rat(50, 100),
            hard_fork_initiation: rat(60, 100),
            pp_network_group: rat(55, 100),
            pp_economic_group: rat(65, 100),
            pp_technical_group: rat(70, 100),
            pp_governance_group: rat(85, 100),
            treasury_withdrawal: rat(90, 100),
        },
        min_committee_size: 10,
        committee_term_limit: 5,
        governance_action_validity_period: 3600,
        governance_action_deposit: 1000,
        drep_deposit: 2000,
        drep_inactivity_period: 60,
        minfee_refscript_cost_per_byte: rat(10, 100),
    }
}

/// Protocol parameters of `era` with the given size limit (the only parameter
/// any check varies: C36 sets it to the transaction's own size).
pub fn multi_era(era: Era, max_tx_size: u64) -> MultiEraProtocolParameters {
    multi_era_at(era, max_tx_size, 0)
}

/// The parameters in force at `slot`: the Conway set carries the PlutusV2 cost model from
/// [`V2_MODEL_FROM_SLOT`] on (base B3v2); every other era's set does not depend on the slot
/// (the Babbage validator reads languages and language views from network and slot itself).
pub fn multi_era_at(era: Era, max_tx_size: u64, slot: u64) -> MultiEraProtocolParameters {
    if era == Era::Conway && slot >= V2_MODEL_FROM_SLOT {
        let mut p = conway(max_tx_size.min(u32::MAX as u64) as u32);
        p.cost_models_for_script_languages.plutus_v2 = Some(PLUTUS_V2_COST_MODEL.to_vec());
        return MultiEraProtocolParameters::Conway(p);
    }
    multi_era_inner(era, max_tx_size)
}

fn multi_era_inner(era: Era, max_tx_size: u64) -> MultiEraProtocolParameters {
    let m32 = max_tx_size.min(u32::MAX as u64) as u32;
    match era {
        Era::Byron => MultiEraProtocolParameters::Byron(byron(max_tx_size)),
        Era::Shelley | Era::Allegra | Era::Mary => MultiEraProtocolParameters::Shelley(shelley(m32)),
        Era::Alonzo => MultiEraProtocolParameters::Alonzo(alonzo(m32)),
        Era::Babbage => MultiEraProtocolParameters::Babbage(babbage(m32)),
        Era::Conway => MultiEraProtocolParameters::Conway(conway(m32)),
    }
}
/// Mainnet PlutusV2 cost model from epoch 394 on (175 entries) — copied once from
/// the mainnet parameters (the Babbage validator hard-codes the language view per
/// network and slot range; a change there shows as a rejected B3v2 base).
pub const PLUTUS_V2_COST_MODEL: [i64; 175] = [205665, 812, 1, 1, 1000, 571, 0, 1, 1000, 24177, 4, 1, 1000, 32, 117366, 10475, 4, 23000, 100, 23000, 100, 23000, 100, 23000, 100, 23000, 100, 23000, 100, 100, 100, 23000, 100, 19537, 32, 175354, 32, 46417, 4, 221973, 511, 0, 1, 89141, 32, 497525, 14068, 4, 2, 196500, 453240, 220, 0, 1, 1, 1000, 28662, 4, 2, 245000, 216773, 62, 1, 1060367, 12586, 1, 208512, 421, 1, 187000, 1000, 52998, 1, 80436, 32, 43249, 32, 1000, 32, 80556, 1, 57667, 4, 1000, 10, 197145, 156, 1, 197145, 156, 1, 204924, 473, 1, 208896, 511, 1, 52467, 32, 64832, 32, 65493, 32, 22558, 32, 16563, 32, 76511, 32, 196500, 453240, 220, 0, 1, 1, 69522, 11687, 0, 1, 60091, 32, 196500, 453240, 220, 0, 1, 1, 196500, 453240, 220, 0, 1, 1, 1159724, 392670, 0, 2, 806990, 30482, 4, 1927926, 82523, 4, 265318, 0, 4, 0, 85931, 32, 205665, 812, 1, 1, 41182, 32, 212342, 32, 31220, 32, 32696, 32, 43357, 32, 32247, 32, 38314, 32, 35892428, 10, 57996947, 18975, 10, 38887044, 32947, 10];
/// First mainnet slot at which the validator uses [`PLUTUS_V2_COST_MODEL`].
pub const V2_MODEL_FROM_SLOT: u64 = 84_844_885;
/// First mainnet slot with PlutusV2 available (epoch 366).
pub const V2_FROM_SLOT: u64 = 72_748_820;
