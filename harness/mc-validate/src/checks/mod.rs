//! The property checks built on TxLab. Shared helpers live here; one file per
//! property.

pub mod c33;
pub mod c34;
pub mod c35;
pub mod c36;
pub mod c37;
pub mod c38;
pub mod c39;

use crate::exec::{self, Verdict};
use crate::txlab::Built;
use mc_core::panics::PanicInfo;
use mc_core::{json, Ctx, Value};
use std::collections::BTreeMap;
use std::sync::Mutex;

/// Print the fixed property statement first (from /verif/properties.jsonl).
pub fn print_statement(ctx: &Ctx) {
    let p = ctx.root.join("properties.jsonl");
    if let Ok(s) = std::fs::read_to_string(&p) {
        for l in s.lines() {
            if let Ok(v) = mc_core::serde_json::from_str::<Value>(l) {
                if v.get("id").and_then(|x| x.as_str()) == Some(ctx.prop.as_str()) {
                    println!("{} — {}", ctx.prop, v.get("title").and_then(|x| x.as_str()).unwrap_or(""));
                    println!("statement: {}", v.get("statement").and_then(|x| x.as_str()).unwrap_or(""));
                    return;
                }
            }
        }
    }
    println!("{} (statement not found in {})", ctx.prop, p.display());
}

/// Name of the function enclosing `file:line` of the pallas tree (only used to
/// tell two panic sites of one file apart in a fingerprint).
pub fn fn_of(location: &str) -> String {
    let Some((file, line)) = location.rsplit_once(':') else { return "?".into() };
    let Ok(line) = line.parse::<usize>() else { return "?".into() };
    let path = if file.starts_with('/') { file.to_string() } else { format!("/repo/{file}") };
    let Ok(src) = std::fs::read_to_string(&path) else { return format!("line{line}") };
    let lines: Vec<&str> = src.lines().collect();
    for i in (0..line.min(lines.len())).rev() {
        let l = lines[i].trim_start();
        let l = l.strip_prefix("pub ").unwrap_or(l);
        let l = l.strip_prefix("pub(crate) ").unwrap_or(l);
        if let Some(rest) = l.strip_prefix("fn ") {
            return rest.chars().take_while(|c| c.is_alphanumeric() || *c == '_').collect();
        }
    }
    format!("line{line}")
}

/// Fingerprint of a panic: site (file + message kind) + enclosing function.
pub fn panic_fp(p: &PanicInfo) -> String {
    format!("{} in {}", p.site(), fn_of(&p.location))
}

pub fn case_json(b: &Built, v: &Verdict) -> Value {
    json!({"case": b.label, "verdict": format!("{v:?}"), "artefact": b.to_json()})
}

/// `--replay <file>`: re-run the stored artefact against the current tree.
pub fn replay_if_asked(ctx: &Ctx) {
    if let Some(p) = &ctx.replay {
        let s = std::fs::read_to_string(p).unwrap_or_else(|e| crate::fail(&format!("cannot read {p:?}: {e}")));
        let v: Value = mc_core::serde_json::from_str(&s).unwrap_or_else(|e| crate::fail(&format!("bad replay file: {e}")));
        let art = v.pointer("/case/artefact").or_else(|| v.pointer("/artefact")).unwrap_or(&v);
        let Some(b) = Built::from_json(art) else { crate::fail("replay file carries no TxLab artefact") };
        println!("replay {}: {}", ctx.prop, b.label);
        println!("  tx        = {}", hex::encode(&b.tx));
        println!("  verdict   = {:?}", exec::run(&b));
        std::process::exit(0);
    }
}

/// Keeps, per fingerprint, the minimal witness (fewest deviations, then
/// shortest label) and the number of witnesses; flushed into the Ctx at the end
/// so that the stored replay is the minimal case and not the first one a
/// worker thread happened to reach.
#[derive(Default)]
pub struct Findings {
    inner: Mutex<BTreeMap<String, (usize, String, String, Value, u64)>>,
}

impl Findings {
    pub fn add(&self, fp: String, ndev: usize, what: String, b: &Built, v: &Verdict) {
        let mut m = self.inner.lock().unwrap();
        match m.get_mut(&fp) {
            Some(e) => {
                e.4 += 1;
                if (ndev, b.label.len(), &b.label) < (e.0, e.1.len(), &e.1) {
                    *e = (ndev, b.label.clone(), what, case_json(b, v), e.4);
                }
            }
            None => {
                m.insert(fp, (ndev, b.label.clone(), what, case_json(b, v), 1));
            }
        }
    }
    pub fn len(&self) -> usize {
        self.inner.lock().unwrap().len()
    }
    pub fn is_empty(&self) -> bool {
        self.len() == 0
    }
    pub fn summary(&self) -> Vec<Value> {
        self.inner.lock().unwrap().iter().map(|(fp, e)| json!({"fingerprint": fp, "minimal_case": e.1, "deviations": e.0, "what": e.2, "witnesses": e.4})).collect()
    }
    pub fn flush(&self, ctx: &Ctx) {
        for (fp, e) in self.inner.lock().unwrap().iter() {
            ctx.violation(fp.clone(), format!("{} — minimal case: {}", e.2, e.1), e.3.clone());
            for _ in 1..e.4 {
                ctx.violation(fp.clone(), String::new(), Value::Null);
            }
        }
    }
}

/// Diagnostic table (`mc-validate SPELLINGS`): verdict of every base under each
/// wire-spelling deviation, i.e. which spellings the real decoders accept.
pub fn spellings(_ctx: Ctx) -> ! {
    crate::quiet::silence_stderr();
    let dims = ["aux", "auxform", "outerform", "bodyform", "outsform", "feewidth", "witsform", "vkeystag"];
    let mut rows = vec![];
    for base in crate::bases::bases() {
        for d in crate::devs::deviations(&base, 0) {
            if !dims.contains(&d.dim.as_str()) || d.name == "aux=present" {
                continue;
            }
            let mut c = base.clone();
            d.apply(&mut c);
            let v = exec::run(&crate::txlab::build(&c));
            rows.push(format!("{:45} {:28} {}", base.label(), d.name, v.class()));
        }
    }
    crate::quiet::restore_stderr();
    for r in rows {
        println!("{r}");
    }
    std::process::exit(0)
}
