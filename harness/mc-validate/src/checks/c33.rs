//! C33 — phase-1 validation is total.
//!
//! Every case of the TxLab space (all eras incl. Byron; every base, every
//! single deviation, every pair of deviations of different dimensions) that
//! pallas-traverse decodes is given to `validate_tx` with its UTxO set and
//! the era's well-known protocol parameters; the call must return Ok or Err.
//! A panic is a violation, fingerprinted by panic site + enclosing function.

use super::*;
use crate::explore::{self, Bounds, ALL_ERAS};
use mc_core::{Ctx, Level};

/// Panic sites suspected in DESIGN.md section 7 (and found while reading):
/// (label, file suffix, function).
const SUSPECTS: &[(&str, &str, &str)] = &[
    ("utils.rs conway_coerce_to_coin: PositiveCoin::try_from(sum).unwrap()", "utils.rs", "conway_coerce_to_coin"),
    ("utils.rs conway_coerce_to_non_zero_coin: PositiveCoin::try_from(i64 as u64).unwrap()", "utils.rs", "conway_coerce_to_non_zero_coin"),
    ("utils.rs add_same_policy_assets: unchecked i64 +", "utils.rs", "add_same_policy_assets"),
    ("utils.rs conway_add_same_policy_assets: unchecked u64 +", "utils.rs", "conway_add_same_policy_assets"),
    ("utils.rs conway_add_same_non_zero_policy_assets: (u64 as i64) + i64", "utils.rs", "conway_add_same_non_zero_policy_assets"),
    ("utils.rs verify_signature: copy_from_slice on a key / signature of the wrong length", "utils.rs", "verify_signature"),
    ("conway.rs get_produced: PositiveCoin::try_from(legacy quantity).unwrap()", "conway.rs", "get_produced"),
    ("conway.rs check_min_lovelace: PositiveCoin::try_from(legacy quantity).unwrap()", "conway.rs", "check_min_lovelace"),
    ("conway.rs check_output_val_size: PositiveCoin::try_from(legacy quantity).unwrap()", "conway.rs", "check_output_val_size"),
    ("conway.rs check_collaterals_assets: unwrap on legacy collateral return / first()", "conway.rs", "check_collaterals_assets"),
    ("alonzo.rs check_collaterals_assets: fee * collateral_percentage, n * 100", "alonzo.rs", "check_collaterals_assets"),
    ("babbage.rs check_collaterals_assets: fee * collateral_percentage, paid * 100", "babbage.rs", "check_collaterals_assets"),
    ("alonzo.rs check_tx_ex_units: unchecked += over redeemers", "alonzo.rs", "check_tx_ex_units"),
    ("babbage.rs check_tx_ex_units: unchecked += over redeemers", "babbage.rs", "check_tx_ex_units"),
    ("babbage.rs val_from_multi_era_output: unimplemented!() for a later-era UTxO entry", "babbage.rs", "val_from_multi_era_output"),
    ("byron.rs check_fees: inputs_balance - outputs_balance / += without checks", "byron.rs", "check_fees"),
    ("byron.rs get_signature: copy_from_slice on a signature of the wrong length", "byron.rs", "get_signature"),
    ("byron.rs get_verification_key: slice [0..32] of a short key", "byron.rs", "get_verification_key"),
    ("shelley_ma.rs check_fees / alonzo check_min_fee: u32 minfee_a * size", "shelley_ma.rs", "check_fees"),
];

pub fn run(ctx: Ctx) -> ! {
    print_statement(&ctx);
    replay_if_asked(&ctx);
    let bounds = Bounds::tier(ctx.thorough);
    let found = Findings::default();
    let decode_panics = Findings::default();
    let sites: std::sync::Mutex<std::collections::BTreeMap<(String, String), (String, String)>> = Default::default();
    let sum = explore::sweep(&ALL_ERAS, &|_| true, bounds, &|b, v, nd| match v {
        Verdict::Panicked(p) => {
            let f = fn_of(&p.location);
            found.add(panic_fp(p), nd, format!("validate_tx panicked: {} at {}", p.message, p.location), b, v);
            let file = p.location.rsplit_once(':').map(|x| x.0).unwrap_or("").to_string();
            let mut s = sites.lock().unwrap();
            let e = s.entry((file, f)).or_insert_with(|| (b.label.clone(), p.location.clone()));
            if (b.label.len(), &b.label) < (e.0.len(), &e.0) {
                *e = (b.label.clone(), p.location.clone());
            }
        }
        Verdict::DecodePanicked(p) => decode_panics.add(panic_fp(p), nd, format!("decoder panicked: {} at {}", p.message, p.location), b, v),
        _ => {}
    });
    if sum.classes.len() < 10 || sum.accepted_by_era.len() < 7 {
        crate::fail(&format!("C33 exploration degenerate: {} outcome classes, accepted per era {:?}", sum.classes.len(), sum.accepted_by_era));
    }
    // confirm / refute the suspected sites
    let s = sites.lock().unwrap();
    let suspects: Vec<Value> = SUSPECTS
        .iter()
        .map(|(label, file, func)| match s.iter().find(|((f, g), _)| f.ends_with(file) && g == func) {
            Some((_, (case, loc))) => json!({"suspect": label, "status": "confirmed", "location": loc, "minimal_case": case}),
            None => json!({"suspect": label, "status": "not reached by any of the explored cases"}),
        })
        .collect();
    for x in &suspects {
        println!("suspect: {x}");
    }
    if !decode_panics.is_empty() {
        ctx.note(format!("decoder panics (outside C33, see C09): {:?}", decode_panics.summary()));
    }
    found.flush(&ctx);
    let mut cov = sum.coverage(&format!(
        "TxLab space: per base (Byron B1, B1r; post-Byron B1/B2/B3 per era, B3m for Conway) every single deviation and every pair of deviations of different dimensions ({}); a case is non-trivial when pallas-traverse decodes it so that validate_tx runs; distinct by Blake2b of (tx bytes, UTxO bytes, environment numbers)",
        bounds.describe()
    ));
    cov.insert("panic_sites".into(), json!(found.summary()));
    cov.insert("suspected_sites".into(), json!(suspects));
    ctx.finish(
        Level::Exploration,
        cov,
        &[
            "transactions are those TxLab can express (payments, mint/burn, native and dummy Plutus scripts, collateral, metadata); no certificates, withdrawals, governance",
            "protocol parameters are the fixtures' values per era; only max_tx_size varies",
            "release profile with overflow-checks and debug-assertions on",
        ],
    )
}
