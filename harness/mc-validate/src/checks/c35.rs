//! C35 — accepted transactions carry only valid signatures and all needed ones.
//!
//! For every ACCEPTED post-Byron case: (1) every vkey witness of the witness
//! set verifies under ed25519-dalek for Blake2b-256(body bytes); (2) every
//! input and collateral input whose UTxO entry has a key payment credential
//! has a valid witness whose key hashes (Blake2b-224) to it; (3) so does every
//! required signer. All read from the wire bytes with refcbor.

use super::*;
use crate::explore::{self, Bounds};
use crate::keys;
use crate::txlab::{Era, POST_BYRON};
use crate::wire::{self, PayCred, TxView};
use mc_core::{Ctx, Level};
use std::sync::atomic::{AtomicU64, Ordering};

pub fn run(ctx: Ctx) -> ! {
    print_statement(&ctx);
    replay_if_asked(&ctx);
    let bounds = Bounds::tier(ctx.thorough);
    let found = Findings::default();
    let checked = AtomicU64::new(0);
    let sigs = AtomicU64::new(0);
    let extra = AtomicU64::new(0);
    let reqs = AtomicU64::new(0);
    let colls = AtomicU64::new(0);
    let bootstrap = AtomicU64::new(0);
    let bootstrap_example: std::sync::Mutex<Option<String>> = std::sync::Mutex::new(None);
    let unreadable = AtomicU64::new(0);
    let sum = explore::sweep(&POST_BYRON, &|_| true, bounds, &|b, v, nd| {
        if !v.accepted() {
            return;
        }
        let Some(view) = TxView::parse(&b.tx) else {
            unreadable.fetch_add(1, Ordering::Relaxed);
            return;
        };
        checked.fetch_add(1, Ordering::Relaxed);
        let id = view.tx_id();
        let wits = view.vkey_witnesses();
        let valid: Vec<bool> = wits.iter().map(|(k, s)| keys::verify(k, &id, s)).collect();
        sigs.fetch_add(wits.len() as u64, Ordering::Relaxed);
        let group = b.era.group();
        // which witnesses cover a key-locked input / collateral (first witness of that key)?
        let mut needed_hashes: Vec<[u8; 28]> = vec![];
        for (h, ix) in view.inputs().into_iter().chain(view.collateral()) {
            if let Some(u) = b.utxo.iter().find(|u| u.tx_id == h && u.ix == ix) {
                if let Some(PayCred::Key(kh)) = wire::utxo_out_view(u.era == Era::Byron, &u.bytes).map(|o| o.pay_cred()) {
                    needed_hashes.push(kh);
                }
            }
        }
        let mut covering = vec![false; wits.len()];
        for kh in &needed_hashes {
            if let Some(i) = wits.iter().position(|(k, _)| wire::key_hash(k) == *kh) {
                covering[i] = true;
            }
        }
        // (1)
        if let Some(i) = valid.iter().position(|ok| !ok) {
            let class = if covering[i] {
                "covering-witness"
            } else if (0..i).any(|j| !covering[j] && valid[j]) {
                "after-a-valid-uncovered-witness"
            } else {
                "first-uncovered-witness"
            };
            found.add(
                format!("c35:invalid-witness-accepted:{class}:{group}"),
                nd,
                format!("accepted {} tx whose vkey witness #{i} of {} (key {}.., {}-byte key, {}-byte signature) is not a valid signature of the tx id", b.era.name(), wits.len(), hex::encode(&wits[i].0[..4.min(wits[i].0.len())]), wits[i].0.len(), wits[i].1.len()),
                b,
                v,
            );
        }
        let has_valid = |h: &[u8]| wits.iter().zip(&valid).any(|((k, _), ok)| *ok && wire::key_hash(k)[..] == *h);
        // (2)
        let mut needed = 0usize;
        let coll = view.collateral();
        if !coll.is_empty() {
            colls.fetch_add(1, Ordering::Relaxed);
        }
        for (what, list) in [("input", view.inputs()), ("collateral input", coll)] {
            for (h, ix) in list {
                let Some(u) = b.utxo.iter().find(|u| u.tx_id == h && u.ix == ix) else { continue };
                let Some(o) = wire::utxo_out_view(u.era == Era::Byron, &u.bytes) else { continue };
                match o.pay_cred() {
                    PayCred::Key(kh) => {
                        needed += 1;
                        if !has_valid(&kh) {
                            found.add(format!("c35:{}-without-witness:{group}", what.replace(' ', "-")), nd, format!("accepted {} tx: key-locked {what} {}..#{ix} (payment key hash {}..) has no valid witness", b.era.name(), hex::encode(&h[..2]), hex::encode(&kh[..4])), b, v);
                        }
                    }
                    PayCred::Bootstrap => {
                        bootstrap.fetch_add(1, Ordering::Relaxed);
                        let mut e = bootstrap_example.lock().unwrap();
                        if e.as_ref().map(|x| (b.label.len(), &b.label) < (x.len(), x)).unwrap_or(true) {
                            *e = Some(b.label.clone());
                        }
                    }
                    _ => {}
                }
            }
        }
        // (3)
        let rs = view.required_signers();
        if !rs.is_empty() {
            reqs.fetch_add(1, Ordering::Relaxed);
        }
        for h in rs {
            if !has_valid(&h) {
                found.add(format!("c35:required-signer-without-witness:{group}"), nd, format!("accepted {} tx: required signer {}.. has no valid witness", b.era.name(), hex::encode(&h[..4.min(h.len())])), b, v);
            }
        }
        if wits.len() > needed {
            extra.fetch_add(1, Ordering::Relaxed);
        }
    });
    if unreadable.load(Ordering::Relaxed) > 0 {
        crate::fail("accepted artefacts could not be read back by the refcbor view");
    }
    for era in POST_BYRON {
        if sum.accepted(era) == 0 {
            crate::fail(&format!("C35 vacuous: no accepted case in era {}", era.name()));
        }
    }
    if extra.load(Ordering::Relaxed) == 0 || reqs.load(Ordering::Relaxed) == 0 || colls.load(Ordering::Relaxed) == 0 {
        crate::fail("C35 vacuous: no accepted case with extra witnesses / required signers / collateral");
    }
    if let Some(l) = bootstrap_example.lock().unwrap().clone() {
        ctx.note(format!(
            "diagnostic (stronger than the property text, not a verdict): {} accepted cases spend a UTxO entry locked by a Byron bootstrap address without any witness for it, e.g. {l}",
            bootstrap.load(Ordering::Relaxed)
        ));
    }
    found.flush(&ctx);
    let mut cov = sum.coverage(&format!(
        "TxLab space of the post-Byron eras: every base, single deviation and pair of deviations of different dimensions ({}); witness lists: every list over {{valid(K0), corrupt(K0), valid(K1), corrupt(K1), unrelated-valid, unrelated-corrupt, wrong-length key}} in every order; the oracle runs on every ACCEPTED case; non-trivial = decoded, distinct by Blake2b of (tx, UTxO, environment)",
        bounds.describe()
    ));
    cov.insert("accepted_checked".into(), json!(checked.load(Ordering::Relaxed)));
    cov.insert("signatures_verified_with_dalek".into(), json!(sigs.load(Ordering::Relaxed)));
    cov.insert("accepted_with_more_witnesses_than_needed".into(), json!(extra.load(Ordering::Relaxed)));
    cov.insert("accepted_with_required_signers".into(), json!(reqs.load(Ordering::Relaxed)));
    cov.insert("accepted_with_collateral".into(), json!(colls.load(Ordering::Relaxed)));
    cov.insert("accepted_inputs_with_bootstrap_address_skipped".into(), json!(bootstrap.load(Ordering::Relaxed)));
    cov.insert("findings".into(), json!(found.summary()));
    ctx.finish(
        Level::Exploration,
        cov,
        &["ed25519-dalek `verify` is the reference for signature validity", "inputs locked by Byron bootstrap addresses need a bootstrap witness, not a vkey witness: not judged", "inputs absent from the UTxO set are not judged here"],
    )
}
