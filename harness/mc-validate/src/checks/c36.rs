//! C36 — fee and size limits use the ledger's transaction size.
//!
//! Fixtures: every post-Byron base and every single deviation of it that is
//! accepted as generated (deviations of the fee / size-limit dimensions
//! excluded). For each fixture, with L = ledger size read from the wire bytes
//! (refcbor spans: array head + body + witness set + aux data or null, i.e. the
//! serialized transaction without the validity flag):
//!   * `MultiEraTx::size()` must equal L;
//!   * re-priced to fee = a*L + b (L of the re-priced transaction): accepted;
//!   * fee = a*L + b - 1: rejected;
//!   * max_tx_size = L: accepted;  max_tx_size = L - 1: rejected.

use super::*;
use crate::bases;
use crate::devs;
use crate::exec;
use crate::explore;
use crate::params;
use crate::txlab::{self, Case, Era, FeeSpec, SizeSpec, POST_BYRON};
use crate::wire::TxView;
use mc_core::{Ctx, Level};
use rayon::prelude::*;
use std::collections::{BTreeMap, HashSet};
use std::sync::atomic::{AtomicU64, Ordering};
use std::sync::Mutex;

fn size_fn(era: Era) -> &'static str {
    match era.group() {
        "shelley_ma" | "alonzo" => "get_alonzo_comp_tx_size",
        "babbage" => "get_babbage_tx_size",
        "conway" => "get_conway_tx_size",
        _ => "byron",
    }
}

struct Probe {
    built: txlab::Built,
    verdict: Verdict,
    ledger_size: u64,
    fee: u64,
}

fn probe(c: &Case) -> Probe {
    let built = txlab::build(c);
    let view = TxView::parse(&built.tx).unwrap_or_else(|| crate::fail(&format!("cannot read back {}", built.label)));
    let ledger_size = view.ledger_size();
    let fee = view.body().map_get(2).and_then(|n| n.as_u64()).unwrap_or(0);
    let verdict = exec::run(&built);
    Probe { built, verdict, ledger_size, fee }
}

pub fn run(ctx: Ctx) -> ! {
    print_statement(&ctx);
    replay_if_asked(&ctx);
    let found = Findings::default();
    let evals = AtomicU64::new(0);
    let distinct: Mutex<HashSet<[u8; 16]>> = Mutex::new(HashSet::new());
    let fixtures_by_era: Mutex<BTreeMap<String, u64>> = Mutex::new(BTreeMap::new());
    let accepted_by_era: Mutex<BTreeMap<String, u64>> = Mutex::new(BTreeMap::new());
    let mut diag: Vec<Value> = vec![];
    let mut samples: Vec<Value> = vec![];
    let note = |p: &Probe| {
        evals.fetch_add(1, Ordering::Relaxed);
        distinct.lock().unwrap().insert(explore::digest(&p.built));
        if p.verdict.accepted() {
            *accepted_by_era.lock().unwrap().entry(p.built.era.name().into()).or_default() += 1;
        }
    };
    crate::quiet::silence_stderr();
    // every base also in variants whose LAST part of the ledger size is spelled differently:
    // auxiliary data with the right hash (aux bytes instead of null), and the empty slot
    // written as CBOR `undefined` instead of `null` (1 byte either way). A variant the real
    // decoder rejects is counted and skipped.
    let mut all_bases = vec![];
    let mut variants_rejected_by_decoder: BTreeMap<String, u64> = BTreeMap::new();
    for b in bases::bases() {
        let mut with_aux = b.clone();
        with_aux.tx.aux = true;
        with_aux.tx.aux_hash = txlab::HashSpec::Right;
        with_aux.base = format!("{}+aux", with_aux.base);
        let mut undef = b.clone();
        undef.tx.spelling.aux_slot_undefined = true;
        undef.base = format!("{}+aux-slot-undefined", undef.base);
        all_bases.push(b);
        for v in [with_aux, undef] {
            if matches!(exec::run(&txlab::build(&v)), Verdict::Undecodable(_)) {
                *variants_rejected_by_decoder.entry(format!("{}:{}", v.era.name(), v.base.split('+').skip(1).collect::<Vec<_>>().join("+"))).or_default() += 1;
            } else {
                all_bases.push(v);
            }
        }
    }
    for base in all_bases {
        let era = base.era;
        let p0 = probe(&base);
        note(&p0);
        if !p0.verdict.accepted() {
            crate::fail(&format!("base {} not accepted: {:?}", base.label(), p0.verdict));
        }
        // fixtures = base + accepted single deviations (not of the dimensions under test)
        let ds: Vec<_> = devs::deviations(&base, if ctx.thorough { 2 } else { 1 }).into_iter().filter(|d| d.dim != "fee" && d.dim != "maxsize").collect();
        let mut fixtures: Vec<Case> = vec![base.clone()];
        let more: Vec<Case> = ds
            .par_iter()
            .filter_map(|d| {
                let mut c = base.clone();
                d.apply(&mut c);
                // a fixture must stay balanced when it is re-priced: it needs its change output
                if !matches!(c.tx.fee, FeeSpec::MinPlus(_)) || c.env.max_tx_size != SizeSpec::Default || !c.tx.outputs.iter().any(|o| o.coin == txlab::Coin::Change) {
                    return None;
                }
                let p = probe(&c);
                note(&p);
                if p.verdict.accepted() {
                    Some(c)
                } else {
                    None
                }
            })
            .collect();
        fixtures.extend(more);
        *fixtures_by_era.lock().unwrap().entry(era.name().into()).or_default() += fixtures.len() as u64;
        fixtures.par_iter().for_each(|fx| {
            let nd = fx.devs.len();
            let p = probe(fx);
            // traversal size
            match exec::traverse_size(&p.built) {
                Some(s) if s as u64 == p.ledger_size => {}
                other => found.add(format!("c36:traverse-size:{}", era.group()), nd, format!("MultiEraTx::size() = {other:?}, ledger size from the wire bytes = {}", p.ledger_size), &p.built, &p.verdict),
            }
            // Where do the validator's own boundaries lie for this fixture? Only used to name
            // the defect: (smallest accepted fee - (a*L+b)) / a and smallest accepted limit - L.
            let accepts_fee = |d: i64| {
                let mut c = fx.clone();
                c.tx.fee = FeeSpec::MinPlus(d);
                let q = probe(&c);
                note(&q);
                q.verdict.accepted()
            };
            let a = params::MINFEE_A as i64;
            let fee_off: Option<i64> = if accepts_fee(5 * a) && !accepts_fee(-5 * a) {
                let (mut lo, mut hi) = (-5 * a, 5 * a); // lo rejected, hi accepted
                while hi - lo > 1 {
                    let mid = (lo + hi).div_euclid(2);
                    if accepts_fee(mid) {
                        hi = mid
                    } else {
                        lo = mid
                    }
                }
                if hi.rem_euclid(a) == 0 {
                    Some(hi / a)
                } else {
                    None
                }
            } else {
                None
            };
            let lim_off: Option<i64> = (-4i64..=4).find(|d| {
                let mut c = fx.clone();
                c.env.max_tx_size = SizeSpec::LedgerPlus(*d);
                let q = probe(&c);
                note(&q);
                q.verdict.accepted()
            });
            let model = match (fee_off, lim_off) {
                (Some(f), Some(l)) if f == l && f == 1 => "whole-tx-with-validity-flag".to_string(),
                (Some(f), Some(l)) if f == l && f == if fx.tx.aux { -1 } else { -2 } => "parts-without-array-head-and-null".to_string(),
                (Some(f), Some(l)) if f == l => format!("offset{f:+}"),
                (f, l) => format!("fee-offset{f:?}/limit-offset{l:?}"),
            };
            let fp = format!("c36:size:{}:{model}", size_fn(era));
            // fee boundary
            for (delta, want_ok) in [(0i64, true), (-1, false)] {
                let mut c = fx.clone();
                c.tx.fee = FeeSpec::MinPlus(delta);
                c.devs.push(format!("[probe fee=a*L+b{}]", if delta == 0 { "".to_string() } else { delta.to_string() }));
                let q = probe(&c);
                note(&q);
                let min = params::MINFEE_A * q.ledger_size + params::MINFEE_B;
                if q.fee as i128 != min as i128 + delta as i128 {
                    crate::fail(&format!("{}: fee on the wire {} is not a*L+b{:+} = {}", q.built.label, q.fee, delta, min as i128 + delta as i128));
                }
                if q.verdict.accepted() != want_ok {
                    let what = if want_ok {
                        format!("{} tx of ledger size L={} with fee = a*L+b = {} is not accepted: {:?}", era.name(), q.ledger_size, q.fee, q.verdict)
                    } else {
                        format!("{} tx of ledger size L={} with fee = a*L+b-1 = {} is accepted", era.name(), q.ledger_size, q.fee)
                    };
                    found.add(fp.clone(), nd, what, &q.built, &q.verdict);
                }
            }
            // size-limit boundary
            for (delta, want_ok) in [(0i64, true), (-1, false)] {
                let mut c = fx.clone();
                c.env.max_tx_size = SizeSpec::LedgerPlus(delta);
                c.devs.push(format!("[probe max_tx_size=L{}]", if delta == 0 { "".to_string() } else { delta.to_string() }));
                let q = probe(&c);
                note(&q);
                if q.built.max_tx_size as i128 != q.ledger_size as i128 + delta as i128 {
                    crate::fail(&format!("{}: size limit {} is not L{:+}", q.built.label, q.built.max_tx_size, delta));
                }
                if q.verdict.accepted() != want_ok {
                    let what = if want_ok {
                        format!("{} tx of ledger size L={} is not accepted under max_tx_size = L: {:?}", era.name(), q.ledger_size, q.verdict)
                    } else {
                        format!("{} tx of ledger size L={} is accepted under max_tx_size = L-1", era.name(), q.ledger_size)
                    };
                    found.add(fp.clone(), nd, what, &q.built, &q.verdict);
                }
            }
        });
        // diagnostic (not a verdict): where the validator's own boundaries lie for the base
        let fee_min = (-200i64..=200).find(|d| {
            let mut c = base.clone();
            c.tx.fee = FeeSpec::MinPlus(*d);
            let q = probe(&c);
            note(&q);
            q.verdict.accepted()
        });
        let lim_min = (-4i64..=4).find(|d| {
            let mut c = base.clone();
            c.env.max_tx_size = SizeSpec::LedgerPlus(*d);
            let q = probe(&c);
            note(&q);
            q.verdict.accepted()
        });
        diag.push(json!({"base": base.label(), "ledger_size": p0.ledger_size, "traverse_size": exec::traverse_size(&p0.built), "smallest_accepted_fee_minus_(a*L+b)": fee_min, "smallest_accepted_max_tx_size_minus_L": lim_min,
            "validator_size_minus_L_by_fee": fee_min.map(|d| d as f64 / params::MINFEE_A as f64)}));
        if samples.len() < 6 {
            samples.push(json!({"fixture": base.label(), "ledger_size": p0.ledger_size, "fee_in_base": p0.fee, "tx": hex::encode(&p0.built.tx)}));
        }
    }
    crate::quiet::restore_stderr();
    let fx = fixtures_by_era.lock().unwrap().clone();
    let acc = accepted_by_era.lock().unwrap().clone();
    for era in POST_BYRON {
        if fx.get(era.name()).copied().unwrap_or(0) == 0 || acc.get(era.name()).copied().unwrap_or(0) == 0 {
            crate::fail(&format!("C36 vacuous in era {}", era.name()));
        }
    }
    for d in &diag {
        println!("diagnostic: {d}");
    }
    found.flush(&ctx);
    let cov = mc_core::cov! {
        "evaluations" => evals.load(Ordering::Relaxed),
        "distinct_nontrivial" => distinct.lock().unwrap().len(),
        "rule" => "fixtures = every post-Byron base (B1/B2/B3 per era, each also with auxiliary data + right hash and with the empty auxiliary-data slot spelled `undefined`) + every single deviation of it that is accepted as generated (fee and size-limit dimensions excluded); each fixture x {fee = a*L+b, a*L+b-1, max_tx_size = L, L-1}, L read from the wire bytes of the re-priced transaction; plus, per base, a scan of fee deltas -200..200 and limit deltas -4..4 (diagnostic); non-trivial = validate_tx ran; distinct by Blake2b of (tx, UTxO, environment)",
        "fixtures_by_era" => fx,
        "base_variants_rejected_by_decoder" => variants_rejected_by_decoder,
        "accepted_by_era" => acc,
        "validator_boundaries" => diag,
        "findings" => found.summary(),
        "samples" => samples,
        "exhaustive" => true
    };
    ctx.finish(
        Level::Exploration,
        cov,
        &[
            "ledger size = 1 (array head) + |body| + |witness set| + |auxiliary data or null|, from refcbor spans of the wire bytes; all generated transactions have fewer than 24 top-level elements so the head is 1 byte",
            "fee coefficients a = 44, b = 155381 (fixtures)",
            "Byron is outside the property's quantifier",
        ],
    )
}
