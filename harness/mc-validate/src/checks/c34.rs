//! C34 — accepted transactions conserve value exactly.
//!
//! For every ACCEPTED case of the TxLab space whose body has no certificates,
//! withdrawals, treasury or donation fields (TxLab never generates them; the
//! body is checked anyway): for ada and for every asset,
//!     sum over the spent outputs (distinct inputs) + mint == sum over outputs + fee
//! in num-bigint arithmetic on the refcbor view of the wire bytes and of the
//! UTxO entries. Byron: inputs - outputs >= minimum fee (summand + multiplier *
//! (|tx| + |witnesses|); 0 when every input is a redeem address, which the
//! Byron ledger exempts from fees).

use super::*;
use crate::explore::{self, Bounds, ALL_ERAS};
use crate::params;
use crate::txlab::{Built, Era};
use crate::wire::{self, AssetId, TxView};
use mc_core::refcbor;
use mc_core::{Ctx, Level};
use num_bigint::BigInt;
use std::collections::{BTreeMap, BTreeSet};
use std::sync::atomic::{AtomicU64, Ordering};

const BIG: u64 = 1 << 63;

pub struct Balance {
    pub consumed: BTreeMap<Option<AssetId>, BigInt>,
    pub produced: BTreeMap<Option<AssetId>, BigInt>,
    pub duplicate_inputs: bool,
    pub missing_inputs: bool,
    pub huge_quantity: bool,
    pub burn_exceeds_inputs: bool,
    pub out_of_scope: bool,
}

/// Exact balance of a post-Byron artefact.
pub fn balance(b: &Built) -> Option<Balance> {
    let view = TxView::parse(&b.tx)?;
    let mut r = Balance { consumed: BTreeMap::new(), produced: BTreeMap::new(), duplicate_inputs: false, missing_inputs: false, huge_quantity: false, burn_exceeds_inputs: false, out_of_scope: false };
    r.out_of_scope = [4u64, 5, 21, 22].iter().any(|k| view.body_has(*k));
    let big = BigInt::from(BIG);
    let inputs = view.inputs();
    let distinct: BTreeSet<_> = inputs.iter().cloned().collect();
    r.duplicate_inputs = distinct.len() != inputs.len();
    let mut in_assets: BTreeMap<AssetId, BigInt> = BTreeMap::new();
    for (h, ix) in &distinct {
        match b.utxo.iter().find(|u| u.tx_id == *h && u.ix == *ix) {
            None => r.missing_inputs = true,
            Some(u) => {
                let o = wire::utxo_out_view(u.era == Era::Byron, &u.bytes)?;
                *r.consumed.entry(None).or_default() += &o.value.coin;
                if o.value.coin >= big {
                    r.huge_quantity = true;
                }
                for (a, q) in o.value.assets {
                    if q >= big {
                        r.huge_quantity = true;
                    }
                    *in_assets.entry(a.clone()).or_default() += &q;
                    *r.consumed.entry(Some(a)).or_default() += q;
                }
            }
        }
    }
    for (a, q) in view.mint()? {
        if q < BigInt::from(0) && in_assets.get(&a).cloned().unwrap_or_default() + &q < BigInt::from(0) {
            r.burn_exceeds_inputs = true;
        }
        *r.consumed.entry(Some(a)).or_default() += q;
    }
    for o in view.outputs()? {
        if o.value.coin >= big {
            r.huge_quantity = true;
        }
        *r.produced.entry(None).or_default() += &o.value.coin;
        for (a, q) in o.value.assets {
            if q >= big {
                r.huge_quantity = true;
            }
            *r.produced.entry(Some(a)).or_default() += q;
        }
    }
    *r.produced.entry(None).or_default() += view.fee()?;
    Some(r)
}

pub fn imbalance(r: &Balance) -> Vec<(String, String, String)> {
    let zero = BigInt::from(0);
    let keys: BTreeSet<_> = r.consumed.keys().chain(r.produced.keys()).cloned().collect();
    let mut v = vec![];
    for k in keys {
        let c = r.consumed.get(&k).unwrap_or(&zero);
        let p = r.produced.get(&k).unwrap_or(&zero);
        if c != p {
            let name = match &k {
                None => "ada".to_string(),
                Some((p, n)) => format!("{}..{}", hex::encode(&p[..4]), String::from_utf8_lossy(n)),
            };
            v.push((name, c.to_string(), p.to_string()));
        }
    }
    v
}

/// Is the Byron UTxO entry a redeem address? (`[[#6.24(bytes .cbor [root, attrs, type]), crc], amount]`)
fn byron_is_redeem(bytes: &[u8]) -> Option<bool> {
    let n = refcbor::parse_one(bytes).ok()?;
    let addr = n.as_array()?.first()?.as_array()?;
    let payload = refcbor::parse_one(&addr.first()?.untagged().as_bytes()?).ok()?;
    Some(payload.as_array()?.get(2)?.as_u64()? == 2)
}

pub fn run(ctx: Ctx) -> ! {
    print_statement(&ctx);
    replay_if_asked(&ctx);
    let bounds = Bounds::tier(ctx.thorough);
    let found = Findings::default();
    let checked = AtomicU64::new(0);
    let checked_assets = AtomicU64::new(0);
    let unreadable = AtomicU64::new(0);
    // Byron: [accepted with mixed redeem + pk inputs, explored mixed with inputs - outputs < min fee,
    //         accepted redeem-only paying less than the pk minimum fee]
    let byron_mix = [AtomicU64::new(0), AtomicU64::new(0), AtomicU64::new(0)];
    let sum = explore::sweep(&ALL_ERAS, &|_| true, bounds, &|b, v, nd| {
        if !v.accepted() && !(b.era == Era::Byron && matches!(v, Verdict::Rejected(_) | Verdict::Panicked(_))) {
            return;
        }
        if b.era == Era::Byron {
            let Some(view) = wire::byron_view(&b.tx) else {
                if v.accepted() {
                    unreadable.fetch_add(1, Ordering::Relaxed);
                }
                return;
            };
            let distinct: BTreeSet<_> = view.inputs.iter().cloned().collect();
            let mut ins = BigInt::from(0);
            let mut all_redeem = true;
            let mut any_redeem = false;
            for (h, ix) in &distinct {
                if let Some(u) = b.utxo.iter().find(|u| u.tx_id == *h && u.ix == *ix) {
                    if let Some(o) = wire::utxo_out_view(true, &u.bytes) {
                        ins += o.value.coin;
                    }
                    let r = byron_is_redeem(&u.bytes).unwrap_or(false);
                    all_redeem &= r;
                    any_redeem |= r;
                } else {
                    all_redeem = false;
                }
            }
            let mixed = any_redeem && !all_redeem;
            let outs: BigInt = view.outputs.iter().sum();
            let pk_min_fee = BigInt::from(params::MINFEE_B) + BigInt::from(params::MINFEE_A) * BigInt::from(view.size);
            let min_fee = if all_redeem { BigInt::from(0) } else { pk_min_fee.clone() };
            if mixed && &ins - &outs < min_fee && ins >= outs {
                byron_mix[1].fetch_add(1, Ordering::Relaxed);
            }
            if !v.accepted() {
                return;
            }
            if mixed {
                byron_mix[0].fetch_add(1, Ordering::Relaxed);
            }
            if all_redeem && !distinct.is_empty() && &ins - &outs < pk_min_fee && ins >= outs {
                byron_mix[2].fetch_add(1, Ordering::Relaxed);
            }
            checked.fetch_add(1, Ordering::Relaxed);
            if &ins - &outs < min_fee {
                let class = if distinct.len() != view.inputs.len() {
                    "duplicate-input"
                } else if all_redeem {
                    "redeem-only-inputs"
                } else if mixed && ins >= outs {
                    "mixed-redeem-and-pk-inputs-fee-below-minimum"
                } else if ins < outs {
                    "outputs-exceed-inputs"
                } else {
                    "fee-below-minimum"
                };
                found.add(format!("c34:byron:{class}"), nd, format!("accepted Byron tx: inputs {ins} - outputs {outs} < minimum fee {min_fee}"), b, v);
            }
            return;
        }
        let Some(r) = balance(b) else {
            unreadable.fetch_add(1, Ordering::Relaxed);
            return;
        };
        if r.out_of_scope {
            return;
        }
        checked.fetch_add(1, Ordering::Relaxed);
        if r.consumed.len() > 1 || r.produced.len() > 1 {
            checked_assets.fetch_add(1, Ordering::Relaxed);
        }
        let diff = imbalance(&r);
        if !diff.is_empty() {
            let class = if r.duplicate_inputs {
                "duplicate-input"
            } else if r.missing_inputs {
                "input-missing-from-utxo"
            } else if r.burn_exceeds_inputs {
                "burn-exceeds-inputs"
            } else if r.huge_quantity {
                "quantity>=2^63"
            } else {
                "imbalance"
            };
            // duplicate / missing inputs are handled by each era module's own get_consumed;
            // quantity arithmetic lives in utils.rs, shared by Shelley-MA / Alonzo / Babbage
            let family = if class == "duplicate-input" || class == "input-missing-from-utxo" {
                b.era.group()
            } else if b.era == Era::Conway {
                "conway-values"
            } else {
                "alonzo-values"
            };
            let what = diff.iter().map(|(a, c, p)| format!("{a}: spent+minted {c} != produced+fee {p}")).collect::<Vec<_>>().join("; ");
            found.add(format!("c34:{class}:{family}"), nd, format!("accepted {} tx does not conserve value: {what}", b.era.name()), b, v);
        }
    });
    if unreadable.load(Ordering::Relaxed) > 0 {
        crate::fail(&format!("{} accepted artefacts could not be read back by the refcbor view", unreadable.load(Ordering::Relaxed)));
    }
    for era in ALL_ERAS {
        if sum.accepted(era) == 0 {
            crate::fail(&format!("C34 vacuous: no accepted case in era {}", era.name()));
        }
    }
    let mix: Vec<u64> = byron_mix.iter().map(|x| x.load(Ordering::Relaxed)).collect();
    if mix.iter().any(|x| *x == 0) {
        crate::fail(&format!("C34 vacuous on Byron fee exemption: accepted mixed redeem+pk {}, explored mixed below the minimum fee {}, accepted redeem-only below the pk minimum fee {}", mix[0], mix[1], mix[2]));
    }
    if checked_assets.load(Ordering::Relaxed) == 0 {
        crate::fail("C34 vacuous: no accepted case with native assets");
    }
    found.flush(&ctx);
    let mut cov = sum.coverage(&format!(
        "TxLab space: every base of every era, every single deviation and every pair of deviations of different dimensions ({}); the oracle runs on every ACCEPTED case: exact per-asset balance over distinct spent inputs + mint vs outputs + fee (Byron, bases with one and two inputs of every pk / redeem combination: inputs - outputs >= min fee, exempt only when EVERY input is a redeem address); non-trivial = decoded by pallas-traverse, distinct by Blake2b of (tx, UTxO, environment)",
        bounds.describe()
    ));
    cov.insert("accepted_checked".into(), json!(checked.load(Ordering::Relaxed)));
    cov.insert("accepted_checked_with_assets".into(), json!(checked_assets.load(Ordering::Relaxed)));
    cov.insert("byron_accepted_with_mixed_redeem_and_pk_inputs".into(), json!(mix[0]));
    cov.insert("byron_explored_mixed_inputs_paying_less_than_min_fee".into(), json!(mix[1]));
    cov.insert("byron_accepted_redeem_only_paying_less_than_pk_min_fee".into(), json!(mix[2]));
    cov.insert("findings".into(), json!(found.summary()));
    ctx.finish(
        Level::Exploration,
        cov,
        &[
            "spent outputs are the DISTINCT inputs (the ledger's input set); a UTxO entry can be spent once",
            "Byron minimum fee taken over |tx| + |witnesses| (the smaller of the plausible sizes); redeem-only inputs are fee-exempt",
            "no certificates / withdrawals / treasury / donation are generated",
        ],
    )
}
