//! C39 — sequence validation updates the certificate state atomically.
//!
//! `pallas_validate::phase1::validate_txs(txs, env, utxos, &mut cert_state)`
//! against the fold of `validate_tx` over a clone of the state:
//!   * every step of the fold succeeds  =>  `validate_txs` returns Ok and the
//!     caller's state equals the fold result;
//!   * some step fails                   =>  `validate_txs` returns Err and the
//!     caller's state equals the state before the call.
//! States are compared field by field through a canonical rendering (every map
//! sorted). Only the Shelley/Allegra/Mary validator reads or writes the
//! certificate state (the Alonzo, Babbage and Conway validators do not take
//! it), so the alphabet is made of Mary transactions with certificates plus
//! one Alonzo transaction (a parameter mismatch under Shelley parameters); a
//! second pass runs Alonzo transactions under Alonzo parameters from the empty
//! and from a populated state.
//!
//! Exploration: BFS over certificate states. From every state reached, EVERY
//! sequence over the alphabet up to the length bound is validated (depth-first
//! over the sequence tree so that the fold is computed incrementally).

use super::*;
use crate::bases::{self, U00};
use crate::keys;
use crate::params;
use crate::txlab::*;
use mc_core::refcbor::Node;
use mc_core::{Ctx, Level};
use pallas_crypto::hash::Hash;
use pallas_primitives::alonzo::TransactionInput;
use pallas_traverse::{MultiEraInput, MultiEraOutput, MultiEraTx};
use pallas_validate::phase1::{validate_tx, validate_txs};
use pallas_validate::utils::{AccountState, CertState, Environment, UTxOs};
use rayon::prelude::*;
use std::borrow::Cow;
use std::collections::{BTreeMap, BTreeSet, VecDeque};
use std::sync::atomic::{AtomicU64, Ordering};
use std::sync::Mutex;

const SLOT: u64 = 5_000_000; // mainnet epoch 209, before the MIR deadline of the epoch
const RETIRE_EPOCH: u64 = 210;

// ------------------------------------------------------------------ alphabet

fn cred(k: usize) -> Node {
    Node::array(vec![Node::uint(0), Node::bytes(&keys::key(k).hash)])
}

fn pool_id() -> [u8; 28] {
    keys::key(1).hash
}

fn cert_pool_registration() -> Node {
    let mut reward = vec![0xe1u8];
    reward.extend_from_slice(&keys::key(2).hash);
    Node::array(vec![
        Node::uint(3),
        Node::bytes(&pool_id()),
        Node::bytes(&[0x55; 32]),
        Node::uint(1_000_000),
        Node::uint(340_000_000),
        Node::tag(30, Node::array(vec![Node::uint(1), Node::uint(10)])),
        Node::bytes(&reward),
        Node::array(vec![Node::bytes(&keys::key(1).hash)]),
        Node::array(vec![]),
        Node::null(),
    ])
}

struct Letter {
    name: &'static str,
    what: &'static str,
    case: Case,
}

fn base_case(era: Era) -> Case {
    let mut c = bases::b1(era);
    c.env.slot = SLOT;
    if let Some(u) = c.env.get_mut(&U00) {
        u.out.coin = Coin::Fixed(2_000_000_000);
    }
    c.tx.inputs = vec![U00];
    c.tx.outputs = vec![Out::change(era, Addr::key(0))];
    c.tx.ttl = Some(SLOT + 100);
    c.tx.wits.vkeys = Some(vec![VkWit::Valid(0)]);
    c
}

fn with_certs(name: &'static str, what: &'static str, certs: Vec<Node>, deposit: i128) -> Letter {
    let mut c = base_case(Era::Mary);
    c.base = name.into();
    c.tx.extra_body = vec![(4, Node::array(certs))];
    c.tx.deposit = deposit;
    // the stake key / pool operator sign too, as the ledger would demand
    c.tx.wits.vkeys = Some(vec![VkWit::Valid(0), VkWit::Valid(2), VkWit::Valid(1)]);
    Letter { name, what, case: c }
}

fn alphabet() -> Vec<Letter> {
    let key_deposit = 2_000_000i128;
    let pool_deposit = 500_000_000i128;
    let mut plain = base_case(Era::Mary);
    plain.base = "PLAIN".into();
    let mut lowfee = base_case(Era::Mary);
    lowfee.base = "LOWFEE".into();
    lowfee.tx.fee = FeeSpec::MinPlus(-1000);
    let mut reg_lowfee = with_certs("REG-LOWFEE", "stake registration of K2 with a fee below the minimum (the certificate is applied to the working state before the fee check fails)", vec![Node::array(vec![Node::uint(0), cred(2)])], key_deposit);
    reg_lowfee.case.tx.fee = FeeSpec::MinPlus(-1000);
    let mut alonzo = base_case(Era::Alonzo);
    alonzo.base = "ALONZO".into();
    vec![
        Letter { name: "PLAIN", what: "payment without certificates (always valid)", case: plain },
        with_certs("REG", "stake registration of K2 (valid iff K2 is not registered)", vec![Node::array(vec![Node::uint(0), cred(2)])], key_deposit),
        with_certs("DEREG", "stake deregistration of K2 (valid iff K2 is registered)", vec![Node::array(vec![Node::uint(1), cred(2)])], -key_deposit),
        with_certs("DELEG", "delegation of K2 to pool P (valid iff K2 and P are registered)", vec![Node::array(vec![Node::uint(2), cred(2), Node::bytes(&pool_id())])], 0),
        with_certs("POOLREG", "registration of pool P paying the pool deposit (valid iff P is not registered; otherwise the update is applied to the working state and value preservation fails afterwards)", vec![cert_pool_registration()], pool_deposit),
        with_certs("POOLUPD", "re-registration of pool P without deposit (valid iff P is registered)", vec![cert_pool_registration()], 0),
        with_certs("RETIRE", "retirement of pool P in the next epoch (valid iff P is registered)", vec![Node::array(vec![Node::uint(4), Node::bytes(&pool_id()), Node::uint(RETIRE_EPOCH)])], 0),
        with_certs("MIR", "move 5 lovelace from the treasury to K2 (always valid at this slot)", vec![Node::array(vec![Node::uint(6), Node::array(vec![Node::uint(1), Node::map(vec![(cred(2), Node::uint(5))])])])], 0),
        Letter { name: "LOWFEE", what: "payment with fee = minimum - 1000 (never valid)", case: lowfee },
        reg_lowfee,
        Letter { name: "ALONZO", what: "an Alonzo payment (parameter mismatch under Shelley parameters)", case: alonzo },
    ]
}

fn alonzo_alphabet() -> Vec<Letter> {
    let mut ok = base_case(Era::Alonzo);
    ok.base = "A-PLAIN".into();
    let mut low = base_case(Era::Alonzo);
    low.base = "A-LOWFEE".into();
    low.tx.fee = FeeSpec::MinPlus(-1000);
    let mut mary = base_case(Era::Mary);
    mary.base = "MARY".into();
    vec![
        Letter { name: "A-PLAIN", what: "Alonzo payment (valid)", case: ok },
        Letter { name: "A-LOWFEE", what: "Alonzo payment with fee = minimum - 1000", case: low },
        Letter { name: "MARY", what: "a Mary payment (parameter mismatch under Alonzo parameters)", case: mary },
    ]
}

// ------------------------------------------------------------------ canonical state

/// Every field of the state, every map sorted. `CertState` has no `Debug`
/// and its maps are `HashMap`s.
pub fn canon(cs: &CertState) -> String {
    fn sorted(mut v: Vec<String>) -> String {
        v.sort();
        format!("[{}]", v.join(", "))
    }
    let d = &cs.dstate;
    let p = &cs.pstate;
    format!(
        "dstate{{rewards:{} delegations:{} ptrs:{} fut_gen_delegs:{} gen_delegs:{} inst_rewards:({}, {})}} pstate{{pool_params:{} fut_pool_params:{} retiring:{}}}",
        sorted(d.rewards.iter().map(|(k, v)| format!("{k:?}=>{v}")).collect()),
        sorted(d.delegations.iter().map(|(k, v)| format!("{k:?}=>{v}")).collect()),
        sorted(d.ptrs.iter().map(|(k, v)| format!("(slot {}, tx {}, cert {})=>{v:?}", k.slot, k.tx_ix, k.cert_ix)).collect()),
        sorted(d.fut_gen_delegs.iter().map(|(k, v)| format!("({}, {})=>({}, {})", k.0, k.1, v.0, v.1)).collect()),
        sorted(d.gen_delegs.iter().map(|(k, v)| format!("{k}=>({}, {})", v.0, v.1)).collect()),
        sorted(d.inst_rewards.0.iter().map(|(k, v)| format!("{k:?}=>{v}")).collect()),
        sorted(d.inst_rewards.1.iter().map(|(k, v)| format!("{k:?}=>{v}")).collect()),
        sorted(p.pool_params.iter().map(|(k, v)| format!("{k}=>{v:?}")).collect()),
        sorted(p.fut_pool_params.iter().map(|(k, v)| format!("{k}=>{v:?}")).collect()),
        sorted(p.retiring.iter().map(|(k, v)| format!("{k}=>{v}")).collect()),
    )
}

/// A short name of a state for reports.
fn brief(cs: &CertState) -> String {
    let d = &cs.dstate;
    let p = &cs.pstate;
    let mut ptrs: Vec<String> = d.ptrs.keys().map(|k| format!("tx{}", k.tx_ix)).collect();
    ptrs.sort();
    format!(
        "reg={} ptr=[{}] deleg={} pool={} fut={} retiring={} mir=({},{})",
        d.rewards.len(),
        ptrs.join(","),
        d.delegations.len(),
        p.pool_params.len(),
        p.fut_pool_params.len(),
        p.retiring.len(),
        d.inst_rewards.0.len(),
        d.inst_rewards.1.len()
    )
}

// ------------------------------------------------------------------ world

struct World {
    letters: Vec<Letter>,
    built: Vec<Built>,
    params_era: Era,
    /// canonical state -> the accepted sequences that lead to it from the empty
    /// state (for replays)
    paths: Mutex<BTreeMap<String, Vec<Vec<&'static str>>>>,
}

impl World {
    fn new(letters: Vec<Letter>, params_era: Era) -> World {
        let built: Vec<Built> = letters.iter().map(|l| build(&l.case)).collect();
        for b in &built[1..] {
            // one UTxO set and one slot for the whole sequence
            if b.utxo.iter().map(|u| (&u.tx_id, u.ix, &u.bytes)).collect::<Vec<_>>() != built[0].utxo.iter().map(|u| (&u.tx_id, u.ix, &u.bytes)).collect::<Vec<_>>() || b.slot != built[0].slot {
                crate::fail("C39: the letters of the alphabet do not share one UTxO set and slot");
            }
        }
        let w = World { letters, built, params_era, paths: Mutex::new(BTreeMap::new()) };
        // the decoders run once under panic capture before the exploration relies on them
        if let Err(p) = mc_core::catch(|| w.with(|txs, utxos, _| (txs.len(), utxos.len()))) {
            crate::fail(&format!("C39: a pallas decoder panicked on the alphabet: {} at {}", p.message, p.location));
        }
        w
    }
    fn env(&self) -> Environment {
        Environment {
            prot_params: params::multi_era(self.params_era, params::numbers(self.params_era).max_tx_size),
            prot_magic: params::MAINNET_MAGIC,
            block_slot: SLOT,
            network_id: MAINNET,
            acnt: Some(AccountState { treasury: 261_254_564_000_000, reserves: 0 }),
        }
    }
    /// Decode the alphabet and the UTxO set (borrowing from `self`) and run `f`.
    fn with<R>(&self, f: impl for<'x> FnOnce(&[MultiEraTx<'x>], &UTxOs<'x>, &Environment) -> R) -> R {
        let txs: Vec<MultiEraTx> = self.built.iter().map(|b| MultiEraTx::decode_for_era(b.era.pallas(), &b.tx).unwrap_or_else(|e| crate::fail(&format!("C39: letter {} does not decode: {e}", b.label)))).collect();
        let mut utxos: UTxOs = UTxOs::new();
        for u in &self.built[0].utxo {
            let out = MultiEraOutput::decode(self.params_era.pallas(), &u.bytes).unwrap_or_else(|e| crate::fail(&format!("C39: UTxO entry does not decode: {e}")));
            utxos.insert(MultiEraInput::AlonzoCompatible(Box::new(Cow::Owned(TransactionInput { transaction_id: Hash::from(u.tx_id), index: u.ix }))), out);
        }
        let env = self.env();
        f(&txs, &utxos, &env)
    }
    fn show(&self, seq: &[usize]) -> String {
        format!("[{}]", seq.iter().map(|i| self.letters[*i].name).collect::<Vec<_>>().join(", "))
    }
    fn replay(&self, start: &CertState, seq: &[usize]) -> Value {
        json!({
            "start_state": canon(start),
            "path_from_empty": self.paths.lock().unwrap().get(&canon(start)).cloned().unwrap_or_default(),
            "sequence": seq.iter().map(|i| self.letters[*i].name).collect::<Vec<_>>(),
            "transactions": seq.iter().map(|i| json!({"name": self.letters[*i].name, "era": self.built[*i].era.name(), "tx": hex::encode(&self.built[*i].tx)})).collect::<Vec<_>>(),
            "utxo": self.built[0].to_json()["utxo"],
            "params_era": self.params_era.name(),
            "slot": SLOT,
        })
    }
}

#[derive(Default)]
struct Stats {
    traces: AtomicU64,
    ok_traces: AtomicU64,
    err_traces: AtomicU64,
    /// failing sequences whose fold had changed the state before the failing step
    fail_after_change: AtomicU64,
    /// failing sequences whose failing step itself left the fold's working state changed
    fail_step_dirty: AtomicU64,
    tx_validations: AtomicU64,
    per_letter: [[AtomicU64; 2]; 16],
    error_classes: Mutex<BTreeMap<String, u64>>,
}

struct Explorer<'a, 'b> {
    world: &'a World,
    txs: &'a [MultiEraTx<'b>],
    utxos: &'a UTxOs<'b>,
    env: &'a Environment,
    stats: &'a Stats,
    ctx: &'a Ctx,
    max_len: usize,
    /// the letters sequences are made of (indices into the alphabet)
    letters: &'a [usize],
    /// harness self-test: stand-in for validate_txs that validates against the
    /// caller's state directly (the planned seeded defect of DESIGN.md section 8)
    selftest: bool,
}

impl Explorer<'_, '_> {
    /// Check the sequence `seq` from `start`; `fold` is the fold's state after
    /// `seq` (None if a step failed), computed incrementally by the caller.
    fn check(&self, start: &CertState, start_key: &str, seq: &[usize], fold: &Option<CertState>, out: &mut Vec<(String, CertState, Vec<usize>)>) {
        let metxs: Vec<MultiEraTx> = seq.iter().map(|i| self.txs[*i].clone()).collect();
        let mut caller = start.clone();
        let r = mc_core::catch(|| {
            let r = if self.selftest {
                (|| {
                    for (i, t) in metxs.iter().enumerate() {
                        validate_tx(t, i as u32, self.env, self.utxos, &mut caller)?;
                    }
                    Ok(())
                })()
            } else {
                validate_txs(&metxs, self.env, self.utxos, &mut caller)
            };
            (r, caller)
        });
        self.stats.traces.fetch_add(1, Ordering::Relaxed);
        self.stats.tx_validations.fetch_add(seq.len() as u64, Ordering::Relaxed);
        let (r, caller) = match r {
            Ok(x) => x,
            Err(p) => {
                self.ctx.violation(format!("c39:{}", panic_fp(&p)), format!("validate_txs panicked on {} from state {{{}}}: {} at {}", self.world.show(seq), brief(start), p.message, p.location), self.world.replay(start, seq));
                return;
            }
        };
        let after = canon(&caller);
        match fold {
            Some(f) => {
                self.stats.ok_traces.fetch_add(1, Ordering::Relaxed);
                let want = canon(f);
                if let Err(e) = &r {
                    self.ctx.violation("c39:err-although-every-step-succeeds", format!("every transaction of {} validates in order from state {{{}}}, validate_txs returned {e:?}", self.world.show(seq), brief(start)), self.world.replay(start, seq));
                } else if after != want {
                    self.ctx.violation(
                        "c39:state-differs-from-in-order-application",
                        format!("after Ok validate_txs of {} from state {{{}}} the caller's state is {{{}}}, applying the transactions in order gives {{{}}}", self.world.show(seq), brief(start), brief(&caller), brief(f)),
                        self.world.replay(start, seq),
                    );
                } else if want != start_key {
                    out.push((want, f.clone(), seq.to_vec()));
                } else {
                    out.push((String::new(), f.clone(), vec![])); // accepted, state unchanged: a self-loop
                }
            }
            None => {
                self.stats.err_traces.fetch_add(1, Ordering::Relaxed);
                match &r {
                    Ok(()) => self.ctx.violation("c39:ok-although-a-step-fails", format!("a transaction of {} fails from state {{{}}}, validate_txs returned Ok", self.world.show(seq), brief(start)), self.world.replay(start, seq)),
                    Err(e) => {
                        *self.stats.error_classes.lock().unwrap().entry(format!("{e:?}")).or_default() += 1;
                        if after != start_key {
                            self.ctx.violation(
                                "c39:state-changed-by-failed-sequence",
                                format!("validate_txs of {} from state {{{}}} returned {e:?} and left the caller's state as {{{}}}", self.world.show(seq), brief(start), brief(&caller)),
                                self.world.replay(start, seq),
                            );
                        }
                    }
                }
            }
        }
    }

    /// Depth-first over the sequence tree below `seq`.
    #[allow(clippy::too_many_arguments)]
    fn dfs(&self, start: &CertState, start_key: &str, seq: &mut Vec<usize>, fold: Option<CertState>, changed_before: bool, out: &mut Vec<(String, CertState, Vec<usize>)>) {
        self.check(start, start_key, seq, &fold, out);
        if seq.len() == self.max_len {
            return;
        }
        let f_key = fold.as_ref().map(canon).unwrap_or_default();
        for &l in self.letters {
            // one more step of the oracle's fold (on a clone; a failed step ends the fold)
            let next = match &fold {
                None => None,
                Some(f) => {
                    let mut w = f.clone();
                    let ix = seq.len() as u32;
                    let r = mc_core::catch(|| {
                        let r = validate_tx(&self.txs[l], ix, self.env, self.utxos, &mut w);
                        (r, w)
                    });
                    self.stats.tx_validations.fetch_add(1, Ordering::Relaxed);
                    match r {
                        Err(p) => {
                            self.ctx.violation(format!("c39:{}", panic_fp(&p)), format!("validate_tx panicked on {} at index {ix}: {} at {}", self.world.letters[l].name, p.message, p.location), self.world.replay(start, seq));
                            None
                        }
                        Ok((Ok(()), w)) => {
                            self.stats.per_letter[l][0].fetch_add(1, Ordering::Relaxed);
                            Some(w)
                        }
                        Ok((Err(_), w)) => {
                            self.stats.per_letter[l][1].fetch_add(1, Ordering::Relaxed);
                            if changed_before || f_key != start_key {
                                self.stats.fail_after_change.fetch_add(1, Ordering::Relaxed);
                            }
                            if canon(&w) != f_key {
                                self.stats.fail_step_dirty.fetch_add(1, Ordering::Relaxed);
                            }
                            None
                        }
                    }
                }
            };
            let changed = changed_before || next.as_ref().map(|n| canon(n) != start_key).unwrap_or(false);
            seq.push(l);
            self.dfs(start, start_key, seq, next, changed, out);
            seq.pop();
        }
    }
}

struct Reached {
    state: CertState,
    /// (predecessor key, sequence) that first reached it
    via: (String, Vec<&'static str>),
    depth: usize,
}

/// BFS over certificate states; `plan(depth)` is the sequence-length bound and
/// the letters used from a state first reached at BFS depth `depth`.
fn bfs(world: &World, ctx: &Ctx, stats: &Stats, plan: &(dyn Fn(usize) -> (usize, Vec<usize>) + Sync), start: Vec<CertState>, state_cap: usize) -> (BTreeMap<String, Reached>, u64, bool) {
    let mut seen: BTreeMap<String, Reached> = BTreeMap::new();
    let mut queue: VecDeque<String> = VecDeque::new();
    for s in start {
        let k = canon(&s);
        if !seen.contains_key(&k) {
            world.paths.lock().unwrap().entry(k.clone()).or_default();
            seen.insert(k.clone(), Reached { state: s, via: (String::new(), vec![]), depth: 0 });
            queue.push_back(k);
        }
    }
    let mut transitions = 0u64;
    let mut capped = false;
    while !queue.is_empty() {
        // one BFS level at a time, the states of a level in parallel
        let level: Vec<String> = queue.drain(..).collect();
        let results: Vec<(String, Vec<(String, CertState, Vec<usize>)>)> = level
            .par_iter()
            .map(|k| {
                let r = &seen[k];
                let (max_len, letters) = plan(r.depth);
                let letters = &letters;
                // the first letters in parallel as well (usize::MAX stands for the empty sequence)
                let mut first: Vec<usize> = letters.clone();
                first.push(usize::MAX);
                let firsts: Vec<Vec<(String, CertState, Vec<usize>)>> = first
                    .into_par_iter()
                    .map(|l| {
                        world.with(|txs, utxos, env| {
                            let ex2 = Explorer { world, txs, utxos, env, stats, ctx, max_len, letters, selftest: std::env::var_os("VERIF_C39_SELFTEST").is_some() };
                            let mut out = vec![];
                            if l == usize::MAX {
                                // the empty sequence
                                ex2.check(&r.state, k, &[], &Some(r.state.clone()), &mut out);
                                return out;
                            }
                            if max_len == 0 {
                                return out;
                            }
                            let mut w = r.state.clone();
                            let res = mc_core::catch(|| {
                                let x = validate_tx(&txs[l], 0, env, utxos, &mut w);
                                (x, w)
                            });
                            stats.tx_validations.fetch_add(1, Ordering::Relaxed);
                            let (next, dirty) = match res {
                                Err(p) => {
                                    ctx.violation(format!("c39:{}", panic_fp(&p)), format!("validate_tx panicked on {} at index 0: {} at {}", world.letters[l].name, p.message, p.location), world.replay(&r.state, &[l]));
                                    (None, false)
                                }
                                Ok((Ok(()), w)) => {
                                    stats.per_letter[l][0].fetch_add(1, Ordering::Relaxed);
                                    (Some(w), false)
                                }
                                Ok((Err(_), w)) => {
                                    stats.per_letter[l][1].fetch_add(1, Ordering::Relaxed);
                                    (None, canon(&w) != *k)
                                }
                            };
                            if dirty {
                                stats.fail_step_dirty.fetch_add(1, Ordering::Relaxed);
                            }
                            let changed = next.as_ref().map(|n| canon(n) != *k).unwrap_or(false);
                            let mut seq = vec![l];
                            ex2.dfs(&r.state, k, &mut seq, next, changed, &mut out);
                            out
                        })
                    })
                    .collect();
                let out: Vec<(String, CertState, Vec<usize>)> = firsts.into_iter().flatten().collect();
                (k.clone(), out)
            })
            .collect();
        for (from, outs) in results {
            let depth = seen[&from].depth;
            for (k, s, seq) in outs {
                transitions += 1;
                if k.is_empty() || seen.contains_key(&k) {
                    continue;
                }
                if seen.len() >= state_cap {
                    capped = true;
                    continue;
                }
                let names: Vec<&'static str> = seq.iter().map(|i| world.letters[*i].name).collect();
                {
                    let mut paths = world.paths.lock().unwrap();
                    let mut path = paths.get(&from).cloned().unwrap_or_default();
                    path.push(names.clone());
                    paths.insert(k.clone(), path);
                }
                seen.insert(k.clone(), Reached { state: s, via: (from.clone(), names), depth: depth + 1 });
                queue.push_back(k);
            }
        }
    }
    (seen, transitions, !capped)
}

/// `--replay <file>`: rebuild the start state by its path from the empty state,
/// then run the stored sequence through validate_txs and through the fold.
fn replay_if_asked_c39(ctx: &Ctx) {
    let Some(p) = &ctx.replay else { return };
    let s = std::fs::read_to_string(p).unwrap_or_else(|e| crate::fail(&format!("cannot read {p:?}: {e}")));
    let v: Value = mc_core::serde_json::from_str(&s).unwrap_or_else(|e| crate::fail(&format!("bad replay file: {e}")));
    let case = v.get("case").unwrap_or(&v);
    let names = |x: &Value| -> Vec<String> { x.as_array().map(|a| a.iter().filter_map(|n| n.as_str().map(String::from)).collect()).unwrap_or_default() };
    let shelley = World::new(alphabet(), Era::Mary);
    let alonzo = World::new(alonzo_alphabet(), Era::Alonzo);
    let indices = |w: &World, ns: &[String]| -> Vec<usize> { ns.iter().map(|n| w.letters.iter().position(|l| l.name == n).unwrap_or_else(|| crate::fail(&format!("unknown letter {n}")))).collect() };
    let mut st = CertState::default();
    for seq in case.get("path_from_empty").and_then(|x| x.as_array()).cloned().unwrap_or_default() {
        let ns = names(&seq);
        let ix = indices(&shelley, &ns);
        let r = shelley.with(|txs, utxos, env| {
            let sel: Vec<MultiEraTx> = ix.iter().map(|i| txs[*i].clone()).collect();
            format!("{:?}", validate_txs(&sel, env, utxos, &mut st))
        });
        println!("path {ns:?}: {r}");
    }
    println!("start state: {}", canon(&st));
    let w = if case.get("params_era").and_then(|x| x.as_str()) == Some("alonzo") { &alonzo } else { &shelley };
    let ns = names(case.get("sequence").unwrap_or(&Value::Null));
    let ix = indices(w, &ns);
    w.with(|txs, utxos, env| {
        let sel: Vec<MultiEraTx> = ix.iter().map(|i| txs[*i].clone()).collect();
        let mut caller = st.clone();
        let r = mc_core::catch(|| format!("{:?}", validate_txs(&sel, env, utxos, &mut caller)));
        println!("validate_txs {ns:?}: {r:?}");
        println!("  caller's state afterwards: {}", if canon(&caller) == canon(&st) { "unchanged".to_string() } else { canon(&caller) });
        let mut fold = st.clone();
        for (i, t) in sel.iter().enumerate() {
            let r = mc_core::catch(|| format!("{:?}", validate_tx(t, i as u32, env, utxos, &mut fold)));
            println!("  fold step {i} ({}): {r:?}", ns[i]);
            if !matches!(&r, Ok(x) if x == "Ok(())") {
                break;
            }
        }
        println!("  fold state (working copy, last step included): {}", if canon(&fold) == canon(&st) { "unchanged".to_string() } else { canon(&fold) });
    });
    std::process::exit(0);
}

pub fn run(ctx: Ctx) -> ! {
    print_statement(&ctx);
    replay_if_asked_c39(&ctx);
    crate::quiet::silence_stderr();
    let world = World::new(alphabet(), Era::Mary);
    let stats = Stats::default();
    // quick: every sequence of length <= 3 over all letters from every reached state;
    // thorough: length <= 5 over all letters from the empty state, length <= 5 over
    // the letters without LOWFEE and ALONZO (two of the three letters that fail in
    // every state; REG-LOWFEE, which also dirties the working state, stays) from
    // every other reached state
    let thorough = ctx.thorough;
    let all_letters: Vec<usize> = (0..world.letters.len()).collect();
    let reduced: Vec<usize> = (0..world.letters.len()).filter(|i| !["LOWFEE", "ALONZO"].contains(&world.letters[*i].name)).collect();
    let plan = move |depth: usize| -> (usize, Vec<usize>) {
        if !thorough {
            (3, all_letters.clone())
        } else if depth == 0 {
            (5, all_letters.clone())
        } else {
            (5, reduced.clone())
        }
    };
    let (seen, transitions, fixpoint) = bfs(&world, &ctx, &stats, &plan, vec![CertState::default()], 5000);

    if std::env::var_os("VERIF_C39_SELFTEST").is_some() {
        crate::quiet::restore_stderr();
        println!("SELFTEST (validate_txs replaced by a non-atomic stand-in; no evidence written): {} distinct violations", ctx.violation_count());
        std::process::exit(if ctx.violation_count() > 0 { 0 } else { 2 });
    }
    // ---- vacuity guards on the alphabet
    let per_letter: BTreeMap<&'static str, [u64; 2]> = world.letters.iter().enumerate().map(|(i, l)| (l.name, [stats.per_letter[i][0].load(Ordering::Relaxed), stats.per_letter[i][1].load(Ordering::Relaxed)])).collect();
    let get = |n: &str| per_letter.get(n).copied().unwrap_or([0, 0]);
    for n in ["PLAIN", "REG", "DEREG", "DELEG", "POOLREG", "POOLUPD", "RETIRE", "MIR"] {
        if get(n)[0] == 0 {
            crate::fail(&format!("C39 vacuous: letter {n} was never accepted by validate_tx"));
        }
    }
    for n in ["REG", "DEREG", "DELEG", "POOLREG", "POOLUPD", "RETIRE", "LOWFEE", "REG-LOWFEE", "ALONZO"] {
        if get(n)[1] == 0 {
            crate::fail(&format!("C39 vacuous: letter {n} was never rejected by validate_tx"));
        }
    }
    for n in ["LOWFEE", "REG-LOWFEE", "ALONZO"] {
        if get(n)[0] != 0 {
            crate::fail(&format!("C39: letter {n} is meant to be invalid in every state but was accepted"));
        }
    }
    if seen.len() < 8 || stats.fail_after_change.load(Ordering::Relaxed) == 0 || stats.fail_step_dirty.load(Ordering::Relaxed) == 0 {
        crate::fail(&format!(
            "C39 vacuous: {} states, {} failing sequences after a state-changing prefix, {} failing steps that had already changed the working state",
            seen.len(),
            stats.fail_after_change.load(Ordering::Relaxed),
            stats.fail_step_dirty.load(Ordering::Relaxed)
        ));
    }

    // ---- second pass: Alonzo transactions under Alonzo parameters (the validator does not touch the state)
    let populated: Vec<CertState> = seen.values().filter(|r| !r.state.pstate.pool_params.is_empty() && !r.state.dstate.delegations.is_empty()).take(1).map(|r| r.state.clone()).collect();
    if populated.is_empty() {
        crate::fail("C39: no reached state with a pool and a delegation for the Alonzo pass");
    }
    let aworld = World::new(alonzo_alphabet(), Era::Alonzo);
    for p in &populated {
        let k = canon(p);
        let path = world.paths.lock().unwrap().get(&k).cloned().unwrap_or_default();
        aworld.paths.lock().unwrap().insert(k, path);
    }
    let astats = Stats::default();
    let mut astart = vec![CertState::default()];
    astart.extend(populated);
    let alen = if ctx.thorough { 5 } else { 3 };
    let (aseen, atransitions, afix) = bfs(&aworld, &ctx, &astats, &move |_| (alen, vec![0, 1, 2]), astart, 100);
    let aletters: BTreeMap<&'static str, [u64; 2]> = aworld.letters.iter().enumerate().map(|(i, l)| (l.name, [astats.per_letter[i][0].load(Ordering::Relaxed), astats.per_letter[i][1].load(Ordering::Relaxed)])).collect();
    if aletters.get("A-PLAIN").map(|x| x[0]).unwrap_or(0) == 0 || aletters.get("A-LOWFEE").map(|x| x[1]).unwrap_or(0) == 0 || aletters.get("MARY").map(|x| x[1]).unwrap_or(0) == 0 {
        crate::fail(&format!("C39 vacuous: Alonzo pass letters {aletters:?}"));
    }
    if aseen.len() != 2 {
        crate::fail(&format!("C39: the Alonzo pass reached {} states, expected exactly its 2 start states", aseen.len()));
    }
    crate::quiet::restore_stderr();

    // ---- evidence
    let mut samples: Vec<Value> = vec![];
    for (_, r) in seen.iter().filter(|(_, r)| r.depth > 0).take(6) {
        samples.push(json!({"state": brief(&r.state), "canonical": canon(&r.state), "reached_from": if r.via.0.is_empty() { "start".to_string() } else { brief(&seen[&r.via.0].state) }, "by_sequence": r.via.1, "bfs_depth": r.depth}));
    }
    samples.push(json!({"alphabet": world.letters.iter().zip(&world.built).map(|(l, b)| json!({"name": l.name, "what": l.what, "era": b.era.name(), "tx": hex::encode(&b.tx)})).collect::<Vec<_>>()}));
    let states_by_depth: BTreeMap<usize, usize> = seen.values().fold(BTreeMap::new(), |mut m, r| {
        *m.entry(r.depth).or_default() += 1;
        m
    });
    let briefs: BTreeSet<String> = seen.values().map(|r| brief(&r.state)).collect();
    let cov = mc_core::cov! {
        "states" => seen.len() + aseen.len(),
        "transitions" => transitions + atransitions,
        "traces_validated_against_impl" => stats.traces.load(Ordering::Relaxed) + astats.traces.load(Ordering::Relaxed),
        "fixpoint" => fixpoint && afix,
        "exhaustive" => fixpoint && afix,
        "bound" => if ctx.thorough { "every sequence of length <= 5 over 11 letters from the empty state and of length <= 5 over 9 letters (without LOWFEE and ALONZO) from every other reached state; Alonzo pass: length <= 5 over 3 letters from 2 states" } else { "every sequence of length <= 3 over 11 letters from every reached state; Alonzo pass: length <= 3 over 3 letters from 2 states" },
        "shelley_pass" => json!({
            "states": seen.len(),
            "states_by_bfs_depth": states_by_depth,
            "state_shapes": briefs,
            "accepted_sequences": stats.ok_traces.load(Ordering::Relaxed),
            "failing_sequences": stats.err_traces.load(Ordering::Relaxed),
            "failing_sequences_after_a_state_changing_prefix": stats.fail_after_change.load(Ordering::Relaxed),
            "failing_steps_that_left_the_working_state_changed": stats.fail_step_dirty.load(Ordering::Relaxed),
            "validate_tx_steps_accepted_rejected_per_letter": per_letter.iter().map(|(k, v)| (k.to_string(), json!({"accepted": v[0], "rejected": v[1]}))).collect::<BTreeMap<_, _>>(),
            "validate_txs_error_classes": *stats.error_classes.lock().unwrap(),
            "transaction_validations": stats.tx_validations.load(Ordering::Relaxed),
        }),
        "alonzo_pass" => json!({
            "states": aseen.len(),
            "sequences": astats.traces.load(Ordering::Relaxed),
            "accepted_sequences": astats.ok_traces.load(Ordering::Relaxed),
            "failing_sequences": astats.err_traces.load(Ordering::Relaxed),
            "validate_tx_steps_accepted_rejected_per_letter": aletters.iter().map(|(k, v)| (k.to_string(), json!({"accepted": v[0], "rejected": v[1]}))).collect::<BTreeMap<_, _>>(),
        }),
        "samples" => samples
    };
    ctx.finish(
        Level::ModelChecking,
        cov,
        &[
            "the oracle is the fold of pallas' own validate_tx over a clone of the state, as the statement defines the expected state (\"as if each transaction had been applied in order\"); transaction index = position in the sequence, as validate_txs passes it",
            "one UTxO set for the whole sequence: validate_txs does not thread UTxO changes",
            "states are compared through every public field of CertState (dstate: rewards, delegations, ptrs, fut_gen_delegs, gen_delegs, inst_rewards; pstate: pool_params, fut_pool_params, retiring)",
            "only the Shelley/Allegra/Mary validator takes the certificate state; Alonzo+ transactions can only leave it unchanged",
        ],
    )
}
