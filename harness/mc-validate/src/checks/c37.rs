//! C37 — accepted script transactions respect the execution-unit budget.
//!
//! For every ACCEPTED case of Alonzo, Babbage, Conway whose witness set carries
//! Plutus scripts: sum of redeemer mem <= max_tx_ex_units.mem and sum of steps
//! <= max_tx_ex_units.steps (num-bigint sums over the refcbor view of witness
//! field 5, list form or map form).

use super::*;
use crate::explore::{self, Bounds};
use crate::params;
use crate::txlab::Era;
use crate::wire::TxView;
use mc_core::{Ctx, Level};
use num_bigint::BigInt;
use std::collections::BTreeMap;
use std::sync::Mutex;

pub fn run(ctx: Ctx) -> ! {
    print_statement(&ctx);
    replay_if_asked(&ctx);
    let bounds = Bounds::tier(ctx.thorough);
    let found = Findings::default();
    // (era, form) -> (accepted plutus cases, explored cases with mem > max, explored with steps > max, accepted at exactly max)
    let stats: Mutex<BTreeMap<(String, String), [u64; 4]>> = Mutex::new(BTreeMap::new());
    let eras = [Era::Alonzo, Era::Babbage, Era::Conway];
    let visit = |b: &crate::txlab::Built, v: &Verdict, nd: usize| {
        if matches!(v, Verdict::Undecodable(_) | Verdict::DecodePanicked(_)) {
            return;
        }
        let Some(view) = TxView::parse(&b.tx) else { return };
        // Plutus scripts in the witness set, or (base B3ref) on a reference input that the
        // transaction names and the UTxO holds
        let refscript = b.utxo.iter().any(|u| u.tx_id == crate::bases::REFSCRIPT.tx_id() && u.ix == crate::bases::REFSCRIPT.ix)
            && view.body().map_get(18).and_then(|n| n.untagged().as_array().map(|a| a.iter().any(|i| i.to_vec() == crate::bases::REFSCRIPT.node().to_vec()))).unwrap_or(false);
        if !view.has_plutus_scripts() && !refscript {
            return;
        }
        let n = params::numbers(b.era);
        let (budgets, form) = view.redeemer_budgets().unwrap_or((vec![], "absent"));
        let mem: BigInt = budgets.iter().map(|x| BigInt::from(x.0)).sum();
        let steps: BigInt = budgets.iter().map(|x| BigInt::from(x.1)).sum();
        let over_mem = mem > BigInt::from(n.max_mem);
        let over_steps = steps > BigInt::from(n.max_steps);
        {
            let mut s = stats.lock().unwrap();
            let e = s.entry((b.era.name().to_string(), form.to_string())).or_default();
            if v.accepted() {
                e[0] += 1;
                if mem == BigInt::from(n.max_mem) || steps == BigInt::from(n.max_steps) {
                    e[3] += 1;
                }
            }
            if over_mem {
                e[1] += 1;
            }
            if over_steps {
                e[2] += 1;
            }
        }
        if v.accepted() && (over_mem || over_steps) {
            found.add(
                format!("c37:budget-exceeded:{}", b.era.group()),
                nd,
                format!("accepted {} tx with Plutus scripts ({form}-form redeemers): sum mem {mem} (max {}), sum steps {steps} (max {})", b.era.name(), n.max_mem, n.max_steps),
                b,
                v,
            );
        }
    };
    let sum = explore::sweep(&eras, &|base| base.starts_with("B3"), bounds, &visit);
    let s = stats.lock().unwrap().clone();
    for (era, form) in [("alonzo", "list"), ("babbage", "list"), ("conway", "list"), ("conway", "map")] {
        let e = s.get(&(era.to_string(), form.to_string())).copied().unwrap_or_default();
        if e[0] == 0 || e[1] == 0 || e[2] == 0 {
            crate::fail(&format!("C37 vacuous for {era}/{form}: accepted Plutus cases {}, explored over-mem {}, over-steps {}", e[0], e[1], e[2]));
        }
    }
    found.flush(&ctx);
    let mut cov = sum.coverage(&format!(
        "TxLab base B3 (two PlutusV1-locked inputs, two redeemers) of Alonzo, Babbage, Conway and base B3v2 (the same spend locked by a PlutusV2 script with no V1 script in the witness set, Babbage and Conway at a slot of the PlutusV2 epochs) and base B3ref (B3v2 with the PlutusV2 script on a reference input instead of the witness set, Babbage and Conway) with every single deviation and pair of deviations of different dimensions ({}); budgets: sum(mem) and sum(steps) in {{max-1, max, max+1, 2^64-1}} plus every redeemer = 2^63, list form and (Conway) map form; the oracle runs on every ACCEPTED case that carries Plutus scripts; non-trivial = decoded, distinct by Blake2b of (tx, UTxO, environment)",
        bounds.describe()
    ));
    cov.insert(
        "per_era_and_encoding".into(),
        json!(s.iter().map(|((e, f), x)| json!({"era": e, "redeemers": f, "accepted_with_plutus": x[0], "explored_sum_mem_over_max": x[1], "explored_sum_steps_over_max": x[2], "accepted_at_exactly_max": x[3]})).collect::<Vec<_>>()),
    );
    cov.insert("findings".into(), json!(found.summary()));
    ctx.finish(Level::Exploration, cov, &["maxima are the fixtures' max_tx_ex_units per era", "Alonzo and Babbage only have the list encoding; the map encoding is explored for Conway"])
}
