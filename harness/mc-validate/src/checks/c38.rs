//! C38 — each implemented ledger rule rejects transactions that break only it.
//!
//! Specification of "implemented": the rule x era table of DESIGN.md
//! Appendix B (`rulemodel::TABLE`). For every accepted TxLab base of every
//! era and every rule of the table that applies to the era, rule mutators make
//! ONLY that rule false (re-signed, fee / change / hashes re-derived by the
//! builder). Every mutator is validated before its verdict counts:
//!   * field diff (refcbor view of base and mutant): exactly the claimed
//!     fields changed (fee, change coin and signatures are derived);
//!   * the independent rule model (`rulemodel::assess`) says: base violates
//!     nothing, mutant violates the targeted rule and otherwise only rules
//!     the mutator lists as legitimately dependent.
//! The real `validate_tx` must then return an error (any error; the class is
//! recorded). Also: every pair of mutators of different dimensions, and every
//! mutator on every ACCEPTED single deviation of the base (C33's deviation
//! alphabet) whose model assessment is clean.
//!
//! Fingerprints: `c38:<rule>:<validator>`; mutators that are constructed
//! around one particular code path carry a variant suffix so that a recorded
//! finding of that path cannot mask the loss of the whole rule.

use super::*;
use crate::bases::{self, MISSING, U00, U01, U10, U11};
use crate::byron::{self, BCoin, ByronCase};
use crate::devs;
use crate::explore;
use crate::rulemodel::{self, Assessment};
use crate::txlab::*;
use mc_core::blake2b::blake2b_224;
use mc_core::{Ctx, Level};
use rayon::prelude::*;
use std::collections::{BTreeMap, BTreeSet, HashSet};
use std::sync::Arc;
use std::sync::Mutex;

// ------------------------------------------------------------------ mutators

pub struct Mutator<C> {
    pub name: String,
    pub rule: &'static str,
    /// fingerprint suffix for mutators built around one code path
    pub variant: Option<&'static str>,
    /// fields the mutator overwrites: two mutators sharing one are not paired
    pub dims: Vec<&'static str>,
    /// fields of `rulemodel::fields` that change (exactly)
    pub touches: Vec<&'static str>,
    /// table rules that legitimately depend on the targeted one
    pub also: Vec<&'static str>,
    /// rules outside the table that legitimately depend on it
    pub also_other: Vec<&'static str>,
    f: Arc<dyn Fn(&mut C) + Send + Sync>,
}

impl<C> Mutator<C> {
    fn new(name: impl Into<String>, rule: &'static str, dims: &[&'static str], touches: &[&'static str], f: impl Fn(&mut C) + Send + Sync + 'static) -> Mutator<C> {
        Mutator { name: name.into(), rule, variant: None, dims: dims.to_vec(), touches: touches.to_vec(), also: vec![], also_other: vec![], f: Arc::new(f) }
    }
    fn also(mut self, r: &[&'static str]) -> Self {
        self.also = r.to_vec();
        self
    }
    fn also_other(mut self, r: &[&'static str]) -> Self {
        self.also_other = r.to_vec();
        self
    }
    fn variant(mut self, v: &'static str) -> Self {
        self.variant = Some(v);
        self
    }
    fn fingerprint(&self, group: &str) -> String {
        match self.variant {
            Some(v) => format!("c38:{}:{}:{}", self.rule, group, v),
            None => format!("c38:{}:{}", self.rule, group),
        }
    }
    fn conflicts(&self, o: &Mutator<C>) -> bool {
        self.dims.iter().any(|d| o.dims.contains(d))
    }
}

fn apply(m: &Mutator<Case>, c: &mut Case) {
    (m.f)(c);
    c.devs.push(format!("<{}> {}", m.rule, m.name));
}

fn apply_byron(m: &Mutator<ByronCase>, c: &mut ByronCase) {
    (m.f)(c);
    c.devs.push(format!("<{}> {}", m.rule, m.name));
}

/// A native script that K0 satisfies and that locks nothing.
fn native_wrong() -> Native {
    Native::Any(vec![Native::Pubkey(0)])
}

/// Blake2b-224(00 || script1 || script2): what a hash buffer that is not reset
/// between two candidate scripts produces for the second candidate.
fn concat_hash(a: &Native, b: &Native) -> [u8; 28] {
    let mut p = vec![0u8];
    p.extend(a.node().to_vec());
    p.extend(b.node().to_vec());
    blake2b_224(&p)
}

fn has_plutus(c: &Case) -> bool {
    [&c.tx.wits.plutus_v1, &c.tx.wits.plutus_v2].iter().any(|p| p.as_ref().map(|v| !v.is_empty()).unwrap_or(false))
}

fn native_locked(c: &Case, r: &InRef) -> Option<[u8; 28]> {
    match c.env.get(r).map(|u| &u.out.addr) {
        Some(Addr::Enterprise { pay: Pay::Script(h), .. }) | Some(Addr::Base { pay: Pay::Script(h), .. }) => Some(*h),
        _ => None,
    }
}

/// Turn the change output into a fixed output of the amount it has now.
fn freeze_change(c: &mut Case) {
    let change = build_resolved(c).1.change;
    for o in c.tx.outputs.iter_mut() {
        if o.coin == Coin::Change {
            o.coin = Coin::Fixed(change)
        }
    }
}

const X02: InRef = InRef::new(0, 2);
const X03: InRef = InRef::new(0, 3);
const X12: InRef = InRef::new(1, 2);

/// The rule mutators that apply to `c` (an accepted case).
pub fn mutators(c: &Case) -> Vec<Mutator<Case>> {
    let era = c.era;
    let slot = c.env.slot;
    let plutus = has_plutus(c);
    let app = |r: &str| rulemodel::applicable(r, era);
    let natives: Vec<Native> = c.tx.wits.native.clone().unwrap_or_default();
    let spends_lock = !plutus && c.tx.inputs.contains(&U10) && native_locked(c, &U10) == Some(native_lock().hash()) && natives.contains(&native_lock());
    let mints_policy = c.tx.mint.as_ref().map(|m| m.iter().any(|(p, _)| *p == bases::policy())).unwrap_or(false) && natives.contains(&native_policy());
    let mut v: Vec<Mutator<Case>> = vec![];

    // ---- inputs
    v.push(
        Mutator::new("inputs=[]", "inputs-non-empty", &["ins"], &["body.0"], |c: &mut Case| {
            // the outputs keep their amounts (nothing is consumed any more: value conservation necessarily fails)
            freeze_change(c);
            c.tx.inputs.clear()
        })
            .also(&["redeemer-coverage", "datum-witness"])
            .also_other(&["conservation", "extraneous-script"]),
    );
    v.push(Mutator::new("inputs+=missing", "input-in-utxo", &["ins"], &["body.0"], |c: &mut Case| c.tx.inputs.push(MISSING)));
    if !plutus && !c.tx.inputs.is_empty() && c.tx.inputs[0] == U00 {
        v.push(Mutator::new("utxo-=T0#0", "input-in-utxo", &["utxoT0#0"], &["utxo.T0#0"], |c: &mut Case| {
            freeze_change(c);
            c.env.utxo.retain(|u| u.at != U00)
        })
        .also_other(&["conservation"]));
    }
    if app("collateral-in-utxo") {
        v.push(Mutator::new("collateral=[T0#0,missing]", "collateral-in-utxo", &["coll"], &["body.13"], |c: &mut Case| c.tx.collateral = Some(vec![U00, MISSING])));
    }
    if app("reference-input-in-utxo") {
        v.push(Mutator::new("reference_inputs=[missing]", "reference-input-in-utxo", &["refins"], &["body.18"], |c: &mut Case| c.tx.reference_inputs = Some(vec![MISSING])));
    }

    // ---- validity interval
    if app("validity-upper-bound") {
        v.push(Mutator::new("ttl=slot-1", "validity-upper-bound", &["ttl"], &["body.3"], move |c: &mut Case| c.tx.ttl = Some(slot.saturating_sub(1))));
        v.push(Mutator::new("ttl=0", "validity-upper-bound", &["ttl"], &["body.3"], move |c: &mut Case| c.tx.ttl = Some(0)));
    }
    if app("validity-lower-bound") {
        v.push(Mutator::new("validity_start=slot+1", "validity-lower-bound", &["start"], &["body.8"], move |c: &mut Case| c.tx.validity_start = Some(slot.saturating_add(1))));
        v.push(Mutator::new("validity_start=2^64-1", "validity-lower-bound", &["start"], &["body.8"], move |c: &mut Case| c.tx.validity_start = Some(u64::MAX)));
    }

    // ---- outputs
    if !c.tx.outputs.is_empty() && matches!(c.tx.outputs[0].coin, Coin::Fixed(_)) {
        v.push(Mutator::new("out0.coin=min-1", "min-ada-per-output", &["out0.coin"], &["body.1"], move |c: &mut Case| {
            if let Some(o) = c.tx.outputs.get_mut(0) {
                o.coin = Coin::Fixed(devs::min_lovelace(era, o).saturating_sub(1))
            }
        }));
        for x in [1u64, 0] {
            v.push(Mutator::new(format!("out0.coin={x}"), "min-ada-per-output", &["out0.coin"], &["body.1"], move |c: &mut Case| {
                if let Some(o) = c.tx.outputs.get_mut(0) {
                    o.coin = Coin::Fixed(x)
                }
            }));
        }
        if app("output-network-id") {
            v.push(Mutator::new("out0.addr=testnet", "output-network-id", &["out0.addr"], &["body.1"], |c: &mut Case| {
                if let Some(o) = c.tx.outputs.get_mut(0) {
                    o.addr = o.addr.with_net(TESTNET)
                }
            }));
        }
    }
    if app("output-value-size") && mints_policy && c.env.get(&U00).is_some() && !c.tx.outputs.is_empty() {
        // 150 further assets with 32-byte names under the native policy: the
        // serialized value of output 0 is > 5000 bytes (and < 5000 words)
        v.push(Mutator::new("out0.value=150 more assets (>5000 bytes), minted", "output-value-size", &["out0.coin", "out0.assets", "mint", "utxoT0#0.coin"], &["body.1", "body.9", "utxo.T0#0"], |c: &mut Case| {
            for i in 0..150u8 {
                let mut name = vec![0xB0u8; 31];
                name.push(i);
                if let Some(o) = c.tx.outputs.get_mut(0) {
                    set_asset(&mut o.assets, bases::policy(), name.clone(), 1);
                }
                if let Some((_, m)) = c.tx.mint.as_mut().and_then(|m| m.iter_mut().find(|(p, _)| *p == bases::policy())) {
                    m.push((name, 1));
                    m.sort();
                }
            }
            if let Some(o) = c.tx.outputs.get_mut(0) {
                o.coin = Coin::Fixed(40_000_000);
            }
            if let Some(u) = c.env.get_mut(&U00) {
                u.out.coin = Coin::Fixed(100_000_000);
            }
        }));
    }
    if app("tx-network-id") {
        v.push(Mutator::new("tx.network_id=0", "tx-network-id", &["txnet"], &["body.15"], |c: &mut Case| c.tx.network_id = Some(0)));
    }

    // ---- collateral (demanded of transactions with Plutus scripts)
    if plutus && app("collateral-count") && c.tx.collateral == Some(vec![U01]) {
        v.push(Mutator::new("collateral=none", "collateral-count", &["coll"], &["body.13"], |c: &mut Case| c.tx.collateral = None));
        v.push(Mutator::new("collateral=[]", "collateral-count", &["coll"], &["body.13"], |c: &mut Case| c.tx.collateral = Some(vec![])));
        v.push(Mutator::new("collateral=4 key-locked entries", "collateral-count", &["coll"], &["body.13", "utxo.T0#2", "utxo.T0#3"], move |c: &mut Case| {
            for r in [X02, X03] {
                c.env.utxo.push(Utxo { at: r, out: Out::new(era, Addr::key(1), 5_000_000), era: None });
            }
            c.tx.collateral = Some(vec![U01, U00, X02, X03]);
        }));
        v.push(Mutator::new("utxo[T0#1].addr=script", "collateral-key-locked", &["utxoT0#1.addr"], &["utxo.T0#1"], |c: &mut Case| {
            if let Some(u) = c.env.get_mut(&U01) {
                u.out.addr = Addr::script(native_lock().hash())
            }
        }));
        v.push(Mutator::new("collateral=[T1#0] (script-locked)", "collateral-key-locked", &["coll"], &["body.13"], |c: &mut Case| c.tx.collateral = Some(vec![U10])));
        v.push(Mutator::new("utxo[T0#1].coin=150%fee-1", "collateral-ada-only-and-percentage", &["utxoT0#1.coin"], &["utxo.T0#1"], |c: &mut Case| {
            let fee = build_resolved(c).1.fee;
            let need = (fee as u128 * 150).div_ceil(100) as u64;
            if let Some(u) = c.env.get_mut(&U01) {
                u.out.coin = Coin::Fixed(need.saturating_sub(1))
            }
        }));
        v.push(Mutator::new("utxo[T0#1].asset[A]=1", "collateral-ada-only-and-percentage", &["utxoT0#1.asset"], &["utxo.T0#1"], |c: &mut Case| {
            if let Some(u) = c.env.get_mut(&U01) {
                set_asset(&mut u.out.assets, bases::policy(), asset_a(), 1)
            }
        }));
        // the collateral entry is a Byron-era entry (bootstrap address: key-locked, ada-only) worth 1 lovelace
        v.push(
            Mutator::new("utxo[T0#1]=byron-era entry of 1 lovelace", "collateral-ada-only-and-percentage", &["utxoT0#1.coin", "utxoT0#1.era", "utxoT0#1.addr"], &["utxo.T0#1"], |c: &mut Case| {
                if let Some(u) = c.env.get_mut(&U01) {
                    u.era = Some(Era::Byron);
                    u.out.coin = Coin::Fixed(1)
                }
            })
            .variant("byron-era-utxo-entry"),
        );
        if era.map_outputs() && c.tx.collateral_return.is_none() {
            // the collateral return is an output: minimum ada and network id apply to it
            v.push(
                Mutator::new("collateral_return=K1:1 lovelace", "min-ada-per-output", &["collret"], &["body.16"], move |c: &mut Case| c.tx.collateral_return = Some(Out::new(era, Addr::key(1), 1))).variant("collateral-return"),
            );
            v.push(
                Mutator::new("collateral_return=K1@testnet:1 ADA", "output-network-id", &["collret"], &["body.16"], move |c: &mut Case| c.tx.collateral_return = Some(Out::new(era, Addr::key(1).with_net(TESTNET), 1_000_000)))
                    .variant("collateral-return"),
            );
            // the collateral entry was created in the previous era and is script-locked
            let prev = if era == Era::Conway { Era::Babbage } else { Era::Alonzo };
            v.push(
                Mutator::new(format!("utxo[T0#1]={}-era entry locked by a script", prev.name()), "collateral-key-locked", &["utxoT0#1.addr", "utxoT0#1.era"], &["utxo.T0#1"], move |c: &mut Case| {
                    if let Some(u) = c.env.get_mut(&U01) {
                        u.era = Some(prev);
                        if !prev.map_outputs() {
                            u.out.form = OutForm::Legacy;
                        }
                        u.out.addr = Addr::script(native_lock().hash())
                    }
                })
                .variant("previous-era-utxo-entry"),
            );
        }
        if app("collateral-annotation") && c.tx.total_collateral.is_none() {
            v.push(Mutator::new("total_collateral=balance+1", "collateral-annotation", &["totcoll"], &["body.17"], |c: &mut Case| {
                let bal: u64 = c.tx.collateral.clone().unwrap_or_default().iter().filter_map(|r| c.env.get(r)).map(|u| u.out.fixed()).fold(0u64, |a, b| a.saturating_add(b));
                c.tx.total_collateral = Some(TotalCollateral::Exact(if bal == u64::MAX { bal - 1 } else { bal + 1 }))
            }));
            v.push(Mutator::new("total_collateral=1", "collateral-annotation", &["totcoll"], &["body.17"], |c: &mut Case| c.tx.total_collateral = Some(TotalCollateral::Exact(1))));
        }
    }

    // ---- minting policy
    if app("minting-policy-witness") && mints_policy {
        v.push(Mutator::new("wits.native-=policy", "minting-policy-witness", &["native"], &["wits.1"], |c: &mut Case| {
            if let Some(n) = c.tx.wits.native.as_mut() {
                n.retain(|s| *s != native_policy());
            }
            if c.tx.wits.native.as_ref().map(|n| n.is_empty()).unwrap_or(false) {
                c.tx.wits.native = None
            }
        }));
        v.push(Mutator::new("wits.native: policy->other script", "minting-policy-witness", &["native"], &["wits.1"], |c: &mut Case| {
            if let Some(n) = c.tx.wits.native.as_mut() {
                for s in n.iter_mut() {
                    if *s == native_policy() {
                        *s = native_wrong()
                    }
                }
            }
        })
        .also_other(&["extraneous-script"]));
        if !c.tx.outputs.is_empty() {
            v.push(Mutator::new("mint+=policy without witness", "minting-policy-witness", &["mint", "out0.assets"], &["body.9", "body.1"], |c: &mut Case| {
                let p = native_wrong().hash();
                if let Some(m) = c.tx.mint.as_mut() {
                    m.push((p, vec![(asset_a(), 1)]));
                    m.sort();
                }
                if let Some(o) = c.tx.outputs.get_mut(0) {
                    set_asset(&mut o.assets, p, asset_a(), 1)
                }
            }));
        }
    }

    // ---- script witness for script-locked inputs
    if app("script-witness-for-input") && spends_lock {
        v.push(Mutator::new("wits.native-=lock", "script-witness-for-input", &["native"], &["wits.1"], |c: &mut Case| {
            if let Some(n) = c.tx.wits.native.as_mut() {
                n.retain(|s| *s != native_lock());
            }
            if c.tx.wits.native.as_ref().map(|n| n.is_empty()).unwrap_or(false) {
                c.tx.wits.native = None
            }
        }));
        v.push(Mutator::new("wits.native: lock->other script", "script-witness-for-input", &["native"], &["wits.1"], |c: &mut Case| {
            if let Some(n) = c.tx.wits.native.as_mut() {
                for s in n.iter_mut() {
                    if *s == native_lock() {
                        *s = native_wrong()
                    }
                }
            }
        })
        .also_other(&["extraneous-script"]));
        if natives == vec![native_lock()] {
            // the UTxO entry is locked by H = Blake2b-224(00 || lock || lock), which is
            // the hash of no script; the witness set carries [lock, lock]
            v.push(
                Mutator::new("utxo[T1#0].addr=script(H(00|lock|lock)), wits.native=[lock,lock]", "script-witness-for-input", &["native", "utxoT1#0.addr"], &["utxo.T1#0", "wits.1"], |c: &mut Case| {
                    if let Some(u) = c.env.get_mut(&U10) {
                        u.out.addr = Addr::script(concat_hash(&native_lock(), &native_lock()))
                    }
                    c.tx.wits.native = Some(vec![native_lock(), native_lock()])
                })
                .also_other(&["extraneous-script"])
                .variant("concatenated-scripts-hash"),
            );
        }
        if natives == vec![native_lock(), native_policy()] && mints_policy && !c.tx.inputs.contains(&U11) && c.env.get(&U11).is_some() {
            // both witness scripts are needed (lock by T1#0, policy by the mint); the
            // additional input T1#1 is locked by H(00 || lock || policy)
            v.push(
                Mutator::new("inputs+=T1#1 locked by script(H(00|lock|policy))", "script-witness-for-input", &["ins", "utxoT1#1"], &["utxo.T1#1", "body.0"], |c: &mut Case| {
                    if let Some(u) = c.env.get_mut(&U11) {
                        u.out.addr = Addr::script(concat_hash(&native_lock(), &native_policy()));
                        u.out.assets = None;
                    }
                    c.tx.inputs.push(U11)
                })
                .variant("concatenated-scripts-hash"),
            );
            v.push(Mutator::new("inputs+=T1#1 locked by another script", "script-witness-for-input", &["ins", "utxoT1#1"], &["utxo.T1#1", "body.0"], |c: &mut Case| {
                if let Some(u) = c.env.get_mut(&U11) {
                    u.out.addr = Addr::script(native_wrong().hash());
                    u.out.assets = None;
                }
                c.tx.inputs.push(U11)
            }));
        }
    }
    if plutus && app("script-witness-for-input") && c.tx.wits.plutus_v1.is_some() {
        v.push(
            Mutator::new("wits.plutus_v1=none", "script-witness-for-input", &["plutus"], &["wits.3", "body.11"], |c: &mut Case| c.tx.wits.plutus_v1 = None).also(&["redeemer-coverage", "datum-witness"]),
        );
        v.push(Mutator::new("wits.plutus_v1, redeemers, datums = none", "script-witness-for-input", &["plutus", "rdm", "datums"], &["wits.3", "wits.4", "wits.5", "body.11"], |c: &mut Case| {
            c.tx.wits.plutus_v1 = None;
            c.tx.wits.redeemers = None;
            c.tx.wits.datums = None;
        }));
        v.push(
            Mutator::new("wits.plutus_v1=[another script]", "script-witness-for-input", &["plutus"], &["wits.3"], |c: &mut Case| c.tx.wits.plutus_v1 = Some(vec![plutus_script_other()]))
                .also(&["redeemer-coverage", "datum-witness"])
                .also_other(&["extraneous-script"]),
        );
    }

    if plutus && app("script-witness-for-input") && c.tx.wits.plutus_v1.is_none() && c.tx.wits.plutus_v2 == Some(vec![plutus_script()]) {
        // base B3v2: the inputs are locked by the PlutusV2 script
        v.push(
            Mutator::new("wits.plutus_v2=none", "script-witness-for-input", &["plutus2"], &["wits.6", "body.11"], |c: &mut Case| c.tx.wits.plutus_v2 = None).also(&["redeemer-coverage", "datum-witness"]),
        );
        v.push(Mutator::new("wits.plutus_v2, redeemers, datums = none", "script-witness-for-input", &["plutus2", "rdm", "datums"], &["wits.6", "wits.4", "wits.5", "body.11"], |c: &mut Case| {
            c.tx.wits.plutus_v2 = None;
            c.tx.wits.redeemers = None;
            c.tx.wits.datums = None;
        }));
        v.push(
            Mutator::new("wits.plutus_v2=[another script]", "script-witness-for-input", &["plutus2"], &["wits.6"], |c: &mut Case| c.tx.wits.plutus_v2 = Some(vec![plutus_script_other()]))
                .also(&["redeemer-coverage", "datum-witness"])
                .also_other(&["extraneous-script"]),
        );
    }

    // ---- datums, redeemers, integrity hash, language
    if plutus && app("datum-witness") && c.tx.wits.datums == Some(vec![bases::datum()]) {
        v.push(Mutator::new("wits.datums=[99]", "datum-witness", &["datums"], &["wits.4", "body.11"], |c: &mut Case| c.tx.wits.datums = Some(vec![Data::Int(99)])));
        v.push(Mutator::new("wits.datums+=99", "datum-witness", &["datums"], &["wits.4", "body.11"], |c: &mut Case| c.tx.wits.datums = Some(vec![bases::datum(), Data::Int(99)])));
        v.push(Mutator::new("wits.datums=none", "datum-witness", &["datums"], &["wits.4", "body.11"], |c: &mut Case| c.tx.wits.datums = None));
    }
    if plutus && app("redeemer-coverage") && c.tx.wits.redeemers.as_ref().map(|r| r.len() == 2).unwrap_or(false) {
        v.push(Mutator::new("wits.redeemers-=last", "redeemer-coverage", &["rdm"], &["wits.5", "body.11"], |c: &mut Case| {
            if let Some(r) = c.tx.wits.redeemers.as_mut() {
                r.pop();
            }
        }));
        v.push(Mutator::new("wits.redeemers+=spend#0", "redeemer-coverage", &["rdm"], &["wits.5", "body.11"], |c: &mut Case| {
            if let Some(r) = c.tx.wits.redeemers.as_mut() {
                r.insert(0, Redeemer { tag: 0, index: 0, data: Data::Int(0), mem: 500, steps: 5_000 })
            }
        }));
        v.push(Mutator::new("wits.redeemers+=mint#0", "redeemer-coverage", &["rdm"], &["wits.5", "body.11"], |c: &mut Case| {
            if let Some(r) = c.tx.wits.redeemers.as_mut() {
                r.push(Redeemer { tag: 1, index: 0, data: Data::Int(3), mem: 500, steps: 5_000 })
            }
        }));
        if c.tx.wits.native.is_none() && c.tx.inputs == vec![U00, U10, U11] {
            // a further input locked by a native script (witnessed, satisfied by K0) with a
            // redeemer of its own: native scripts take no redeemer, so the redeemer is unneeded.
            // T1#2 sorts after the other inputs: the indices of the Plutus inputs stay.
            v.push(
                Mutator::new("inputs+=T1#2 (native-script-locked, witnessed) with a redeemer spend#3", "redeemer-coverage", &["rdm", "ins", "native"], &["utxo.T1#2", "body.0", "wits.1", "wits.5", "body.11"], move |c: &mut Case| {
                    c.env.utxo.push(Utxo { at: X12, out: Out::new(era, Addr::script(native_lock().hash()), 3_000_000), era: None });
                    c.tx.inputs.push(X12);
                    c.tx.wits.native = Some(vec![native_lock()]);
                    if let Some(r) = c.tx.wits.redeemers.as_mut() {
                        r.push(Redeemer { tag: 0, index: 3, data: Data::Int(3), mem: 500, steps: 5_000 })
                    }
                })
                .variant("redeemer-for-native-script-input"),
            );
        }
        v.push(Mutator::new("wits.redeemers=none", "redeemer-coverage", &["rdm"], &["wits.5", "body.11"], |c: &mut Case| c.tx.wits.redeemers = None));
    }
    if app("aux-data-hash") && !c.tx.aux && c.tx.aux_hash == HashSpec::Absent {
        v.push(Mutator::new("aux data without hash", "aux-data-hash", &["aux"], &["aux"], |c: &mut Case| c.tx.aux = true));
        v.push(Mutator::new("aux hash without data", "aux-data-hash", &["aux"], &["body.7"], |c: &mut Case| c.tx.aux_hash = HashSpec::Right));
        v.push(Mutator::new("aux data with a wrong hash", "aux-data-hash", &["aux"], &["aux", "body.7"], |c: &mut Case| {
            c.tx.aux = true;
            c.tx.aux_hash = HashSpec::Wrong
        }));
    }
    if app("script-integrity-hash") {
        v.push(Mutator::new("script_data_hash=wrong", "script-integrity-hash", &["sdh"], &["body.11"], |c: &mut Case| c.tx.script_data_hash = HashSpec::Wrong));
        if c.tx.script_data_hash == HashSpec::Right && plutus {
            v.push(Mutator::new("script_data_hash=absent", "script-integrity-hash", &["sdh"], &["body.11"], |c: &mut Case| c.tx.script_data_hash = HashSpec::Absent));
        }
    }
    if plutus && app("language-available") && c.tx.wits.plutus_v1 == Some(vec![plutus_script()]) && c.tx.wits.plutus_v2.is_none() {
        // the parameters carry a PlutusV1 cost model only
        v.push(Mutator::new("the Plutus script becomes a PlutusV2 script", "language-available", &["plutus", "utxoT1#0.addr", "utxoT1#1"], &["utxo.T1#0", "utxo.T1#1", "wits.3", "wits.6", "body.11"], |c: &mut Case| {
            let h = plutus_hash(2, &plutus_script());
            for r in [U10, U11] {
                if let Some(u) = c.env.get_mut(&r) {
                    u.out.addr = Addr::script(h)
                }
            }
            c.tx.wits.plutus_v1 = None;
            c.tx.wits.plutus_v2 = Some(vec![plutus_script()]);
        }));
    }
    v
}

pub fn byron_mutators(_c: &ByronCase) -> Vec<Mutator<ByronCase>> {
    vec![
        Mutator::new("inputs=[]", "inputs-non-empty", &["ins"], &["byron.inputs"], |c: &mut ByronCase| {
            // the outputs keep their amounts
            if let Some(v) = crate::wire::byron_view(&byron::build(c).tx) {
                for (i, o) in c.outputs.iter_mut().enumerate() {
                    if let (BCoin::Change(_), Some(x)) = (&o.1, v.outputs.get(i).and_then(|x| u64::try_from(x.clone()).ok())) {
                        o.1 = BCoin::Fixed(x)
                    }
                }
            }
            c.inputs.clear()
        })
        .also_other(&["conservation"]),
        Mutator::new("inputs+=missing", "input-in-utxo", &["ins"], &["byron.inputs"], |c: &mut ByronCase| c.inputs.push(byron::IN_MISSING)),
        Mutator::new("out0=0", "min-ada-per-output", &["out0"], &["byron.outputs"], |c: &mut ByronCase| {
            if let Some(o) = c.outputs.get_mut(0) {
                o.1 = BCoin::Fixed(0)
            }
        }),
    ]
}

// ------------------------------------------------------------------ bases

/// B4: spend of a key-locked and a native-script-locked entry.
fn b4(era: Era) -> Case {
    let mut c = bases::b1(era);
    c.base = "B4-native-spend".into();
    c.tx.inputs = vec![U00, U10];
    c.tx.wits.vkeys = Some(vec![VkWit::Valid(0)]);
    c.tx.wits.native = Some(vec![native_lock()]);
    c
}

/// B6: B2 (native-policy mint) that also spends the native-script-locked entry.
fn b6(era: Era) -> Case {
    let mut c = bases::b2(era);
    c.base = "B6-mint-and-native-spend".into();
    c.tx.inputs = vec![U00, U10];
    c.tx.wits.native = Some(vec![native_lock(), native_policy()]);
    c
}

/// B5: two inputs locked by two different native scripts (both witnessed).
fn b5(era: Era, swap: bool) -> Case {
    let mut c = bases::b1(era);
    c.base = if swap { "B5s-two-native-inputs(policy,lock)".into() } else { "B5-two-native-inputs(lock,policy)".into() };
    if let Some(u) = c.env.get_mut(&U11) {
        u.out = Out::new(era, Addr::script(native_policy().hash()), 7_000_000);
    }
    c.tx.inputs = vec![U00, U10, U11];
    c.tx.wits.vkeys = Some(vec![VkWit::Valid(0), VkWit::Valid(1)]);
    c.tx.wits.native = Some(if swap { vec![native_policy(), native_lock()] } else { vec![native_lock(), native_policy()] });
    c
}

fn change_ix(c: &Case) -> Option<usize> {
    c.tx.outputs.iter().position(|o| o.coin == Coin::Change)
}

// ------------------------------------------------------------------ bookkeeping

#[derive(Default, Clone)]
struct Cell {
    mutators: BTreeSet<String>,
    bases: BTreeSet<String>,
    evaluated: u64,
    rejected: u64,
    accepted: u64,
    panicked: u64,
    undecodable: u64,
    classes: BTreeMap<String, u64>,
}

#[derive(Default)]
struct Book {
    cells: Mutex<BTreeMap<(String, String), Cell>>,
    evaluations: Mutex<u64>,
    distinct: Mutex<HashSet<[u8; 16]>>,
    counters: Mutex<BTreeMap<String, u64>>,
    samples: Mutex<BTreeMap<String, Value>>,
}

impl Book {
    fn count(&self, k: &str, n: u64) {
        *self.counters.lock().unwrap().entry(k.to_string()).or_default() += n;
    }
    fn eval(&self, b: &Built, v: &Verdict) {
        *self.evaluations.lock().unwrap() += 1;
        if !matches!(v, Verdict::Undecodable(_) | Verdict::DecodePanicked(_)) {
            self.distinct.lock().unwrap().insert(explore::digest(b));
        }
    }
    fn cell(&self, rule: &str, era: Era, mutator: &str, base: &str, b: &Built, v: &Verdict) {
        let mut cells = self.cells.lock().unwrap();
        let c = cells.entry((rule.to_string(), era.name().to_string())).or_default();
        match v {
            Verdict::Undecodable(_) | Verdict::DecodePanicked(_) => {
                c.undecodable += 1;
                return;
            }
            Verdict::Accepted => c.accepted += 1,
            Verdict::Rejected(_) => c.rejected += 1,
            Verdict::Panicked(_) => c.panicked += 1,
        }
        c.evaluated += 1;
        c.mutators.insert(mutator.to_string());
        c.bases.insert(base.to_string());
        *c.classes.entry(v.class()).or_default() += 1;
        drop(cells);
        // one sample per rule: the case with the shortest label (independent of thread timing)
        let mut s = self.samples.lock().unwrap();
        let better = match s.get(rule) {
            Some(old) => {
                let l = old["case"].as_str().unwrap_or("");
                (b.label.len(), b.label.as_str()) < (l.len(), l)
            }
            None => true,
        };
        if better {
            s.insert(rule.to_string(), json!({"rule": rule, "case": b.label, "verdict": v.class(), "tx": hex::encode(&b.tx)}));
        }
    }
}

/// Is `a` what a mutator for `target` may produce?
fn only_target(a: &Assessment, target: &str, also: &[&'static str], also_other: &[&'static str]) -> bool {
    a.table.contains(target) && a.table.iter().all(|r| *r == target || also.contains(r)) && a.other.iter().all(|r| also_other.contains(r))
}

struct Single {
    fp: String,
    accepted: bool,
}

/// Validate and run every mutator of one accepted, model-clean case. Returns per mutator whether the real validator accepted the mutant.
#[allow(clippy::too_many_arguments)]
fn run_singles(case: &Case, built: &Built, muts: &[Mutator<Case>], strict: bool, ndev: usize, book: &Book, found: &Findings) -> Vec<Option<Single>> {
    let f0 = rulemodel::fields(built, change_ix(case)).unwrap_or_else(|| crate::fail(&format!("refcbor view cannot read accepted case {}", built.label)));
    muts.iter()
        .map(|m| {
            let mut c = case.clone();
            apply(m, &mut c);
            let b = build(&c);
            let a = rulemodel::assess(&b);
            let ok = a.as_ref().map(|a| only_target(a, m.rule, &m.also, &m.also_other)).unwrap_or(false);
            if strict {
                // on the bases every mutator must be exactly what it claims to be
                let Some(a) = &a else { crate::fail(&format!("mutator {:?} on {}: the mutant is not readable by the model", m.name, built.label)) };
                if !ok {
                    crate::fail(&format!("mutator {:?} (rule {}) on {} is not a single-rule mutator: {}", m.name, m.rule, built.label, a.show()));
                }
                let f1 = rulemodel::fields(&b, change_ix(case)).unwrap_or_else(|| crate::fail(&format!("refcbor view cannot read the mutant of {:?} on {}", m.name, built.label)));
                let d = rulemodel::diff(&f0, &f1);
                let want: BTreeSet<String> = m.touches.iter().map(|s| s.to_string()).collect();
                if d != want {
                    crate::fail(&format!("mutator {:?} on {} changed fields {:?}, it claims {:?}", m.name, built.label, d, want));
                }
            } else if !ok {
                // on a deviated (accepted) case the deviation may neutralise or compound the mutator: not used
                book.count(if a.as_ref().map(|a| a.table.contains(m.rule)).unwrap_or(false) { "variant_mutants_compound_skipped" } else { "variant_mutants_neutralised_skipped" }, 1);
                return None;
            }
            let v = exec::run(&b);
            book.eval(&b, &v);
            book.cell(m.rule, case.era, &m.name, &case.base, &b, &v);
            let fp = m.fingerprint(case.era.group());
            if v.accepted() {
                found.add(fp.clone(), ndev, format!("{} validator accepted a transaction that violates only the rule \"{}\" ({})", case.era.group(), rulemodel::row(m.rule).map(|r| r.text).unwrap_or(m.rule), m.name), &b, &v);
            }
            Some(Single { fp, accepted: v.accepted() })
        })
        .collect()
}

fn run_pairs(case: &Case, muts: &[Mutator<Case>], singles: &[Option<Single>], book: &Book, found: &Findings) {
    let mut work = vec![];
    for i in 0..muts.len() {
        for j in i + 1..muts.len() {
            if !muts[i].conflicts(&muts[j]) {
                work.push((i, j));
            }
        }
    }
    work.par_iter().for_each(|(i, j)| {
        let mut c = case.clone();
        apply(&muts[*i], &mut c);
        apply(&muts[*j], &mut c);
        let b = build(&c);
        match rulemodel::assess(&b) {
            Some(a) if !a.table.is_empty() => {}
            _ => {
                book.count("pairs_not_violating_a_table_rule_skipped", 1);
                return;
            }
        }
        let v = exec::run(&b);
        book.eval(&b, &v);
        book.count("pairs_evaluated", 1);
        match &v {
            Verdict::Rejected(_) => book.count("pairs_rejected", 1),
            Verdict::Accepted => {
                book.count("pairs_accepted", 1);
                // a pair that contains a mutator already accepted alone is a witness of that defect
                let fp = [i, j].iter().filter_map(|k| singles[**k].as_ref()).find(|s| s.accepted).map(|s| s.fp.clone()).unwrap_or_else(|| format!("c38:pair:{}+{}:{}", muts[*i].rule, muts[*j].rule, case.era.group()));
                found.add(fp, 2, format!("{} validator accepted a transaction that violates the rules \"{}\" and \"{}\"", case.era.group(), muts[*i].rule, muts[*j].rule), &b, &v);
            }
            Verdict::Panicked(_) => book.count("pairs_panicked", 1),
            _ => book.count("pairs_undecodable", 1),
        }
    });
}

// ------------------------------------------------------------------ table vs code

/// Reads the era validators of the current tree and compares the `check_*`
/// calls of each `validate_*_tx` with what Appendix B assumes. Differences
/// are reported, they never change the verdict: the table stays the
/// specification.
fn table_vs_code() -> Value {
    let eras: [(&str, usize, &str, &[&str]); 5] = [
        ("byron", 0, "validate_byron_tx", &["check_ins_not_empty", "check_outs_not_empty", "check_ins_in_utxos", "check_outs_have_lovelace", "check_fees", "check_size", "check_witnesses"]),
        (
            "shelley_ma",
            1,
            "validate_shelley_ma_tx",
            &["check_ins_not_empty", "check_ins_in_utxos", "check_ttl", "check_tx_size", "check_min_lovelace", "check_certificates", "check_preservation_of_value", "check_fees", "check_network_id", "check_metadata", "check_witnesses", "check_minting"],
        ),
        (
            "alonzo",
            2,
            "validate_alonzo_tx",
            &[
                "check_ins_not_empty",
                "check_ins_and_collateral_in_utxos",
                "check_tx_validity_interval",
                "check_fee",
                "check_preservation_of_value",
                "check_min_lovelace",
                "check_output_val_size",
                "check_network_id",
                "check_tx_size",
                "check_tx_ex_units",
                "check_witness_set",
                "check_languages",
                "check_auxiliary_data",
                "check_script_data_hash",
                "check_minting",
            ],
        ),
        (
            "babbage",
            3,
            "validate_babbage_tx",
            &[
                "check_ins_not_empty",
                "check_all_ins_in_utxos",
                "check_tx_validity_interval",
                "check_fee",
                "check_preservation_of_value",
                "check_min_lovelace",
                "check_output_val_size",
                "check_network_id",
                "check_tx_size",
                "check_tx_ex_units",
                "check_minting",
                "check_well_formedness",
                "check_witness_set",
                "check_languages",
                "check_auxiliary_data",
                "check_script_data_hash",
            ],
        ),
        (
            "conway",
            4,
            "validate_conway_tx",
            &[
                "check_ins_not_empty",
                "check_all_ins_in_utxos",
                "check_tx_validity_interval",
                "check_fee",
                "check_preservation_of_value",
                "check_min_lovelace",
                "check_output_val_size",
                "check_network_id",
                "check_tx_size",
                "check_tx_ex_units",
                "check_minting",
                "check_well_formedness",
                "check_witness_set",
                "check_languages",
                "check_auxiliary_data",
                "check_script_data_hash",
            ],
        ),
    ];
    // which top-level call carries which rule of the table
    let carrier = |rule: &str, era: &str| -> &'static [&'static str] {
        match rule {
            "inputs-non-empty" => &["check_ins_not_empty"],
            "input-in-utxo" | "collateral-in-utxo" | "reference-input-in-utxo" => match era {
                "alonzo" => &["check_ins_and_collateral_in_utxos"],
                "babbage" | "conway" => &["check_all_ins_in_utxos"],
                _ => &["check_ins_in_utxos"],
            },
            "validity-upper-bound" | "validity-lower-bound" => {
                if era == "shelley_ma" {
                    &["check_ttl"]
                } else {
                    &["check_tx_validity_interval"]
                }
            }
            "min-ada-per-output" => {
                if era == "byron" {
                    &["check_outs_have_lovelace"]
                } else {
                    &["check_min_lovelace"]
                }
            }
            "output-value-size" => &["check_output_val_size"],
            "output-network-id" | "tx-network-id" => &["check_network_id"],
            "collateral-count" | "collateral-key-locked" | "collateral-ada-only-and-percentage" | "collateral-annotation" => &["check_fee"],
            "minting-policy-witness" => &["check_minting"],
            "script-witness-for-input" => {
                if era == "shelley_ma" {
                    &["check_witnesses"]
                } else {
                    &["check_witness_set"]
                }
            }
            "datum-witness" | "redeemer-coverage" => &["check_witness_set"],
            "aux-data-hash" => {
                if era == "shelley_ma" {
                    &["check_metadata"]
                } else {
                    &["check_auxiliary_data"]
                }
            }
            "script-integrity-hash" => &["check_script_data_hash"],
            "language-available" => &["check_languages"],
            _ => &[],
        }
    };
    let mut diffs: Vec<String> = vec![];
    let mut per_era = vec![];
    for (era, col, entry, expected) in eras {
        let path = format!("/repo/pallas-validate/src/phase1/{era}.rs");
        let Ok(src) = std::fs::read_to_string(&path) else {
            diffs.push(format!("{era}: {path} not readable, not compared"));
            continue;
        };
        let body_of = |name: &str| -> Option<String> {
            let at = src.find(&format!("fn {name}("))?;
            let open = at + src[at..].find('{')?;
            let close = open + src[open..].find("\n}\n")?;
            Some(src[open + 1..close].to_string())
        };
        let Some(body) = body_of(entry) else {
            diffs.push(format!("{era}: {entry} not found"));
            continue;
        };
        let mut calls: Vec<String> = vec![];
        let mut rest = body.as_str();
        while let Some(p) = rest.find("check_") {
            let name: String = rest[p..].chars().take_while(|c| c.is_alphanumeric() || *c == '_').collect();
            if rest[p + name.len()..].starts_with('(') && !calls.contains(&name) {
                calls.push(name.clone());
            }
            rest = &rest[p + name.len()..];
        }
        let noop = |name: &str| body_of(name).map(|b| b.trim() == "Ok(())").unwrap_or(false);
        for e in expected.iter() {
            if !calls.iter().any(|c| c == e) {
                diffs.push(format!("{era}: {entry} no longer calls {e} (Appendix B was written with it)"));
            }
        }
        for c in &calls {
            if !expected.contains(&c.as_str()) {
                diffs.push(format!("{era}: {entry} calls {c}, which Appendix B does not know"));
            }
        }
        for r in rulemodel::TABLE {
            for f in carrier(r.id, era) {
                let live = calls.iter().any(|c| c == f) && !noop(f);
                if r.cols[col] && !live {
                    diffs.push(format!("{era}: the table demands \"{}\" but {f} is {}", r.id, if noop(f) { "an explicit no-op" } else { "not called" }));
                }
                if !r.cols[col] && r.id == "language-available" && live {
                    diffs.push(format!("{era}: the table has no \"{}\" but {f} is called and is not a no-op", r.id));
                }
            }
        }
        per_era.push(json!({"validator": era, "entry": entry, "calls": calls, "explicit_noops": calls.iter().filter(|c| noop(c)).collect::<Vec<_>>()}));
    }
    json!({"validators": per_era, "differences": diffs})
}

// ------------------------------------------------------------------ run

pub fn run(ctx: Ctx) -> ! {
    print_statement(&ctx);
    replay_if_asked(&ctx);
    crate::quiet::silence_stderr();
    let found = Findings::default();
    let book = Book::default();
    let variant_wits = if ctx.thorough { 3 } else { 2 };
    let mut base_report: Vec<Value> = vec![];
    let mut probes: Vec<Value> = vec![];

    // ---- post-Byron bases
    let mut all: Vec<(Case, bool)> = bases::bases().into_iter().map(|c| (c, true)).collect();
    for era in POST_BYRON {
        // B4..B6 are valid transactions (clean in the rule model). Whether the
        // validator accepts them is a probe of its own: they are bases where it
        // does; a rejection is a false rejection, reported as a diagnostic
        all.push((b4(era), false));
        if era.multiasset() {
            all.push((b6(era), false));
        }
        all.push((b5(era, false), false));
        all.push((b5(era, true), false));
    }
    for (case, must_accept) in &all {
        let built = build(case);
        let v0 = exec::run(&built);
        book.eval(&built, &v0);
        let a0 = rulemodel::assess(&built).unwrap_or_else(|| crate::fail(&format!("the model cannot read base {}", built.label)));
        if !a0.clean() {
            crate::fail(&format!("base {} is not clean in the rule model: {}", built.label, a0.show()));
        }
        if !*must_accept {
            probes.push(json!({"case": built.label, "natives": case.tx.wits.native.as_ref().map(|n| n.len()), "model": "valid (violates no rule)", "verdict": v0.class(), "tx": hex::encode(&built.tx)}));
        }
        if !v0.accepted() {
            if *must_accept {
                crate::fail(&format!("base {} is not accepted on the current tree: {v0:?}; artefact {}", built.label, built.to_json()));
            }
            base_report.push(json!({"base": built.label, "accepted": false, "verdict": v0.class()}));
            continue;
        }
        let muts = mutators(case);
        let singles = run_singles(case, &built, &muts, true, 1, &book, &found);
        run_pairs(case, &muts, &singles, &book, &found);
        // every accepted single deviation (thorough: and pair of deviations of different
        // dimensions) of the base is an accepted transaction too
        let ds = devs::deviations(case, variant_wits);
        let mut work: Vec<(usize, Option<usize>)> = (0..ds.len()).map(|i| (i, None)).collect();
        if ctx.thorough {
            for i in 0..ds.len() {
                for j in i + 1..ds.len() {
                    if ds[i].size <= 1 && ds[j].size <= 1 && ds[i].dim != ds[j].dim {
                        work.push((i, Some(j)));
                    }
                }
            }
        }
        let used: u64 = work
            .par_iter()
            .map(|(i, j)| {
                let mut c = case.clone();
                ds[*i].apply(&mut c);
                if let Some(j) = j {
                    ds[*j].apply(&mut c);
                }
                let b = build(&c);
                if !exec::run(&b).accepted() {
                    return 0;
                }
                match rulemodel::assess(&b) {
                    Some(a) if a.clean() => {}
                    _ => {
                        book.count("accepted_deviations_not_clean_in_the_model_skipped", 1);
                        return 0;
                    }
                }
                let m2 = mutators(&c);
                run_singles(&c, &b, &m2, false, if j.is_some() { 3 } else { 2 }, &book, &found);
                1
            })
            .sum();
        base_report.push(json!({"base": built.label, "accepted": true, "mutators": muts.len(), "rules": muts.iter().map(|m| m.rule).collect::<BTreeSet<_>>().len(), "deviations": ds.len(), "deviated_cases_tried": work.len(), "accepted_clean_deviated_cases_used_as_bases": used}));
    }

    // ---- Byron
    for case in byron::bases() {
        let built = byron::build(&case);
        let v0 = exec::run(&built);
        book.eval(&built, &v0);
        if !v0.accepted() {
            crate::fail(&format!("base {} is not accepted on the current tree: {v0:?}", built.label));
        }
        let a0 = rulemodel::assess(&built).unwrap_or_else(|| crate::fail(&format!("the model cannot read base {}", built.label)));
        if !a0.clean() {
            crate::fail(&format!("base {} is not clean in the rule model: {}", built.label, a0.show()));
        }
        let cix = case.outputs.iter().position(|o| matches!(o.1, BCoin::Change(_)));
        let f0 = rulemodel::fields(&built, cix).unwrap_or_else(|| crate::fail("byron fields"));
        let muts = byron_mutators(&case);
        let mut accepted_alone: Vec<bool> = vec![];
        for m in &muts {
            let mut c = case.clone();
            apply_byron(m, &mut c);
            let b = byron::build(&c);
            let a = rulemodel::assess(&b).unwrap_or_else(|| crate::fail(&format!("the model cannot read {}", b.label)));
            if !only_target(&a, m.rule, &m.also, &m.also_other) {
                crate::fail(&format!("mutator {:?} (rule {}) on {} is not a single-rule mutator: {}", m.name, m.rule, built.label, a.show()));
            }
            let f1 = rulemodel::fields(&b, cix).unwrap_or_else(|| crate::fail("byron fields"));
            let d = rulemodel::diff(&f0, &f1);
            let want: BTreeSet<String> = m.touches.iter().map(|s| s.to_string()).collect();
            if d != want {
                crate::fail(&format!("mutator {:?} on {} changed fields {:?}, it claims {:?}", m.name, built.label, d, want));
            }
            let v = exec::run(&b);
            book.eval(&b, &v);
            book.cell(m.rule, Era::Byron, &m.name, &case.base, &b, &v);
            accepted_alone.push(v.accepted());
            if v.accepted() {
                found.add(m.fingerprint("byron"), 1, format!("byron validator accepted a transaction that violates only the rule \"{}\" ({})", m.rule, m.name), &b, &v);
            }
        }
        for i in 0..muts.len() {
            for j in i + 1..muts.len() {
                if muts[i].conflicts(&muts[j]) {
                    continue;
                }
                let mut c = case.clone();
                apply_byron(&muts[i], &mut c);
                apply_byron(&muts[j], &mut c);
                let b = byron::build(&c);
                let v = exec::run(&b);
                book.eval(&b, &v);
                book.count("pairs_evaluated", 1);
                if v.accepted() {
                    book.count("pairs_accepted", 1);
                    let fp = if accepted_alone[i] {
                        muts[i].fingerprint("byron")
                    } else if accepted_alone[j] {
                        muts[j].fingerprint("byron")
                    } else {
                        format!("c38:pair:{}+{}:byron", muts[i].rule, muts[j].rule)
                    };
                    found.add(fp, 2, format!("byron validator accepted a transaction that violates the rules \"{}\" and \"{}\"", muts[i].rule, muts[j].rule), &b, &v);
                } else if matches!(v, Verdict::Rejected(_)) {
                    book.count("pairs_rejected", 1);
                }
            }
        }
        base_report.push(json!({"base": built.label, "accepted": true, "mutators": muts.len()}));
    }
    // ---- the collateral rules on a spend whose Plutus script is a REFERENCE script
    // (base B3ref). The rule model does not know reference scripts, so this family is
    // judged directly: B3ref is accepted, it runs a Plutus script (it carries redeemers
    // for two script-locked inputs), and each mutator below breaks exactly one collateral
    // rule of such a transaction (the same mutators the table uses on B3).
    let mut refscript_report: Vec<Value> = vec![];
    for era in [Era::Babbage, Era::Conway] {
        let base = bases::b3ref(era);
        let b0 = build(&base);
        let v0 = crate::exec::run(&b0);
        if !v0.accepted() {
            crate::fail(&format!("C38: base {} is not accepted on the current tree: {v0:?}", b0.label));
        }
        type Mutation = Box<dyn Fn(&mut Case)>;
        let muts: Vec<(&str, &str, Mutation)> = vec![
            ("collateral=none", "collateral-count", Box::new(|c: &mut Case| c.tx.collateral = None)),
            ("collateral=[]", "collateral-count", Box::new(|c: &mut Case| c.tx.collateral = Some(vec![]))),
            ("collateral=[T0#0,T0#1,T1#0,T1#1] (max 3)", "collateral-count", Box::new(|c: &mut Case| c.tx.collateral = Some(vec![U00, U01, U10, U11]))),
            ("collateral=[missing]", "collateral-in-utxo", Box::new(|c: &mut Case| c.tx.collateral = Some(vec![MISSING]))),
            ("collateral=[T1#0] (script-locked)", "collateral-key-locked", Box::new(|c: &mut Case| c.tx.collateral = Some(vec![U10]))),
            ("utxo[T0#1].coin=1 (below 150% of the fee)", "collateral-ada-only-and-percentage", Box::new(|c: &mut Case| {
                if let Some(u) = c.env.get_mut(&U01) {
                    u.out.coin = Coin::Fixed(1)
                }
            })),
            ("total_collateral=1", "collateral-annotation", Box::new(|c: &mut Case| c.tx.total_collateral = Some(TotalCollateral::Exact(1)))),
        ];
        let mut accepted = 0u64;
        for (name, rule, f) in &muts {
            let mut c = base.clone();
            f(&mut c);
            c.devs.push(format!("[{name}]"));
            let b = build(&c);
            let v = crate::exec::run(&b);
            if v.accepted() {
                accepted += 1;
                found.add(
                    format!("c38:{rule}:{}:reference-script", era.group()),
                    1,
                    format!("{} validator accepted a reference-script spend that violates only the rule \"{}\" ({name})", era.group(), rulemodel::row(rule).map(|r| r.text).unwrap_or(rule)),
                    &b,
                    &v,
                );
            }
        }
        refscript_report.push(json!({"base": b0.label, "accepted": true, "mutators": muts.len(), "mutants_accepted": accepted}));
    }
    crate::quiet::restore_stderr();

    // ---- vacuity: every cell of the table was exercised on an accepted base
    let cells = book.cells.lock().unwrap().clone();
    let mut cell_report = vec![];
    let mut nontrivial_cells = 0u64;
    for r in rulemodel::TABLE {
        for era in explore::ALL_ERAS {
            if !rulemodel::applicable(r.id, era) {
                continue;
            }
            let c = cells.get(&(r.id.to_string(), era.name().to_string())).cloned().unwrap_or_default();
            if c.evaluated == 0 {
                crate::fail(&format!("C38 vacuous: cell (rule \"{}\", era {}) of the table was not exercised on any accepted base ({} undecodable mutants)", r.id, era.name(), c.undecodable));
            }
            nontrivial_cells += 1;
            cell_report.push(json!({
                "rule": r.id, "era": era.name(), "mutators": c.mutators, "bases": c.bases, "evaluated": c.evaluated,
                "rejected": c.rejected, "accepted": c.accepted, "panicked": c.panicked, "undecodable": c.undecodable, "error_classes": c.classes,
            }));
        }
    }

    // ---- diagnostics
    // minimum ada: the ledger's formula against the validator's reading of it
    // (ada-only output 0 of B1); stronger than the statement, never a verdict
    let mut min_ada_probe: Vec<Value> = vec![];
    crate::quiet::silence_stderr();
    for era in [Era::Alonzo, Era::Babbage, Era::Conway] {
        let mut c = bases::b1(era);
        let n = crate::params::numbers(era);
        let o = c.tx.outputs[0].clone();
        let impl_min = devs::min_lovelace(era, &o);
        let (ledger_min, formula) = if era == Era::Alonzo {
            (n.ada_per_utxo_byte * (27 + 2), "coinsPerUTxOWord * (utxoEntrySizeWithoutVal 27 + size of an ada-only value 2)")
        } else {
            (n.ada_per_utxo_byte * (160 + o.node(o.fixed()).to_vec().len() as u64), "coinsPerUTxOByte * (160 + serialized size of the output)")
        };
        if ledger_min > impl_min {
            c.tx.outputs[0].coin = Coin::Fixed(ledger_min - 1);
            c.devs.push("out0.coin=ledger minimum-1".into());
            let b = build(&c);
            let v = exec::run(&b);
            book.eval(&b, &v);
            min_ada_probe.push(json!({"era": era.name(), "validator_minimum": impl_min, "ledger_minimum": ledger_min, "ledger_formula": formula, "out0_coin": ledger_min - 1, "verdict": v.class(), "tx": hex::encode(&b.tx)}));
            if v.accepted() {
                ctx.note(format!(
                    "diagnostic (stronger than the statement, not a verdict): {} accepts an ada-only output of {} lovelace; the ledger's minimum ({formula}) is {ledger_min}, the validator computes {impl_min} from the value size in words",
                    era.name(),
                    ledger_min - 1
                ));
            }
        }
    }
    crate::quiet::restore_stderr();
    let tvc = table_vs_code();
    for d in tvc.get("differences").and_then(|d| d.as_array()).cloned().unwrap_or_default() {
        ctx.note(format!("table vs code: {}", d.as_str().unwrap_or("")));
    }
    let rejected_probes: Vec<String> = probes.iter().filter(|p| p["verdict"] != "Ok").map(|p| format!("{} -> {}", p["case"].as_str().unwrap_or(""), p["verdict"].as_str().unwrap_or(""))).collect();
    if !rejected_probes.is_empty() {
        ctx.note(format!(
            "diagnostic (false rejections, outside the statement of C38): valid transactions that spend native-script-locked inputs (B4: one; B5/B5s: two inputs locked by two different native scripts, both in the witness set, in either order; B6: one plus a native-policy mint) are rejected: {}",
            rejected_probes.join("; ")
        ));
    }

    found.flush(&ctx);
    let evaluations = *book.evaluations.lock().unwrap();
    let distinct = book.distinct.lock().unwrap().len();
    let classes: BTreeSet<String> = cells.values().flat_map(|c| c.classes.keys().cloned()).collect();
    let mut cov = mc_core::cov! {
        "evaluations" => evaluations,
        "distinct_nontrivial" => distinct,
        "rule" => format!(
            "TxLab bases B1..B6 of Shelley, Allegra, Mary, Alonzo, Babbage, Conway and the two Byron bases; every rule mutator of DESIGN.md Appendix B that applies (validated: exact field diff + independent rule model says only the targeted rule is false), alone and in every pair of different dimensions, and alone on every accepted, model-clean {} of the base (witness lists of length <= {variant_wits}); non-trivial = decoded by pallas-traverse, distinct by Blake2b of (tx, UTxO, environment)",
            if ctx.thorough { "single deviation and pair of deviations of different dimensions" } else { "single deviation" }
        ),
        "exhaustive" => true,
        "table_cells_exercised" => nontrivial_cells,
        "distinct_outcomes" => classes.len(),
        "outcome_classes" => classes,
        "cells" => cell_report,
        "bases" => base_report,
        "reference_script_collateral_family" => refscript_report,
        "counters" => *book.counters.lock().unwrap(),
        "valid_native_script_transactions_probe" => probes,
        "min_ada_ledger_formula_probe" => min_ada_probe,
        "table_vs_code" => tvc,
        "samples" => book.samples.lock().unwrap().values().cloned().collect::<Vec<_>>()
    };
    cov.insert("findings".into(), json!(found.summary()));
    ctx.finish(
        Level::Exploration,
        cov,
        &[
            "the rule x era table of DESIGN.md Appendix B is the specification of which rules each validator implements",
            "minimum ada per output: the mutators use the formula the era's validator documents (value size in 8-byte words); an output between that and the ledger's formula is not judged",
            "collateral rules are demanded of transactions that carry Plutus scripts only",
            "a panic of the validator is counted per cell, its verdict belongs to C33",
        ],
    )
}
