//! Accepted base transactions per era and the UTxO alphabet they live in.
//!
//! UTxO alphabet (2 tx ids x 2 indices), present in every environment:
//!   T0#0  K0 enterprise address, 10 ADA (+ 10 of asset P.A in B2)
//!   T0#1  K1 base address (stake K2), 5 ADA              — 2nd input of B1, collateral of B3
//!   T1#0  script-locked, 3 ADA: native script `sig K0` (B1, B2) / dummy Plutus script + datum hash (B3)
//!   T1#1  B1, B2: K0 enterprise, 7 ADA (+ 4 of P.A from Mary on); B3: a second Plutus-locked entry
//!   T2#0  never present ("missing from UTxO")
//!
//! B1 payment; B2 multi-asset payment with a native-policy mint (Mary+); B3
//! spend of two Plutus-locked entries with collateral, redeemers, datum and
//! script-integrity hash (Alonzo+); B3m = B3 with map-form redeemers (Conway);
//! B3v2 = B3 locked by a PlutusV2 script at a slot of the PlutusV2 epochs (Babbage).

use crate::txlab::*;

pub const U00: InRef = InRef::new(0, 0);
pub const U01: InRef = InRef::new(0, 1);
pub const U10: InRef = InRef::new(1, 0);
pub const U11: InRef = InRef::new(1, 1);
pub const MISSING: InRef = InRef::new(2, 0);

pub fn policy() -> PolicyId {
    native_policy().hash()
}

pub fn datum() -> Data {
    Data::Int(42)
}

pub fn plutus_addr() -> Addr {
    Addr::script(plutus_hash(1, &plutus_script()))
}

fn env(era: Era, plutus: bool, assets: bool) -> EnvSpec {
    let mut e = EnvSpec::new(era);
    let mut u00 = Out::new(era, Addr::key(0), 10_000_000);
    if assets {
        u00 = u00.with_asset(policy(), asset_a(), 10);
    }
    let u01 = Out::new(era, Addr::base(1, 2), 5_000_000);
    let (u10, u11) = if plutus {
        (Out::new(era, plutus_addr(), 3_000_000).with_datum(Datum::Hash(datum())), Out::new(era, plutus_addr(), 3_000_000).with_datum(Datum::Hash(datum())))
    } else {
        let mut u11 = Out::new(era, Addr::key(0), 7_000_000);
        if era.multiasset() {
            u11 = u11.with_asset(policy(), asset_a(), 4);
        }
        (Out::new(era, Addr::script(native_lock().hash()), 3_000_000), u11)
    };
    e.utxo = vec![Utxo { at: U00, out: u00, era: None }, Utxo { at: U01, out: u01, era: None }, Utxo { at: U10, out: u10, era: None }, Utxo { at: U11, out: u11, era: None }];
    e
}

pub fn b1(era: Era) -> Case {
    let env = env(era, false, false);
    let mut tx = TxSpec::empty();
    tx.inputs = vec![U00, U01];
    tx.outputs = vec![Out::new(era, Addr::key(2), 2_000_000), Out::change(era, Addr::key(0))];
    tx.ttl = Some(env.slot + 100);
    tx.wits.vkeys = Some(vec![VkWit::Valid(0), VkWit::Valid(1)]);
    Case { era, base: "B1-payment".into(), devs: vec![], tx, env }
}

pub fn b2(era: Era) -> Case {
    let env = env(era, false, true);
    let mut tx = TxSpec::empty();
    tx.inputs = vec![U00];
    tx.outputs = vec![Out::new(era, Addr::key(2), 2_000_000).with_asset(policy(), asset_a(), 15), Out::change(era, Addr::key(0))];
    tx.mint = Some(vec![(policy(), vec![(asset_a(), 5)])]);
    tx.ttl = Some(env.slot + 100);
    tx.wits.vkeys = Some(vec![VkWit::Valid(0), VkWit::Valid(1)]);
    tx.wits.native = Some(vec![native_policy()]);
    Case { era, base: "B2-mint".into(), devs: vec![], tx, env }
}

pub fn b3(era: Era) -> Case {
    let env = env(era, true, false);
    let mut tx = TxSpec::empty();
    tx.inputs = vec![U00, U10, U11];
    tx.outputs = vec![Out::new(era, Addr::key(2), 2_000_000), Out::change(era, Addr::key(0))];
    tx.ttl = Some(env.slot + 100);
    tx.collateral = Some(vec![U01]);
    tx.script_data_hash = HashSpec::Right;
    tx.wits.vkeys = Some(vec![VkWit::Valid(0), VkWit::Valid(1)]);
    tx.wits.plutus_v1 = Some(vec![plutus_script()]);
    tx.wits.datums = Some(vec![datum()]);
    // the Alonzo validator re-encodes the datum list as an indefinite array
    tx.wits.datums_indef = era == Era::Alonzo;
    tx.wits.redeemers = Some(vec![
        Redeemer { tag: 0, index: 1, data: Data::Int(1), mem: 1000, steps: 10_000 },
        Redeemer { tag: 0, index: 2, data: Data::Int(2), mem: 2000, steps: 20_000 },
    ]);
    Case { era, base: "B3-plutus".into(), devs: vec![], tx, env }
}

pub fn plutus_v2_addr() -> Addr {
    Addr::script(plutus_hash(2, &plutus_script()))
}

/// B3v2: the B3 spend with the inputs locked by a Plutus**V2** script and no V1 script in
/// the witness set, at a mainnet slot of the PlutusV2 epochs (the Babbage validator takes
/// languages and language views from network and slot; the Conway parameters carry the
/// PlutusV2 cost model from that slot on, `params::multi_era_at`).
pub fn b3v2(era: Era) -> Case {
    let mut c = b3(era);
    c.base = "B3v2-plutus-v2".into();
    c.env.slot = 90_000_000;
    c.tx.ttl = Some(c.env.slot + 100);
    for u in c.env.utxo.iter_mut() {
        if u.at == U10 || u.at == U11 {
            u.out = Out::new(era, plutus_v2_addr(), 3_000_000).with_datum(Datum::Hash(datum()));
        }
    }
    c.tx.wits.plutus_v1 = None;
    c.tx.wits.plutus_v2 = Some(vec![plutus_script()]);
    c
}

pub const REFSCRIPT: InRef = InRef::new(1, 2);

/// B3ref: the B3v2 spend with the PlutusV2 script supplied by a reference input
/// (`script_ref` of UTxO entry T1#2) instead of the witness set. Used by C37 only (the
/// rule model of C38 does not know reference scripts).
pub fn b3ref(era: Era) -> Case {
    let mut c = b3v2(era);
    c.base = "B3ref-plutus-v2-reference-script".into();
    c.tx.wits.plutus_v2 = None;
    c.env.utxo.push(Utxo { at: REFSCRIPT, out: Out::new(era, Addr::key(2), 20_000_000).with_script_ref(2, plutus_script()), era: None });
    c.tx.reference_inputs = Some(vec![REFSCRIPT]);
    c
}

/// The reference-script bases every sweep explores next to `bases()`: B3ref of Babbage and
/// Conway, and the Conway one with map-form redeemers.
pub fn reference_script_bases() -> Vec<Case> {
    let mut m = b3ref(Era::Conway);
    m.base = "B3refm-plutus-v2-reference-script-map-redeemers".into();
    m.tx.wits.redeemers_map = true;
    vec![b3ref(Era::Babbage), b3ref(Era::Conway), m]
}

/// All post-Byron bases.
pub fn bases() -> Vec<Case> {
    let mut v = vec![];
    for era in POST_BYRON {
        v.push(b1(era));
        if era.multiasset() {
            v.push(b2(era));
        }
        if era.plutus() {
            v.push(b3(era));
        }
        if era == Era::Babbage || era == Era::Conway {
            v.push(b3v2(era));
        }
        if era == Era::Conway {
            // the same spend with the Conway map encoding of the redeemers
            let mut m = b3(era);
            m.base = "B3m-plutus-map-redeemers".into();
            m.tx.wits.redeemers_map = true;
            v.push(m);
        }
    }
    v
}
