//! The shared exploration: every base, every single deviation and every pair
//! of deviations of different dimensions (deviation bound 2), each built,
//! decoded by pallas-traverse and given to the real `validate_tx`.

use crate::bases;
use crate::byron;
use crate::devs::{self, Dev, Labeled};
use crate::exec::{self, Verdict};
use crate::txlab::{self, Built, Era};
use mc_core::blake2b::blake2b;
use mc_core::{json, Value};
use rayon::prelude::*;
use std::collections::{BTreeMap, HashSet};

#[derive(Clone, Copy, Debug)]
pub struct Bounds {
    /// witness lists up to this length as single deviations
    pub wits_single: usize,
    /// witness lists up to this length inside pairs
    pub wits_pair: usize,
    /// explore pairs at all
    pub pairs: bool,
}

impl Bounds {
    pub fn describe(&self) -> String {
        format!("witness lists of length <= {} as single deviations and <= {} inside pairs", self.wits_single, self.wits_pair)
    }
    pub fn tier(thorough: bool) -> Bounds {
        if thorough {
            Bounds { wits_single: 4, wits_pair: 3, pairs: true }
        } else {
            Bounds { wits_single: 3, wits_pair: 2, pairs: true }
        }
    }
}

#[derive(Default)]
pub struct Summary {
    pub evaluations: u64,
    pub decodable: u64,
    pub distinct: HashSet<[u8; 16]>,
    pub accepted_by_era: BTreeMap<String, u64>,
    pub evaluated_by_era: BTreeMap<String, u64>,
    pub classes: BTreeMap<String, u64>,
    pub per_base: Vec<Value>,
    pub samples: Vec<Value>,
}

impl Summary {
    fn merge(mut self, o: Summary) -> Summary {
        self.evaluations += o.evaluations;
        self.decodable += o.decodable;
        self.distinct.extend(o.distinct);
        for (k, v) in o.accepted_by_era {
            *self.accepted_by_era.entry(k).or_default() += v;
        }
        for (k, v) in o.evaluated_by_era {
            *self.evaluated_by_era.entry(k).or_default() += v;
        }
        for (k, v) in o.classes {
            *self.classes.entry(k).or_default() += v;
        }
        self.per_base.extend(o.per_base);
        self.samples.extend(o.samples);
        self
    }
    pub fn merge_pub(self, o: Summary) -> Summary {
        self.merge(o)
    }
    pub fn accepted(&self, era: Era) -> u64 {
        self.accepted_by_era.get(era.name()).copied().unwrap_or(0)
    }
    pub fn coverage(&self, rule: &str) -> mc_core::serde_json::Map<String, Value> {
        mc_core::cov! {
            "evaluations" => self.evaluations,
            "distinct_nontrivial" => self.distinct.len(),
            "rule" => rule,
            "decodable" => self.decodable,
            "accepted_by_era" => self.accepted_by_era,
            "evaluated_by_era" => self.evaluated_by_era,
            "outcome_classes" => self.classes,
            "distinct_outcomes" => self.classes.len(),
            "bases" => self.per_base,
            "samples" => self.samples,
            "exhaustive" => true
        }
    }
}

pub fn digest(b: &Built) -> [u8; 16] {
    let mut v = b.tx.clone();
    for u in &b.utxo {
        v.extend_from_slice(&u.tx_id);
        v.extend_from_slice(&u.ix.to_be_bytes());
        v.push(u.era as u8);
        v.extend_from_slice(&u.bytes);
    }
    v.extend_from_slice(&b.max_tx_size.to_be_bytes());
    v.extend_from_slice(&b.slot.to_be_bytes());
    v.extend_from_slice(&b.magic.to_be_bytes());
    v.push(b.network_id);
    v.push(b.params_era as u8);
    v.push(b.account_state as u8);
    blake2b(16, &v).try_into().unwrap()
}

pub type Visit<'a> = &'a (dyn Fn(&Built, &Verdict, usize) + Sync);

fn record(acc: &mut Summary, b: &Built, v: &Verdict) {
    acc.evaluations += 1;
    *acc.evaluated_by_era.entry(b.era.name().into()).or_default() += 1;
    *acc.classes.entry(format!("{}:{}", b.era.group(), v.class())).or_default() += 1;
    if !matches!(v, Verdict::Undecodable(_) | Verdict::DecodePanicked(_)) {
        acc.decodable += 1;
        acc.distinct.insert(digest(b));
    }
    if v.accepted() {
        *acc.accepted_by_era.entry(b.era.name().into()).or_default() += 1;
    }
}

/// Explore one base with its deviations. The base must be accepted.
pub fn explore_base<C: Clone + Labeled + Sync + Send>(base: &C, label: &str, devs: &[Dev<C>], build: &(dyn Fn(&C) -> Built + Sync), bounds: Bounds, visit: Visit) -> Summary {
    let mut acc = Summary::default();
    let b0 = build(base);
    let v0 = exec::run(&b0);
    if !v0.accepted() {
        crate::fail(&format!("base {label} is not accepted on the current tree: {v0:?}; artefact {}", b0.to_json()));
    }
    record(&mut acc, &b0, &v0);
    visit(&b0, &v0, 0);
    acc.samples.push(json!({"case": b0.label, "verdict": v0.class(), "artefact": b0.to_json()}));
    // work list: singles, then pairs of different dimensions
    let mut work: Vec<(usize, Option<usize>)> = (0..devs.len()).filter(|i| devs[*i].size <= bounds.wits_single).map(|i| (i, None)).collect();
    let singles = work.len();
    if bounds.pairs {
        for i in 0..devs.len() {
            if devs[i].size > bounds.wits_pair {
                continue;
            }
            for j in i + 1..devs.len() {
                if devs[j].size > bounds.wits_pair || devs[i].dim == devs[j].dim {
                    continue;
                }
                work.push((i, Some(j)));
            }
        }
    }
    let pairs = work.len() - singles;
    let part = work
        .par_iter()
        .fold(Summary::default, |mut acc, (i, j)| {
            let mut c = base.clone();
            devs[*i].apply(&mut c);
            if let Some(j) = j {
                devs[*j].apply(&mut c);
            }
            let b = build(&c);
            let v = exec::run(&b);
            record(&mut acc, &b, &v);
            visit(&b, &v, if j.is_some() { 2 } else { 1 });
            acc
        })
        .reduce(Summary::default, Summary::merge);
    let accepted: u64 = part.accepted_by_era.values().sum();
    let mut acc = acc.merge(part);
    // one written-out deviated case per base
    if let Some(d) = devs.first() {
        let mut c = base.clone();
        d.apply(&mut c);
        let b = build(&c);
        let v = exec::run(&b);
        acc.samples.push(json!({"case": b.label, "verdict": v.class(), "tx": hex::encode(&b.tx)}));
    }
    acc.per_base.push(json!({"base": label, "deviations": devs.len(), "dimensions": devs.iter().map(|d| d.dim.clone()).collect::<std::collections::BTreeSet<_>>().len(), "singles": singles, "pairs": pairs, "accepted_deviated": accepted}));
    acc
}

/// The whole TxLab space of the given eras.
pub fn sweep(eras: &[Era], base_filter: &dyn Fn(&str) -> bool, bounds: Bounds, visit: Visit) -> Summary {
    let mut total = Summary::default();
    crate::quiet::silence_stderr();
    if eras.contains(&Era::Byron) {
        for base in byron::bases() {
            if !base_filter(&base.base) {
                continue;
            }
            let devs = byron::deviations(&base, bounds.wits_single);
            let s = explore_base(&base, &base.label(), &devs, &byron::build, bounds, visit);
            total = total.merge(s);
        }
    }
    // B3ref (reference-script spend) is explored by every sweep, but is not one of
    // `bases::bases()`: the C38 rule model does not know reference scripts
    for base in bases::bases().into_iter().chain(bases::reference_script_bases()) {
        if !eras.contains(&base.era) || !base_filter(&base.base) {
            continue;
        }
        let devs = devs::deviations(&base, bounds.wits_single);
        let s = explore_base(&base, &base.label(), &devs, &txlab::build, bounds, visit);
        total = total.merge(s);
    }
    crate::quiet::restore_stderr();
    total
}

pub const ALL_ERAS: [Era; 7] = [Era::Byron, Era::Shelley, Era::Allegra, Era::Mary, Era::Alonzo, Era::Babbage, Era::Conway];
