//! Independent model of the phase-1 rules of DESIGN.md Appendix B (rule x era
//! applicability), evaluated on the WIRE bytes of a built case with refcbor,
//! the harness' own Blake2b and ed25519-dalek — no pallas code.
//!
//! C38 uses it to validate its mutators: the base must violate nothing, the
//! mutated case must violate exactly the targeted rule (plus rules that
//! legitimately depend on it, which every mutator lists). The verdict of C38
//! itself never comes from this model, only from the real `validate_tx`.
//!
//! The rules are stated as the ledger / pallas-validate/docs state them. Where
//! the formula of a rule is a matter of reading (minimum ada per output) the
//! model uses the reading the era's validator documents, see [`impl_min_ada`].

use crate::keys;
use crate::params;
use crate::txlab::{self, Built, Era};
use crate::wire::{self, PayCred, TxView, ValueView};
use mc_core::blake2b::{blake2b_224, blake2b_256};
use mc_core::refcbor::{self, Kind, Node};
use num_bigint::BigInt;
use std::collections::{BTreeMap, BTreeSet};

/// `max_value_size` of every parameter set in params.rs.
pub const MAX_VALUE_SIZE: u64 = 5000;

pub struct Row {
    pub id: &'static str,
    pub text: &'static str,
    /// byron, shelley/allegra/mary, alonzo, babbage, conway
    pub cols: [bool; 5],
    /// in the shelley/allegra/mary column: Mary only
    pub mary_only: bool,
}

const T: bool = true;
const F: bool = false;

/// DESIGN.md Appendix B, as data.
pub const TABLE: &[Row] = &[
    Row { id: "inputs-non-empty", text: "inputs non-empty", cols: [T, T, T, T, T], mary_only: false },
    Row { id: "input-in-utxo", text: "every input in the UTxO", cols: [T, T, T, T, T], mary_only: false },
    Row { id: "collateral-in-utxo", text: "every collateral input in the UTxO", cols: [F, F, T, T, T], mary_only: false },
    Row { id: "reference-input-in-utxo", text: "every reference input in the UTxO", cols: [F, F, F, T, T], mary_only: false },
    Row { id: "validity-upper-bound", text: "validity interval: upper bound / TTL", cols: [F, T, T, T, T], mary_only: false },
    Row { id: "validity-lower-bound", text: "validity interval: lower bound", cols: [F, F, T, T, T], mary_only: false },
    Row { id: "min-ada-per-output", text: "minimum ada per output (Byron: non-zero)", cols: [T, T, T, T, T], mary_only: false },
    Row { id: "output-value-size", text: "output value size", cols: [F, F, T, T, T], mary_only: false },
    Row { id: "output-network-id", text: "output network id", cols: [F, T, T, T, T], mary_only: false },
    Row { id: "tx-network-id", text: "transaction-body network id", cols: [F, F, T, T, T], mary_only: false },
    Row { id: "collateral-count", text: "collateral present / count <= max", cols: [F, F, T, T, T], mary_only: false },
    Row { id: "collateral-key-locked", text: "collateral key-locked", cols: [F, F, T, T, T], mary_only: false },
    Row { id: "collateral-ada-only-and-percentage", text: "collateral ada-only and >= percentage of fee", cols: [F, F, T, T, T], mary_only: false },
    Row { id: "collateral-annotation", text: "collateral annotation (total_collateral)", cols: [F, F, F, T, T], mary_only: false },
    Row { id: "minting-policy-witness", text: "minting policy has a script witness", cols: [F, T, T, T, T], mary_only: true },
    Row { id: "script-witness-for-input", text: "script witness for every script-locked input", cols: [F, T, T, T, T], mary_only: false },
    Row { id: "datum-witness", text: "datum witness for every datum-hash input; no unneeded datum", cols: [F, F, T, T, T], mary_only: false },
    Row { id: "redeemer-coverage", text: "redeemer for every Plutus purpose; no unneeded redeemer", cols: [F, F, T, T, T], mary_only: false },
    Row { id: "aux-data-hash", text: "auxiliary-data hash matches / present iff data present", cols: [F, T, T, T, T], mary_only: false },
    Row { id: "script-integrity-hash", text: "script-integrity hash matches", cols: [F, F, T, T, T], mary_only: false },
    Row { id: "language-available", text: "script language available in the parameters", cols: [F, F, F, T, T], mary_only: false },
];

pub fn column(era: Era) -> usize {
    match era {
        Era::Byron => 0,
        Era::Shelley | Era::Allegra | Era::Mary => 1,
        Era::Alonzo => 2,
        Era::Babbage => 3,
        Era::Conway => 4,
    }
}

pub fn row(rule: &str) -> Option<&'static Row> {
    TABLE.iter().find(|r| r.id == rule)
}

/// Does the table demand `rule` of the validator of `era`?
pub fn applicable(rule: &str, era: Era) -> bool {
    match row(rule) {
        Some(r) => r.cols[column(era)] && !(r.mary_only && matches!(era, Era::Shelley | Era::Allegra)),
        None => false,
    }
}

#[derive(Clone, Debug, Default, PartialEq)]
pub struct Assessment {
    /// violated rules of the table (only rules applicable to the era)
    pub table: BTreeSet<&'static str>,
    /// violated rules outside the table: fee, tx-size, conservation, witness,
    /// native-script, ex-units, extraneous-script
    pub other: BTreeSet<&'static str>,
}

impl Assessment {
    pub fn clean(&self) -> bool {
        self.table.is_empty() && self.other.is_empty()
    }
    pub fn show(&self) -> String {
        format!("table rules violated {:?}, other rules violated {:?}", self.table, self.other)
    }
}

#[derive(Clone, Debug)]
pub struct OutFull {
    pub addr: Vec<u8>,
    pub value: ValueView,
    /// length of the serialized value
    pub value_len: u64,
    pub datum_hash: Option<Vec<u8>>,
    pub inline_datum: bool,
    pub byron: bool,
}

impl OutFull {
    pub fn pay_cred(&self) -> PayCred {
        wire::OutView { addr: self.addr.clone(), value: self.value.clone(), byron: self.byron }.pay_cred()
    }
}

pub fn out_full(n: &Node) -> Option<OutFull> {
    let v = wire::out_view(n)?;
    let (val, datum_hash, inline) = match &n.kind {
        Kind::Array(items, _) => (items.get(1)?, items.get(2).and_then(|d| d.as_bytes()), false),
        Kind::Map(_, _) => {
            let (mut h, mut i) = (None, false);
            if let Some(d) = n.map_get(2).and_then(|d| d.as_array()) {
                match d.first().and_then(|t| t.as_u64()) {
                    Some(0) => h = d.get(1).and_then(|x| x.as_bytes()),
                    Some(1) => i = true,
                    _ => {}
                }
            }
            (n.map_get(1)?, h, i)
        }
        _ => return None,
    };
    Some(OutFull { addr: v.addr, value: v.value, value_len: (val.end - val.start) as u64, datum_hash, inline_datum: inline, byron: false })
}

pub fn utxo_full(b: &Built, r: &([u8; 32], u64)) -> Option<OutFull> {
    let u = b.utxo.iter().find(|u| u.tx_id == r.0 && u.ix == r.1)?;
    if u.era == Era::Byron {
        let v = wire::utxo_out_view(true, &u.bytes)?;
        return Some(OutFull { addr: v.addr, value: v.value, value_len: 0, datum_hash: None, inline_datum: false, byron: true });
    }
    out_full(&refcbor::parse_one(&u.bytes).ok()?)
}

/// Minimum lovelace of an output as the validator of the era documents the
/// rule (pallas-validate/docs + the formula the code states): value size in
/// 8-byte words of the serialized value.
pub fn impl_min_ada(era: Era, o: &OutFull, multiasset_form: bool) -> u64 {
    let n = params::numbers(era);
    let words = o.value_len.div_ceil(8);
    match era {
        Era::Byron => 1,
        Era::Shelley | Era::Allegra | Era::Mary => {
            if multiasset_form {
                (27 + words) * (n.min_utxo_value / 27)
            } else {
                n.min_utxo_value
            }
        }
        Era::Alonzo => n.ada_per_utxo_byte * (words + if o.datum_hash.is_some() { 37 } else { 27 }),
        Era::Babbage | Era::Conway => n.ada_per_utxo_byte * (words + 160),
    }
}

fn input_list(body: &Node, key: u64) -> Option<Vec<([u8; 32], u64)>> {
    let n = body.map_get(key)?.untagged();
    let mut v = vec![];
    for i in n.as_array()? {
        let a = i.as_array()?;
        v.push((<[u8; 32]>::try_from(a.first()?.as_bytes()?).ok()?, a.get(1)?.as_u64()?));
    }
    Some(v)
}

fn script_list(wits: &Node, key: u64) -> Vec<&Node> {
    wits.map_get(key).map(|n| n.untagged()).and_then(|n| n.as_array()).map(|a| a.iter().collect()).unwrap_or_default()
}

fn add(v: &mut ValueView, o: &ValueView) {
    v.coin += &o.coin;
    for (k, q) in &o.assets {
        *v.assets.entry(k.clone()).or_default() += q;
    }
}

fn normal(v: &ValueView) -> (BigInt, BTreeMap<wire::AssetId, BigInt>) {
    (v.coin.clone(), v.assets.iter().filter(|(_, q)| **q != BigInt::from(0)).map(|(k, q)| (k.clone(), q.clone())).collect())
}

fn eval_native(n: &Node, keys: &BTreeSet<Vec<u8>>, start: Option<u64>, ttl: Option<u64>) -> Option<bool> {
    let a = n.as_array()?;
    let sub = |i: usize| -> Option<Vec<bool>> { a.get(i)?.as_array()?.iter().map(|s| eval_native(s, keys, start, ttl)).collect() };
    Some(match a.first()?.as_u64()? {
        0 => keys.contains(&a.get(1)?.as_bytes()?),
        1 => sub(1)?.iter().all(|x| *x),
        2 => sub(1)?.iter().any(|x| *x),
        3 => sub(2)?.iter().filter(|x| **x).count() as u64 >= a.get(1)?.as_u64()?,
        4 => start.map(|s| a.get(1).and_then(|x| x.as_u64()).map(|v| v <= s).unwrap_or(false)).unwrap_or(false),
        5 => ttl.map(|t| a.get(1).and_then(|x| x.as_u64()).map(|v| t <= v).unwrap_or(false)).unwrap_or(false),
        _ => return None,
    })
}

/// Evaluate every rule on a post-Byron case. `None`: the bytes are not a
/// transaction the model can read (then C38 does not use the case).
pub fn assess(b: &Built) -> Option<Assessment> {
    if b.era == Era::Byron {
        return assess_byron(b);
    }
    let era = b.era;
    let nums = params::numbers(era);
    let view = TxView::parse(&b.tx)?;
    let body = view.body();
    let wits = view.wits();
    let mut out = Assessment::default();
    let mut table = |rule: &'static str, violated: bool| {
        if violated && applicable(rule, era) {
            out.table.insert(rule);
        }
    };

    // ---- inputs
    let inputs = input_list(body, 0)?;
    let collateral = input_list(body, 13);
    let reference = input_list(body, 18);
    table("inputs-non-empty", inputs.is_empty());
    table("input-in-utxo", inputs.iter().any(|i| utxo_full(b, i).is_none()));
    table("collateral-in-utxo", collateral.as_ref().map(|c| c.iter().any(|i| utxo_full(b, i).is_none())).unwrap_or(false));
    table("reference-input-in-utxo", reference.as_ref().map(|c| c.iter().any(|i| utxo_full(b, i).is_none())).unwrap_or(false));

    // ---- validity interval
    let ttl = body.map_get(3).and_then(|n| n.as_u64());
    let start = body.map_get(8).and_then(|n| n.as_u64());
    table("validity-upper-bound", ttl.map(|t| t < b.slot).unwrap_or(false));
    table("validity-lower-bound", start.map(|s| b.slot < s).unwrap_or(false));

    // ---- outputs
    let out_nodes = body.map_get(1)?.as_array()?;
    let mut outs = vec![];
    for n in out_nodes {
        let multiasset_form = match &n.kind {
            Kind::Array(items, _) => items.get(1).map(|v| v.as_array().is_some()).unwrap_or(false),
            _ => n.map_get(1).map(|v| v.as_array().is_some()).unwrap_or(false),
        };
        outs.push((out_full(n)?, multiasset_form));
    }
    // the collateral return (Babbage+) is an output too: minimum ada, value size and
    // network id apply to it (babbage.md: "regular outputs and collateral return outputs")
    let mut sized_outs = outs.clone();
    if era >= Era::Babbage {
        if let Some(n) = body.map_get(16) {
            let multiasset_form = match &n.kind {
                Kind::Array(items, _) => items.get(1).map(|v| v.as_array().is_some()).unwrap_or(false),
                _ => n.map_get(1).map(|v| v.as_array().is_some()).unwrap_or(false),
            };
            sized_outs.push((out_full(n)?, multiasset_form));
        }
    }
    table("min-ada-per-output", sized_outs.iter().any(|(o, ma)| o.value.coin < BigInt::from(impl_min_ada(era, o, *ma))));
    table("output-value-size", sized_outs.iter().any(|(o, _)| o.value_len > MAX_VALUE_SIZE));
    table(
        "output-network-id",
        sized_outs.iter().any(|(o, _)| match o.addr.first() {
            Some(h) if h >> 4 <= 0b0111 => h & 0x0f != b.network_id,
            _ => false,
        }),
    );
    table("tx-network-id", body.map_get(15).and_then(|n| n.as_u64()).map(|n| n != b.network_id as u64).unwrap_or(false));

    // ---- scripts of the witness set
    let natives = script_list(wits, 1);
    let native_hashes: Vec<[u8; 28]> = natives
        .iter()
        .map(|n| {
            let mut p = vec![0u8];
            p.extend_from_slice(n.span(&b.tx));
            blake2b_224(&p)
        })
        .collect();
    let mut plutus_hashes: Vec<[u8; 28]> = vec![];
    let mut langs_used: Vec<u8> = vec![];
    for (key, tag, lang) in [(3u64, 1u8, 0u8), (6, 2, 1), (7, 3, 2)] {
        let l = script_list(wits, key);
        if !l.is_empty() {
            langs_used.push(lang);
        }
        for s in l {
            let mut p = vec![tag];
            p.extend_from_slice(&s.as_bytes()?);
            plutus_hashes.push(blake2b_224(&p));
        }
    }
    let has_plutus = !plutus_hashes.is_empty();
    let fee = view.fee()?;

    // ---- collateral (only demanded of transactions with Plutus scripts)
    if has_plutus {
        let coll = collateral.clone().unwrap_or_default();
        table("collateral-count", coll.is_empty() || coll.len() as u64 > nums.max_collateral_inputs);
        let present: Vec<OutFull> = coll.iter().filter_map(|i| utxo_full(b, i)).collect();
        table("collateral-key-locked", present.iter().any(|o| matches!(o.pay_cred(), PayCred::Script(_))));
        let mut bal = ValueView::default();
        for o in &present {
            add(&mut bal, &o.value);
        }
        if let Some(ret) = body.map_get(16).and_then(out_full) {
            bal.coin -= &ret.value.coin;
            for (k, q) in &ret.value.assets {
                *bal.assets.entry(k.clone()).or_default() -= q;
            }
        }
        let (coin, assets) = normal(&bal);
        if !coll.is_empty() {
            table("collateral-ada-only-and-percentage", !assets.is_empty() || &coin * 100 < &fee * nums.collateral_percentage);
            table("collateral-annotation", body.map_get(17).and_then(|n| n.as_u64()).map(|t| BigInt::from(t) != coin).unwrap_or(false));
        }
    }

    // ---- scripts needed
    let mint = view.mint()?;
    let policies: BTreeSet<Vec<u8>> = mint.keys().map(|(p, _)| p.clone()).collect();
    let policies_in_map: BTreeSet<Vec<u8>> = body.map_get(9).and_then(|m| m.as_map()).map(|m| m.iter().filter_map(|(p, _)| p.as_bytes()).collect()).unwrap_or_default();
    let policies: BTreeSet<Vec<u8>> = policies.union(&policies_in_map).cloned().collect();
    let all_hashes: BTreeSet<Vec<u8>> = native_hashes.iter().chain(plutus_hashes.iter()).map(|h| h.to_vec()).collect();
    table("minting-policy-witness", policies.iter().any(|p| !all_hashes.contains(p)));
    let spent: Vec<OutFull> = inputs.iter().filter_map(|i| utxo_full(b, i)).collect();
    let mut needed: BTreeSet<Vec<u8>> = policies.clone();
    let mut script_missing = false;
    for o in &spent {
        if let PayCred::Script(h) = o.pay_cred() {
            needed.insert(h.to_vec());
            if !all_hashes.contains(&h.to_vec()) {
                script_missing = true;
            }
        }
    }
    table("script-witness-for-input", script_missing);
    if all_hashes.iter().any(|h| !needed.contains(h)) {
        out.other.insert("extraneous-script");
    }

    // ---- datums
    let datum_nodes = script_list(wits, 4);
    let provided_datums: BTreeSet<Vec<u8>> = datum_nodes.iter().map(|d| blake2b_256(d.span(&b.tx)).to_vec()).collect();
    let plutus_set: BTreeSet<Vec<u8>> = plutus_hashes.iter().map(|h| h.to_vec()).collect();
    let mut required_datums: BTreeSet<Vec<u8>> = BTreeSet::new();
    for o in &spent {
        if let PayCred::Script(h) = o.pay_cred() {
            if plutus_set.contains(&h.to_vec()) {
                if let Some(d) = &o.datum_hash {
                    required_datums.insert(d.clone());
                }
            }
        }
    }
    let mut allowed_datums = required_datums.clone();
    for (o, _) in &outs {
        if let Some(d) = &o.datum_hash {
            allowed_datums.insert(d.clone());
        }
    }
    if let Some(d) = body.map_get(16).and_then(out_full).and_then(|o| o.datum_hash) {
        allowed_datums.insert(d);
    }
    for r in reference.clone().unwrap_or_default() {
        if let Some(d) = utxo_full(b, &r).and_then(|o| o.datum_hash) {
            allowed_datums.insert(d);
        }
    }
    table("datum-witness", !required_datums.is_subset(&provided_datums) || !provided_datums.is_subset(&allowed_datums));

    // ---- redeemers
    let mut sorted_inputs = inputs.clone();
    sorted_inputs.sort();
    sorted_inputs.dedup();
    let mut needed_ptrs: BTreeSet<(u64, u64)> = BTreeSet::new();
    for (i, r) in sorted_inputs.iter().enumerate() {
        if let Some(PayCred::Script(h)) = utxo_full(b, r).map(|o| o.pay_cred()) {
            if plutus_set.contains(&h.to_vec()) {
                needed_ptrs.insert((0, i as u64));
            }
        }
    }
    for (i, p) in policies.iter().enumerate() {
        if plutus_set.contains(p) {
            needed_ptrs.insert((1, i as u64));
        }
    }
    let mut provided_ptrs: BTreeSet<(u64, u64)> = BTreeSet::new();
    let mut redeemer_count = 0usize;
    let mut budgets: Vec<(u64, u64)> = vec![];
    if let Some(r) = wits.map_get(5) {
        match &r.kind {
            Kind::Array(items, _) => {
                for x in items {
                    let a = x.as_array()?;
                    provided_ptrs.insert((a.first()?.as_u64()?, a.get(1)?.as_u64()?));
                    let e = a.get(3)?.as_array()?;
                    budgets.push((e.first()?.as_u64()?, e.get(1)?.as_u64()?));
                    redeemer_count += 1;
                }
            }
            Kind::Map(items, _) => {
                for (k, v) in items {
                    let a = k.as_array()?;
                    provided_ptrs.insert((a.first()?.as_u64()?, a.get(1)?.as_u64()?));
                    let e = v.as_array()?.get(1)?.as_array()?;
                    budgets.push((e.first()?.as_u64()?, e.get(1)?.as_u64()?));
                    redeemer_count += 1;
                }
            }
            _ => return None,
        }
    }
    table("redeemer-coverage", needed_ptrs != provided_ptrs);

    // ---- auxiliary data
    let aux = &view.root.as_array()?[3];
    let aux_hash = body.map_get(7).and_then(|n| n.as_bytes());
    table(
        "aux-data-hash",
        match (&aux_hash, aux.is_null() || aux.kind == Node::undefined().kind) {
            (None, true) => false,
            (Some(h), false) => h[..] != blake2b_256(aux.span(&b.tx))[..],
            _ => true,
        },
    );

    // ---- script integrity hash, languages
    let expected_sdh: Option<[u8; 32]> = if redeemer_count == 0 && datum_nodes.is_empty() {
        None
    } else {
        let mut p = vec![];
        match wits.map_get(5) {
            Some(r) => p.extend_from_slice(r.span(&b.tx)),
            None => p.push(if era >= Era::Conway { 0xa0 } else { 0x80 }),
        }
        if !datum_nodes.is_empty() {
            p.extend_from_slice(wits.map_get(4)?.span(&b.tx));
        }
        let langs = if redeemer_count > 0 { langs_used.clone() } else { vec![] };
        p.extend(txlab::language_views(&langs, txlab::v2_model_at(era, b.slot)));
        Some(blake2b_256(&p))
    };
    let sdh = body.map_get(11).and_then(|n| n.as_bytes());
    table(
        "script-integrity-hash",
        match (&sdh, &expected_sdh) {
            (None, None) => false,
            (Some(h), Some(e)) => h[..] != e[..],
            _ => true,
        },
    );
    // every parameter set of params.rs carries the PlutusV1 cost model only; the Babbage
    // validator takes the languages from the slot (PlutusV2 from mainnet epoch 366 on),
    // which base B3v2 uses
    let v2_available = (era == Era::Babbage && b.slot >= params::V2_FROM_SLOT) || (era == Era::Conway && b.params_era == Era::Conway && b.slot >= params::V2_MODEL_FROM_SLOT);
    table("language-available", langs_used.iter().any(|l| !(*l == 0 || (*l == 1 && v2_available))));

    // ---- rules outside the table (C34..C37 and the extraneous-script rule)
    if fee < BigInt::from(params::MINFEE_A * view.ledger_size() + params::MINFEE_B) {
        out.other.insert("fee");
    }
    if view.ledger_size() > b.max_tx_size {
        out.other.insert("tx-size");
    }
    let mut consumed = ValueView::default();
    for o in &spent {
        add(&mut consumed, &o.value);
    }
    for (k, q) in &mint {
        *consumed.assets.entry(k.clone()).or_default() += q;
    }
    let mut produced = ValueView::default();
    for (o, _) in &outs {
        add(&mut produced, &o.value);
    }
    produced.coin += &fee;
    if normal(&consumed) != normal(&produced) {
        out.other.insert("conservation");
    }
    let id = view.tx_id();
    let vk = view.vkey_witnesses();
    let mut valid_keys: BTreeSet<Vec<u8>> = BTreeSet::new();
    for (k, s) in &vk {
        if keys::verify(k, &id, s) {
            valid_keys.insert(wire::key_hash(k).to_vec());
        } else {
            out.other.insert("witness");
        }
    }
    for o in spent.iter().chain(collateral.clone().unwrap_or_default().iter().filter_map(|i| utxo_full(b, i)).collect::<Vec<_>>().iter()) {
        if let PayCred::Key(h) = o.pay_cred() {
            if !valid_keys.contains(&h.to_vec()) {
                out.other.insert("witness");
            }
        }
    }
    for h in view.required_signers() {
        if !valid_keys.contains(&h) {
            out.other.insert("witness");
        }
    }
    for n in &natives {
        if eval_native(n, &valid_keys, start, ttl) != Some(true) {
            out.other.insert("native-script");
        }
    }
    if has_plutus {
        let mem: BigInt = budgets.iter().map(|x| BigInt::from(x.0)).sum();
        let steps: BigInt = budgets.iter().map(|x| BigInt::from(x.1)).sum();
        if mem > BigInt::from(nums.max_mem) || steps > BigInt::from(nums.max_steps) {
            out.other.insert("ex-units");
        }
    }
    Some(out)
}

/// Byron: inputs non-empty, inputs in the UTxO, outputs non-zero; outside the
/// table: inputs - outputs >= summand + multiplier * size.
pub fn assess_byron(b: &Built) -> Option<Assessment> {
    let v = wire::byron_view(&b.tx)?;
    let mut out = Assessment::default();
    if v.inputs.is_empty() {
        out.table.insert("inputs-non-empty");
    }
    let mut consumed = BigInt::from(0);
    let mut all_redeem = true;
    for i in &v.inputs {
        match utxo_full(b, i) {
            Some(o) => {
                consumed += &o.value.coin;
                // address = [#6.24(payload), crc]; payload = [root, attributes, type]
                let ty = refcbor::parse_one(&o.addr)
                    .ok()
                    .and_then(|a| a.as_array()?.first()?.untagged().as_bytes())
                    .and_then(|p| refcbor::parse_one(&p).ok())
                    .and_then(|p| p.as_array()?.get(2)?.as_u64());
                if ty != Some(2) {
                    all_redeem = false;
                }
            }
            None => {
                out.table.insert("input-in-utxo");
                all_redeem = false;
            }
        }
    }
    if v.outputs.iter().any(|c| *c == BigInt::from(0)) {
        out.table.insert("min-ada-per-output");
    }
    let produced: BigInt = v.outputs.iter().sum();
    if produced > consumed {
        out.other.insert("conservation");
    } else if !(all_redeem && !v.inputs.is_empty()) && &consumed - &produced < BigInt::from(params::MINFEE_B + params::MINFEE_A * v.size) {
        out.other.insert("fee");
    }
    if v.size > b.max_tx_size {
        out.other.insert("tx-size");
    }
    Some(out)
}

// --------------------------------------------------------------------- field diff

/// The case as a map of named fields (wire bytes), for checking that a mutator
/// changed exactly what it claims. Derived parts are left out: the fee (body
/// key 2), the coin of the change output `change_ix` and the signatures of the
/// vkey witnesses (the keys stay).
pub fn fields(b: &Built, change_ix: Option<usize>) -> Option<BTreeMap<String, Vec<u8>>> {
    let mut m: BTreeMap<String, Vec<u8>> = BTreeMap::new();
    for u in &b.utxo {
        let mut v = vec![u.era as u8];
        v.extend_from_slice(&u.bytes);
        m.insert(format!("utxo.T{}#{}", (u.tx_id[0] / 0x10).saturating_sub(1), u.ix), v);
    }
    m.insert("env.slot".into(), b.slot.to_be_bytes().to_vec());
    m.insert("env.network_id".into(), vec![b.network_id]);
    m.insert("env.magic".into(), b.magic.to_be_bytes().to_vec());
    m.insert("env.params_era".into(), vec![b.params_era as u8]);
    m.insert("env.account_state".into(), vec![b.account_state as u8]);
    if b.era == Era::Byron {
        let root = refcbor::parse_one(&b.tx).ok()?;
        let parts = root.as_array()?;
        let tx = parts.first()?.as_array()?;
        m.insert("byron.inputs".into(), tx.first()?.to_vec());
        let mut outs = vec![];
        for (i, o) in tx.get(1)?.as_array()?.iter().enumerate() {
            let a = o.as_array()?;
            outs.extend(a.first()?.to_vec());
            if Some(i) != change_ix {
                outs.extend(a.get(1)?.to_vec());
            }
        }
        m.insert("byron.outputs".into(), outs);
        let mut keys = vec![];
        for w in parts.get(1)?.as_array()? {
            let a = w.as_array()?;
            keys.extend(a.first()?.to_vec());
            if let Some(inner) = a.get(1).map(|x| x.untagged()).and_then(|x| x.as_bytes()).and_then(|x| refcbor::parse_one(&x).ok()) {
                if let Some(k) = inner.as_array().and_then(|p| p.first()) {
                    keys.extend(k.to_vec());
                }
            }
        }
        m.insert("byron.witness-keys".into(), keys);
        return Some(m);
    }
    let view = TxView::parse(&b.tx)?;
    for (k, v) in view.body().as_map()? {
        let k = k.as_u64()?;
        match k {
            2 => {}
            1 => {
                let mut bytes = vec![];
                for (i, o) in v.as_array()?.iter().enumerate() {
                    if Some(i) == change_ix {
                        let mut o = o.clone();
                        zero_coin(&mut o)?;
                        bytes.extend(o.to_vec());
                    } else {
                        bytes.extend(o.to_vec());
                    }
                }
                m.insert("body.1".into(), bytes);
            }
            _ => {
                m.insert(format!("body.{k}"), v.to_vec());
            }
        }
    }
    for (k, v) in view.wits().as_map()? {
        let k = k.as_u64()?;
        if k == 0 {
            let mut keys = vec![];
            for w in v.untagged().as_array()? {
                keys.extend(w.as_array()?.first()?.to_vec());
            }
            m.insert("wits.0".into(), keys);
        } else {
            m.insert(format!("wits.{k}"), v.to_vec());
        }
    }
    let parts = view.root.as_array()?;
    m.insert("valid".into(), parts[2].to_vec());
    if !parts[3].is_null() && parts[3].kind != Node::undefined().kind {
        m.insert("aux".into(), parts[3].to_vec());
    }
    Some(m)
}

fn zero_coin(o: &mut Node) -> Option<()> {
    let val: &mut Node = match &mut o.kind {
        Kind::Array(items, _) => items.get_mut(1)?,
        Kind::Map(items, _) => &mut items.iter_mut().find(|(k, _)| k.as_u64() == Some(1))?.1,
        _ => return None,
    };
    match &mut val.kind {
        Kind::UInt(_, _) => *val = Node::uint(0),
        Kind::Array(items, _) => *items.get_mut(0)? = Node::uint(0),
        _ => return None,
    }
    Some(())
}

/// Names of the fields that differ between two cases.
pub fn diff(a: &BTreeMap<String, Vec<u8>>, b: &BTreeMap<String, Vec<u8>>) -> BTreeSet<String> {
    let mut d = BTreeSet::new();
    for k in a.keys().chain(b.keys()) {
        if a.get(k) != b.get(k) {
            d.insert(k.clone());
        }
    }
    d
}
