//! Deviations ("mutators"). A deviation changes exactly one thing of a case —
//! one field of the transaction description or of the environment — and
//! belongs to a *dimension*; two deviations of the same dimension are never
//! combined (the second would overwrite the first). Signatures, hashes marked
//! `Right`, the change output and fee / size expressed relative to the ledger
//! size are resolved by the builder afterwards, so a deviation that changes the
//! body is automatically re-signed.
//!
//! Adding a mutator: push `Dev::new("name", "dimension", |c: &mut Case| ...)`
//! in [`deviations`] (guard it with the era / base it applies to).

use crate::bases::*;
use crate::params;
use crate::txlab::*;
use std::sync::Arc;

pub trait Labeled {
    fn push_dev(&mut self, name: &str);
}

impl Labeled for Case {
    fn push_dev(&mut self, name: &str) {
        self.devs.push(name.to_string());
    }
}

impl Labeled for crate::byron::ByronCase {
    fn push_dev(&mut self, name: &str) {
        self.devs.push(name.to_string());
    }
}

pub struct Dev<C> {
    pub name: String,
    pub dim: String,
    /// length of the witness list the deviation installs (0 for every other
    /// deviation); the explorer bounds it separately in pairs
    pub size: usize,
    f: Arc<dyn Fn(&mut C) + Send + Sync>,
}

impl<C> Clone for Dev<C> {
    fn clone(&self) -> Self {
        Dev { name: self.name.clone(), dim: self.dim.clone(), size: self.size, f: self.f.clone() }
    }
}

impl<C: Labeled> Dev<C> {
    pub fn new(name: impl Into<String>, dim: impl Into<String>, f: impl Fn(&mut C) + Send + Sync + 'static) -> Dev<C> {
        Dev { name: name.into(), dim: dim.into(), size: 0, f: Arc::new(f) }
    }
    pub fn sized(mut self, n: usize) -> Dev<C> {
        self.size = n;
        self
    }
    pub fn apply(&self, c: &mut C) {
        (self.f)(c);
        c.push_dev(&self.name);
    }
}

pub const Q63: u64 = 1 << 63;

/// Minimum lovelace of an output as the era's rule states it (own arithmetic
/// on the refcbor encoding of the value).
pub fn min_lovelace(era: Era, o: &Out) -> u64 {
    let n = params::numbers(era);
    let words = (o.value_node(o.fixed()).to_vec().len() as u64).div_ceil(8);
    match era {
        Era::Byron => 0,
        Era::Shelley | Era::Allegra | Era::Mary => {
            if o.assets.is_none() {
                n.min_utxo_value
            } else {
                (27 + words) * (n.min_utxo_value / 27)
            }
        }
        Era::Alonzo => n.ada_per_utxo_byte * (words + if matches!(o.datum, Datum::Hash(_) | Datum::RawHash(_)) { 37 } else { 27 }),
        Era::Babbage | Era::Conway => n.ada_per_utxo_byte * (words + 160),
    }
}

/// Every list of length <= max over the alphabet, in every order.
pub fn lists<T: Clone>(alpha: &[T], max: usize) -> Vec<Vec<T>> {
    let mut all: Vec<Vec<T>> = vec![vec![]];
    let mut frontier: Vec<Vec<T>> = vec![vec![]];
    for _ in 0..max {
        let mut next = vec![];
        for l in &frontier {
            for a in alpha {
                let mut n = l.clone();
                n.push(a.clone());
                next.push(n);
            }
        }
        all.extend(next.iter().cloned());
        frontier = next;
    }
    all
}

pub fn witness_alphabet() -> Vec<VkWit> {
    vec![VkWit::Valid(0), VkWit::CorruptSig(0), VkWit::Valid(1), VkWit::CorruptSig(1), VkWit::Valid(2), VkWit::CorruptSig(2), VkWit::WrongLenKey]
}

fn utxo_mut<'a>(c: &'a mut Case, r: &InRef) -> Option<&'a mut Out> {
    c.env.get_mut(r).map(|u| &mut u.out)
}

/// The deviations of one base. `max_wits`: length bound of the witness lists.
pub fn deviations(base: &Case, max_wits: usize) -> Vec<Dev<Case>> {
    let era = base.era;
    let slot = base.env.slot;
    let is_b2 = base.base.starts_with("B2");
    let is_b3 = base.base.starts_with("B3");
    let mut d: Vec<Dev<Case>> = vec![];
    macro_rules! dev {
        ($name:expr, $dim:expr, $f:expr) => {
            d.push(Dev::new($name, $dim, $f))
        };
    }

    // ---------------------------------------------------------------- outputs
    let min0 = min_lovelace(era, &base.tx.outputs[0]);
    for (name, v) in [("0", 0u64), ("1", 1), ("min-1", min0 - 1), ("min", min0), ("min+1", min0 + 1), ("2^63", Q63), ("2^64-1", u64::MAX)] {
        dev!(format!("out0.coin={name}"), "out0.coin", move |c: &mut Case| {
            if let Some(o) = c.tx.outputs.get_mut(0) {
                o.coin = Coin::Fixed(v)
            }
        });
    }
    for (name, v) in [("0", 0u64), ("2^64-1", u64::MAX)] {
        dev!(format!("out1.coin={name}"), "out1.coin", move |c: &mut Case| {
            if let Some(o) = c.tx.outputs.get_mut(1) {
                o.coin = Coin::Fixed(v)
            }
        });
    }
    let a_qtys: Vec<(&str, u64)> = if era.multiasset() { vec![("0", 0), ("1", 1), ("14", 14), ("15", 15), ("16", 16), ("2^63", Q63), ("2^64-1", u64::MAX)] } else { vec![("1", 1)] };
    for (name, q) in a_qtys {
        dev!(format!("out0.asset[A]={name}"), "out0.assetA", move |c: &mut Case| {
            if let Some(o) = c.tx.outputs.get_mut(0) {
                set_asset(&mut o.assets, policy(), asset_a(), q)
            }
        });
    }
    if era.multiasset() {
        for (name, q) in [("0", 0u64), ("1", 1), ("2^64-1", u64::MAX)] {
            dev!(format!("out0.asset[B]={name}"), "out0.assetB", move |c: &mut Case| {
            if let Some(o) = c.tx.outputs.get_mut(0) {
                set_asset(&mut o.assets, policy(), asset_b(), q)
            }
        });
        }
        dev!("out0.assets={}", "out0.assets", |c: &mut Case| {
            if let Some(o) = c.tx.outputs.get_mut(0) {
                o.assets = Some(vec![])
            }
        });
        dev!("out0.assets={P:{}}", "out0.assets", |c: &mut Case| {
            if let Some(o) = c.tx.outputs.get_mut(0) {
                o.assets = Some(vec![(policy(), vec![])])
            }
        });
        if is_b2 {
            dev!("out0.assets=none", "out0.assets", |c: &mut Case| {
            if let Some(o) = c.tx.outputs.get_mut(0) {
                o.assets = None
            }
        });
        }
        for (name, q) in [("1", 1u64), ("2^64-1", u64::MAX)] {
            dev!(format!("out1.asset[A]={name}"), "out1.assetA", move |c: &mut Case| {
            if let Some(o) = c.tx.outputs.get_mut(1) {
                set_asset(&mut o.assets, policy(), asset_a(), q)
            }
        });
        }
    }
    if era.map_outputs() {
        dev!("out0.form=legacy", "out0.form", |c: &mut Case| {
            if let Some(o) = c.tx.outputs.get_mut(0) {
                o.form = OutForm::Legacy
            }
        });
        dev!("out1.form=legacy", "out1.form", |c: &mut Case| {
            if let Some(o) = c.tx.outputs.get_mut(1) {
                o.form = OutForm::Legacy
            }
        });
        dev!("out0.datum=inline", "out0.datum", |c: &mut Case| {
            if let Some(o) = c.tx.outputs.get_mut(0) {
                o.datum = Datum::Inline(Data::Int(7))
            }
        });
    } else {
        dev!("out0.form=map", "out0.form", |c: &mut Case| {
            if let Some(o) = c.tx.outputs.get_mut(0) {
                o.form = OutForm::Map
            }
        });
    }
    dev!("out0.datum=hash", "out0.datum", |c: &mut Case| {
            if let Some(o) = c.tx.outputs.get_mut(0) {
                o.datum = Datum::Hash(Data::Int(7))
            }
        });
    dev!("out0.addr=testnet", "out0.addr", |c: &mut Case| {
            if let Some(o) = c.tx.outputs.get_mut(0) {
                o.addr = Addr::key(2).with_net(TESTNET)
            }
        });
    dev!("out0.addr=byron", "out0.addr", |c: &mut Case| {
            if let Some(o) = c.tx.outputs.get_mut(0) {
                o.addr = Addr::Byron(2)
            }
        });
    dev!("out0.addr=ff", "out0.addr", |c: &mut Case| {
            if let Some(o) = c.tx.outputs.get_mut(0) {
                o.addr = Addr::Raw(vec![0xff])
            }
        });
    dev!("out0.addr=empty", "out0.addr", |c: &mut Case| {
            if let Some(o) = c.tx.outputs.get_mut(0) {
                o.addr = Addr::Raw(vec![])
            }
        });
    dev!("out0.addr=script", "out0.addr", |c: &mut Case| {
            if let Some(o) = c.tx.outputs.get_mut(0) {
                o.addr = Addr::script(native_lock().hash())
            }
        });
    dev!("out0.addr=stake", "out0.addr", |c: &mut Case| {
        let mut b = vec![0xe1];
        b.extend_from_slice(&crate::keys::key(2).hash);
        if let Some(o) = c.tx.outputs.get_mut(0) {
            o.addr = Addr::Raw(b)
        }
    });
    dev!("outputs=[]", "outs", |c: &mut Case| c.tx.outputs.clear());
    dev!("outputs=[out0]", "outs", |c: &mut Case| c.tx.outputs.truncate(1));
    dev!("outputs+=K1:1.5ADA", "outs+", move |c: &mut Case| c.tx.outputs.push(Out::new(era, Addr::key(1), 1_500_000)));
    dev!("outputs+=K1:2^64-1", "outs+", move |c: &mut Case| c.tx.outputs.push(Out::new(era, Addr::key(1), u64::MAX)));
    if era.multiasset() {
        dev!("outputs+=K1:2ADA+A:2^64-1", "outs+", move |c: &mut Case| c.tx.outputs.push(Out::new(era, Addr::key(1), 2_000_000).with_asset(policy(), asset_a(), u64::MAX)));
        dev!("outputs+=K1:2ADA+A:2^63", "outs+", move |c: &mut Case| c.tx.outputs.push(Out::new(era, Addr::key(1), 2_000_000).with_asset(policy(), asset_a(), Q63)));
    }

    // ---------------------------------------------------------------- mint, scripts
    if era.multiasset() {
        let mints: Vec<(&str, Option<Mint>)> = vec![
            ("none", None),
            ("{}", Some(vec![])),
            ("{P:{}}", Some(vec![(policy(), vec![])])),
            ("{A:+1}", Some(vec![(policy(), vec![(asset_a(), 1)])])),
            ("{A:+5}", Some(vec![(policy(), vec![(asset_a(), 5)])])),
            ("{A:+6}", Some(vec![(policy(), vec![(asset_a(), 6)])])),
            ("{A:-1}", Some(vec![(policy(), vec![(asset_a(), -1)])])),
            ("{A:-10}", Some(vec![(policy(), vec![(asset_a(), -10)])])),
            ("{A:-11}", Some(vec![(policy(), vec![(asset_a(), -11)])])),
            ("{B:-1}", Some(vec![(policy(), vec![(asset_b(), -1)])])),
            ("{B:-5}", Some(vec![(policy(), vec![(asset_b(), -5)])])),
            ("{A:0}", Some(vec![(policy(), vec![(asset_a(), 0)])])),
            ("{A:+5,B:-5}", Some(vec![(policy(), vec![(asset_a(), 5), (asset_b(), -5)])])),
            ("{A:+5,B:-1}", Some(vec![(policy(), vec![(asset_a(), 5), (asset_b(), -1)])])),
            ("{A:+5,B:+1}", Some(vec![(policy(), vec![(asset_a(), 5), (asset_b(), 1)])])),
            ("{A:2^63-1}", Some(vec![(policy(), vec![(asset_a(), i64::MAX as i128)])])),
            ("{A:-2^63}", Some(vec![(policy(), vec![(asset_a(), i64::MIN as i128)])])),
            ("{A:2^63}", Some(vec![(policy(), vec![(asset_a(), 1i128 << 63)])])),
            ("{lock:{A:+1}}", Some(vec![(native_lock().hash(), vec![(asset_a(), 1)])])),
            ("{plutus:{A:+1}}", Some(vec![(plutus_hash(1, &plutus_script()), vec![(asset_a(), 1)])])),
        ];
        for (name, m) in mints {
            if m == base.tx.mint {
                continue;
            }
            dev!(format!("mint={name}"), "mint", move |c: &mut Case| c.tx.mint = m.clone());
        }
    }
    let natives: Vec<(&str, Option<Vec<Native>>)> = vec![
        ("none", None),
        ("[]", Some(vec![])),
        ("[policy]", Some(vec![native_policy()])),
        ("[lock]", Some(vec![native_lock()])),
        ("[policy,lock]", Some(vec![native_policy(), native_lock()])),
        ("[policy,other]", Some(vec![native_policy(), native_other()])),
        ("[policy,policy]", Some(vec![native_policy(), native_policy()])),
    ];
    for (name, n) in natives {
        if n == base.tx.wits.native {
            continue;
        }
        dev!(format!("wits.native={name}"), "native", move |c: &mut Case| c.tx.wits.native = n.clone());
    }

    // ---------------------------------------------------------------- fee, size, validity, network
    for (name, f) in [
        ("min-1", FeeSpec::MinPlus(-1)),
        ("min", FeeSpec::MinPlus(0)),
        ("min+1", FeeSpec::MinPlus(1)),
        ("min+44", FeeSpec::MinPlus(44)),
        ("min-88", FeeSpec::MinPlus(-88)),
        ("0", FeeSpec::Exact(0)),
        ("2^32", FeeSpec::Exact(1 << 32)),
        ("2^63", FeeSpec::Exact(Q63)),
        ("2^64-1", FeeSpec::Exact(u64::MAX)),
    ] {
        dev!(format!("fee={name}"), "fee", move |c: &mut Case| c.tx.fee = f);
    }
    for (name, s) in [("size-1", SizeSpec::LedgerPlus(-1)), ("size", SizeSpec::LedgerPlus(0)), ("size+1", SizeSpec::LedgerPlus(1)), ("size-2", SizeSpec::LedgerPlus(-2)), ("0", SizeSpec::Exact(0))] {
        dev!(format!("max_tx_size={name}"), "maxsize", move |c: &mut Case| c.env.max_tx_size = s);
    }
    for (name, t) in [("none", None), ("slot-1", Some(slot - 1)), ("slot", Some(slot)), ("2^64-1", Some(u64::MAX))] {
        dev!(format!("ttl={name}"), "ttl", move |c: &mut Case| c.tx.ttl = t);
    }
    for (name, t) in [("slot-1", Some(slot - 1)), ("slot", Some(slot)), ("slot+1", Some(slot + 1)), ("2^64-1", Some(u64::MAX))] {
        dev!(format!("validity_start={name}"), "start", move |c: &mut Case| c.tx.validity_start = t);
    }
    for (name, s) in [("0", 0u64), ("72748820", 72748820), ("2^64-1", u64::MAX)] {
        dev!(format!("env.slot={name}"), "slot", move |c: &mut Case| c.env.slot = s);
    }
    for n in [0u8, 1, 2] {
        dev!(format!("tx.network_id={n}"), "txnet", move |c: &mut Case| c.tx.network_id = Some(n));
    }
    dev!("env.network_id=0", "envnet", |c: &mut Case| c.env.network_id = 0);
    dev!("env.magic=1", "magic", |c: &mut Case| c.env.magic = 1);
    dev!("env.account_state=none", "acnt", |c: &mut Case| c.env.account_state = false);
    for e in [Era::Byron, Era::Shelley, Era::Alonzo, Era::Babbage, Era::Conway] {
        if e.group() != era.group() {
            dev!(format!("env.params={}", e.name()), "params", move |c: &mut Case| c.env.params_era = Some(e));
        }
    }
    dev!("valid=false", "valid", |c: &mut Case| c.tx.valid = false);

    // ---------------------------------------------------------------- inputs
    dev!("inputs=[]", "ins", |c: &mut Case| c.tx.inputs.clear());
    dev!("inputs=[missing]", "ins", |c: &mut Case| c.tx.inputs = vec![MISSING]);
    dev!("inputs+=missing", "ins", |c: &mut Case| c.tx.inputs.push(MISSING));
    dev!("inputs+=dup", "ins", |c: &mut Case| {
        if let Some(f) = c.tx.inputs.first().copied() {
            c.tx.inputs.push(f)
        }
    });
    dev!("inputs=reversed", "ins", |c: &mut Case| c.tx.inputs.reverse());
    for r in [U00, U01, U10, U11] {
        if !base.tx.inputs.contains(&r) {
            dev!(format!("inputs+={}", r.show()), "ins", move |c: &mut Case| c.tx.inputs.push(r));
        }
    }
    if era == Era::Conway {
        dev!("inputs=tag258", "instag", |c: &mut Case| c.tx.inputs_tag258 = true);
    }
    if era.map_outputs() {
        dev!("reference_inputs=[T1#1]", "refins", |c: &mut Case| c.tx.reference_inputs = Some(vec![U11]));
        dev!("reference_inputs=[missing]", "refins", |c: &mut Case| c.tx.reference_inputs = Some(vec![MISSING]));
        dev!("reference_inputs=[]", "refins", |c: &mut Case| c.tx.reference_inputs = Some(vec![]));
    }

    // ---------------------------------------------------------------- UTxO set
    for r in [U00, U01] {
        for (name, v) in [("0", 0u64), ("2^63", Q63), ("2^64-1", u64::MAX)] {
            dev!(format!("utxo[{}].coin={name}", r.show()), format!("utxo{}.coin", r.show()), move |c: &mut Case| {
                if let Some(o) = utxo_mut(c, &r) {
                    o.coin = Coin::Fixed(v)
                }
            });
        }
    }
    if era.multiasset() {
        for (name, q) in [("0", 0u64), ("1", 1), ("2^63", Q63), ("2^64-1", u64::MAX)] {
            dev!(format!("utxo[T0#0].asset[A]={name}"), "utxoT0#0.assetA", move |c: &mut Case| {
                if let Some(o) = utxo_mut(c, &U00) {
                    set_asset(&mut o.assets, policy(), asset_a(), q)
                }
            });
        }
        dev!("utxo[T0#0].asset[B]=2^64-1", "utxoT0#0.assetB", |c: &mut Case| {
            if let Some(o) = utxo_mut(c, &U00) {
                set_asset(&mut o.assets, policy(), asset_b(), u64::MAX)
            }
        });
        dev!("utxo[T0#1].asset[A]=1", "utxoT0#1.assetA", |c: &mut Case| {
            if let Some(o) = utxo_mut(c, &U01) {
                set_asset(&mut o.assets, policy(), asset_a(), 1)
            }
        });
        dev!("utxo[T0#1].asset[A]=2^63", "utxoT0#1.assetA", |c: &mut Case| {
            if let Some(o) = utxo_mut(c, &U01) {
                set_asset(&mut o.assets, policy(), asset_a(), Q63)
            }
        });
    }
    if era.map_outputs() {
        dev!("utxo[T0#0].form=legacy", "utxoT0#0.form", |c: &mut Case| {
            if let Some(o) = utxo_mut(c, &U00) {
                o.form = OutForm::Legacy
            }
        });
    }
    for e in [Era::Byron, Era::Shelley, Era::Mary, Era::Alonzo, Era::Babbage, Era::Conway] {
        if e != era {
            dev!(format!("utxo[T0#0].era={}", e.name()), "utxoT0#0.era", move |c: &mut Case| {
                if let Some(u) = c.env.get_mut(&U00) {
                    u.era = Some(e);
                    if !e.map_outputs() {
                        u.out.form = OutForm::Legacy;
                    }
                }
            });
        }
    }
    dev!("utxo[T0#0].addr=K1", "utxoT0#0.addr", |c: &mut Case| {
        if let Some(o) = utxo_mut(c, &U00) {
            o.addr = Addr::key(1)
        }
    });
    dev!("utxo[T0#0].addr=K2", "utxoT0#0.addr", |c: &mut Case| {
        if let Some(o) = utxo_mut(c, &U00) {
            o.addr = Addr::key(2)
        }
    });
    dev!("utxo[T0#0].addr=byron", "utxoT0#0.addr", |c: &mut Case| {
        if let Some(o) = utxo_mut(c, &U00) {
            o.addr = Addr::Byron(0)
        }
    });
    dev!("utxo[T0#0].addr=ff", "utxoT0#0.addr", |c: &mut Case| {
        if let Some(o) = utxo_mut(c, &U00) {
            o.addr = Addr::Raw(vec![0xff])
        }
    });
    dev!("utxo[T0#0].addr=stake", "utxoT0#0.addr", |c: &mut Case| {
        if let Some(o) = utxo_mut(c, &U00) {
            let mut b = vec![0xe1];
            b.extend_from_slice(&crate::keys::key(0).hash);
            o.addr = Addr::Raw(b)
        }
    });
    dev!("utxo-=T0#0", "utxoT0#0", |c: &mut Case| c.env.utxo.retain(|u| u.at != U00));
    dev!("utxo=[]", "utxoT0#0", |c: &mut Case| c.env.utxo.clear());

    // ---------------------------------------------------------------- vkey witnesses
    for l in lists(&witness_alphabet(), max_wits) {
        if Some(&l) == base.tx.wits.vkeys.as_ref() {
            continue;
        }
        let name = format!("wits.vkeys=[{}]", l.iter().map(|w| w.show()).collect::<Vec<_>>().join(","));
        let n = l.len();
        d.push(Dev::new(name, "vkeys", move |c: &mut Case| c.tx.wits.vkeys = Some(l.clone())).sized(n));
    }
    dev!("wits.vkeys=none", "vkeys", |c: &mut Case| c.tx.wits.vkeys = None);
    dev!("wits.vkeys+=WLS2", "vkeys+", |c: &mut Case| c.tx.wits.vkeys.get_or_insert_with(Vec::new).push(VkWit::WrongLenSig(2)));
    dev!("wits.vkeys+=WLK", "vkeys+", |c: &mut Case| c.tx.wits.vkeys.get_or_insert_with(Vec::new).push(VkWit::WrongLenKey));
    dev!("wits.vkeys+=C2", "vkeys+", |c: &mut Case| c.tx.wits.vkeys.get_or_insert_with(Vec::new).push(VkWit::CorruptSig(2)));
    dev!("wits.vkeys+=V2,C2", "vkeys+", |c: &mut Case| c.tx.wits.vkeys.get_or_insert_with(Vec::new).extend([VkWit::Valid(2), VkWit::CorruptSig(2)]));
    dev!("wits.vkeys=WLS0+rest", "vkeys+", |c: &mut Case| c.tx.wits.vkeys.get_or_insert_with(Vec::new).insert(0, VkWit::WrongLenSig(0)));

    // ---------------------------------------------------------------- aux data
    dev!("aux=present", "aux", |c: &mut Case| c.tx.aux = true);
    dev!("aux_hash=right", "auxhash", |c: &mut Case| c.tx.aux_hash = HashSpec::Right);
    dev!("aux_hash=wrong", "auxhash", |c: &mut Case| c.tx.aux_hash = HashSpec::Wrong);

    // ---------------------------------------------------------------- wire spellings
    // Same content, other bytes: the size / fee / hash rules read raw bytes. Each is
    // kept only where the real decoder accepts it (undecodable cases are counted and skipped).
    dev!("aux_slot=undefined", "aux", |c: &mut Case| c.tx.spelling.aux_slot_undefined = true);
    dev!("aux.form=shelley-ma", "auxform", |c: &mut Case| c.tx.aux_form = AuxForm::ShelleyMa);
    dev!("aux.form=post-alonzo", "auxform", |c: &mut Case| c.tx.aux_form = AuxForm::PostAlonzo);
    dev!("tx.array=indefinite", "outerform", |c: &mut Case| c.tx.spelling.outer_indef = true);
    dev!("body.map=indefinite", "bodyform", |c: &mut Case| c.tx.spelling.body_indef = true);
    dev!("outputs.array=indefinite", "outsform", |c: &mut Case| c.tx.spelling.outputs_indef = true);
    dev!("fee.width=8", "feewidth", |c: &mut Case| c.tx.spelling.fee_width8 = true);
    dev!("wits.map=indefinite", "witsform", |c: &mut Case| c.tx.wits.map_indef = true);
    if era == Era::Conway {
        dev!("wits.vkeys=tag258", "vkeystag", |c: &mut Case| c.tx.wits.vkeys_tag258 = true);
    }

    // ---------------------------------------------------------------- Alonzo+
    if era.plutus() {
        for mask in 0u8..8 {
            let ks: Vec<usize> = (0..3).filter(|k| mask & (1 << k) != 0).collect();
            let name = format!("required_signers=[{}]", ks.iter().map(|k| format!("K{k}")).collect::<Vec<_>>().join(","));
            dev!(name, "reqsig", move |c: &mut Case| c.tx.required_signers = Some(ks.clone()));
        }
        let colls: Vec<(&str, Option<Vec<InRef>>)> = vec![
            ("none", None),
            ("[]", Some(vec![])),
            ("[T0#1]", Some(vec![U01])),
            ("[T0#0]", Some(vec![U00])),
            ("[T0#0,T0#1]", Some(vec![U00, U01])),
            ("[T0#0,T0#1,T1#0,T1#1]", Some(vec![U00, U01, U10, U11])),
            ("[T1#0]", Some(vec![U10])),
            ("[missing]", Some(vec![MISSING])),
            ("[T0#1,T0#1]", Some(vec![U01, U01])),
        ];
        for (name, cl) in colls {
            if cl == base.tx.collateral {
                continue;
            }
            dev!(format!("collateral={name}"), "coll", move |c: &mut Case| c.tx.collateral = cl.clone());
        }
        if is_b3 {
            let fee = build_resolved(base).1.fee;
            let need = (fee as u128 * 150).div_ceil(100) as u64;
            dev!("utxo[T0#1].coin=150%fee-1", "utxoT0#1.coin", move |c: &mut Case| {
                if let Some(o) = utxo_mut(c, &U01) {
                    o.coin = Coin::Fixed(need - 1)
                }
            });
            dev!("utxo[T0#1].coin=150%fee", "utxoT0#1.coin", move |c: &mut Case| {
                if let Some(o) = utxo_mut(c, &U01) {
                    o.coin = Coin::Fixed(need)
                }
            });
        }
        dev!("utxo[T0#1].addr=script", "utxoT0#1.addr", |c: &mut Case| {
            if let Some(o) = utxo_mut(c, &U01) {
                o.addr = Addr::script(native_lock().hash())
            }
        });
        if era.map_outputs() {
            dev!("collateral_return=K1:1ADA", "collret", move |c: &mut Case| c.tx.collateral_return = Some(Out::new(era, Addr::key(1), 1_000_000)));
            dev!("collateral_return=K1:6ADA", "collret", move |c: &mut Case| c.tx.collateral_return = Some(Out::new(era, Addr::key(1), 6_000_000)));
            dev!("collateral_return=K1:1ADA+A:1", "collret", move |c: &mut Case| c.tx.collateral_return = Some(Out::new(era, Addr::key(1), 1_000_000).with_asset(policy(), asset_a(), 1)));
            dev!("collateral_return=legacy:1ADA+A:0", "collret", move |c: &mut Case| {
                let mut o = Out::new(era, Addr::key(1), 1_000_000).with_asset(policy(), asset_a(), 0);
                o.form = OutForm::Legacy;
                c.tx.collateral_return = Some(o)
            });
            dev!("total_collateral=right", "totcoll", |c: &mut Case| c.tx.total_collateral = Some(TotalCollateral::Right));
            dev!("total_collateral=1", "totcoll", |c: &mut Case| c.tx.total_collateral = Some(TotalCollateral::Exact(1)));
            dev!("total_collateral=2^64-1", "totcoll", |c: &mut Case| c.tx.total_collateral = Some(TotalCollateral::Exact(u64::MAX)));
        }
        // Plutus scripts in the witness set
        let pls: Vec<(&str, Option<Vec<Vec<u8>>>)> = vec![("none", None), ("[]", Some(vec![])), ("[script]", Some(vec![plutus_script()])), ("[script,other]", Some(vec![plutus_script(), plutus_script_other()])), ("[other]", Some(vec![plutus_script_other()]))];
        for (name, p) in pls {
            if p == base.tx.wits.plutus_v1 {
                continue;
            }
            dev!(format!("wits.plutus_v1={name}"), "plutus", move |c: &mut Case| c.tx.wits.plutus_v1 = p.clone());
        }
        if era.map_outputs() {
            let base_v2 = base.tx.wits.plutus_v2.clone();
            if base_v2 != Some(vec![plutus_script()]) {
                dev!("wits.plutus_v2=[script]", "plutus2", |c: &mut Case| c.tx.wits.plutus_v2 = Some(vec![plutus_script()]));
            } else {
                // base B3v2: the V2 list is what locks the inputs
                dev!("wits.plutus_v2=none", "plutus2", |c: &mut Case| c.tx.wits.plutus_v2 = None);
                dev!("wits.plutus_v2=[other]", "plutus2", |c: &mut Case| c.tx.wits.plutus_v2 = Some(vec![plutus_script_other()]));
                dev!("wits.plutus_v2=[script,other]", "plutus2", |c: &mut Case| c.tx.wits.plutus_v2 = Some(vec![plutus_script(), plutus_script_other()]));
            }
            // a script list that is present but empty next to a non-empty one of another language
            dev!("wits.plutus_v2=[]", "plutus2", |c: &mut Case| c.tx.wits.plutus_v2 = Some(vec![]));
        }
        // datums
        let dts: Vec<(&str, Option<Vec<Data>>)> = vec![("none", None), ("[]", Some(vec![])), ("[42]", Some(vec![datum()])), ("[42,99]", Some(vec![datum(), Data::Int(99)])), ("[99]", Some(vec![Data::Int(99)])), ("[7]", Some(vec![Data::Int(7)]))];
        for (name, p) in dts {
            if p == base.tx.wits.datums {
                continue;
            }
            dev!(format!("wits.datums={name}"), "datums", move |c: &mut Case| c.tx.wits.datums = p.clone());
        }
        dev!("wits.datums.form=flip", "datumsform", |c: &mut Case| c.tx.wits.datums_indef = !c.tx.wits.datums_indef);
        // script integrity hash
        for (name, h) in [("absent", HashSpec::Absent), ("wrong", HashSpec::Wrong), ("right", HashSpec::Right)] {
            if h == base.tx.script_data_hash {
                continue;
            }
            dev!(format!("script_data_hash={name}"), "sdh", move |c: &mut Case| c.tx.script_data_hash = h);
        }
        // redeemers
        let r1 = Redeemer { tag: 0, index: 1, data: Data::Int(1), mem: 1000, steps: 10_000 };
        let r2 = Redeemer { tag: 0, index: 2, data: Data::Int(2), mem: 2000, steps: 20_000 };
        let r0 = Redeemer { tag: 0, index: 0, data: Data::Int(0), mem: 500, steps: 5_000 };
        let rm = Redeemer { tag: 1, index: 0, data: Data::Int(3), mem: 500, steps: 5_000 };
        let rds: Vec<(&str, Option<Vec<Redeemer>>)> = vec![
            ("none", None),
            ("[]", Some(vec![])),
            ("[spend1]", Some(vec![r1.clone()])),
            ("[spend2]", Some(vec![r2.clone()])),
            ("[spend1,spend2]", Some(vec![r1.clone(), r2.clone()])),
            ("[spend2,spend1]", Some(vec![r2.clone(), r1.clone()])),
            ("[spend0,spend1,spend2]", Some(vec![r0.clone(), r1.clone(), r2.clone()])),
            ("[spend1,spend2,mint0]", Some(vec![r1.clone(), r2.clone(), rm.clone()])),
            ("[spend1,spend1]", Some(vec![r1.clone(), r1.clone()])),
            // a pointer listed twice, every needed pointer present: the LAST copy alone takes the
            // whole maximum, so the budget is exceeded whether duplicates are summed (list
            // semantics) or the last one wins (the ledger's map view of the list)
            ("[spend1,spend2:1,spend2:mem=max]", Some(vec![r1.clone(), Redeemer { mem: 1, steps: 1, ..r2.clone() }, Redeemer { mem: params::numbers(era).max_mem, ..r2.clone() }])),
            ("[spend1,spend2:1,spend2:steps=max]", Some(vec![r1.clone(), Redeemer { mem: 1, steps: 1, ..r2.clone() }, Redeemer { steps: params::numbers(era).max_steps, ..r2.clone() }])),
        ];
        for (name, p) in rds {
            if p == base.tx.wits.redeemers {
                continue;
            }
            dev!(format!("wits.redeemers={name}"), "rdm", move |c: &mut Case| c.tx.wits.redeemers = p.clone());
        }
        if era == Era::Conway {
            if base.tx.wits.redeemers_map {
                dev!("wits.redeemers.form=list", "rdmform", |c: &mut Case| c.tx.wits.redeemers_map = false);
            } else {
                dev!("wits.redeemers.form=map", "rdmform", |c: &mut Case| c.tx.wits.redeemers_map = true);
            }
        }
        // execution budgets: the SUM over the redeemers is placed below / at / above the maximum
        let n = params::numbers(era);
        let classes = |max: u64| vec![("max-1", max - 1), ("max", max), ("max+1", max + 1), ("2^64-1", u64::MAX)];
        for (mn, mv) in classes(n.max_mem) {
            dev!(format!("sum(mem)={mn}"), "exmem", move |c: &mut Case| {
                if let Some(r) = c.tx.wits.redeemers.as_mut() {
                    spread(r, mv, true)
                }
            });
        }
        for (sn, sv) in classes(n.max_steps) {
            dev!(format!("sum(steps)={sn}"), "exsteps", move |c: &mut Case| {
                if let Some(r) = c.tx.wits.redeemers.as_mut() {
                    spread(r, sv, false)
                }
            });
        }
        dev!("every redeemer mem=2^63", "exmem", |c: &mut Case| {
            if let Some(r) = c.tx.wits.redeemers.as_mut() {
                r.iter_mut().for_each(|x| x.mem = Q63)
            }
        });
        dev!("every redeemer steps=2^63", "exsteps", |c: &mut Case| {
            if let Some(r) = c.tx.wits.redeemers.as_mut() {
                r.iter_mut().for_each(|x| x.steps = Q63)
            }
        });
    }
    d
}

/// Give the redeemers budgets whose sum is exactly `total` on one axis
/// (every redeemer but the first gets 1).
fn spread(r: &mut [Redeemer], total: u64, mem: bool) {
    let n = r.len() as u64;
    for (i, x) in r.iter_mut().enumerate() {
        let v = if i == 0 { total.saturating_sub(n.saturating_sub(1)) } else { 1 };
        if mem {
            x.mem = v
        } else {
            x.steps = v
        }
    }
}
