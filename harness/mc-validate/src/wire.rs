//! Independent reading of the built artefacts (refcbor AST + spans, own
//! Blake2b, num-bigint). Every oracle works from these views of the WIRE bytes,
//! not from the model the bytes were generated from.

use mc_core::blake2b::{blake2b_224, blake2b_256};
use mc_core::refcbor::{self, Kind, Node};
use num_bigint::BigInt;
use std::collections::BTreeMap;

pub type AssetId = (Vec<u8>, Vec<u8>);

#[derive(Clone, Debug, Default)]
pub struct ValueView {
    pub coin: BigInt,
    pub assets: BTreeMap<AssetId, BigInt>,
}

#[derive(Clone, Debug)]
pub struct OutView {
    pub addr: Vec<u8>,
    pub value: ValueView,
    /// the address is a Byron bootstrap address (Byron-era entry or Shelley-era header 0b1000)
    pub byron: bool,
}

#[derive(Clone, Debug, PartialEq)]
pub enum PayCred {
    Key([u8; 28]),
    Script([u8; 28]),
    Bootstrap,
    /// not a payment address (stake address, garbage)
    Other,
}

impl OutView {
    pub fn pay_cred(&self) -> PayCred {
        if self.byron {
            return PayCred::Bootstrap;
        }
        let Some(h) = self.addr.first() else { return PayCred::Other };
        let t = h >> 4;
        if t == 0b1000 {
            return PayCred::Bootstrap;
        }
        if t > 0b0111 || self.addr.len() < 29 {
            return PayCred::Other;
        }
        let hash: [u8; 28] = self.addr[1..29].try_into().unwrap();
        if t & 1 == 0 {
            PayCred::Key(hash)
        } else {
            PayCred::Script(hash)
        }
    }
}

fn value_view(n: &Node) -> Option<ValueView> {
    let mut v = ValueView::default();
    match &n.kind {
        Kind::UInt(c, _) => v.coin = BigInt::from(*c),
        Kind::Array(items, _) if items.len() == 2 => {
            v.coin = BigInt::from(items[0].as_u64()?);
            for (p, m) in items[1].as_map()? {
                let p = p.as_bytes()?;
                for (name, q) in m.as_map()? {
                    *v.assets.entry((p.clone(), name.as_bytes()?)).or_default() += BigInt::from(q.as_i128()?);
                }
            }
        }
        _ => return None,
    }
    Some(v)
}

/// A transaction output in any post-Byron form (array or map).
pub fn out_view(n: &Node) -> Option<OutView> {
    match &n.kind {
        Kind::Array(items, _) if items.len() >= 2 => Some(OutView { addr: items[0].as_bytes()?, value: value_view(&items[1])?, byron: false }),
        Kind::Map(_, _) => Some(OutView { addr: n.map_get(0)?.as_bytes()?, value: value_view(n.map_get(1)?)?, byron: false }),
        _ => None,
    }
}

/// A UTxO entry as bytes of the given era (Byron: `[[#6.24(payload), crc], amount]`).
pub fn utxo_out_view(byron_era: bool, bytes: &[u8]) -> Option<OutView> {
    let n = refcbor::parse_one(bytes).ok()?;
    if byron_era {
        let items = n.as_array()?;
        let mut v = ValueView::default();
        v.coin = BigInt::from(items.get(1)?.as_u64()?);
        Some(OutView { addr: items[0].to_vec(), value: v, byron: true })
    } else {
        out_view(&n)
    }
}

/// View of a post-Byron transaction `[body, witness_set, is_valid, aux / null]`.
pub struct TxView<'a> {
    pub bytes: &'a [u8],
    pub root: Node,
}

impl<'a> TxView<'a> {
    pub fn parse(bytes: &'a [u8]) -> Option<TxView<'a>> {
        let root = refcbor::parse_one(bytes).ok()?;
        if root.as_array()?.len() != 4 {
            return None;
        }
        Some(TxView { bytes, root })
    }
    fn part(&self, i: usize) -> &Node {
        &self.root.as_array().unwrap()[i]
    }
    pub fn body(&self) -> &Node {
        self.part(0)
    }
    pub fn wits(&self) -> &Node {
        self.part(1)
    }
    pub fn body_bytes(&self) -> &'a [u8] {
        self.body().span(self.bytes)
    }
    /// Transaction id: Blake2b-256 of the body bytes as on the wire.
    pub fn tx_id(&self) -> [u8; 32] {
        blake2b_256(self.body_bytes())
    }
    /// The ledger's transaction size: the serialized transaction without the
    /// phase-2 validity flag = array head (1) + body + witness set + (aux data | null).
    pub fn ledger_size(&self) -> u64 {
        let len = |n: &Node| (n.end - n.start) as u64;
        1 + len(self.part(0)) + len(self.part(1)) + len(self.part(3))
    }
    pub fn body_has(&self, key: u64) -> bool {
        self.body().map_get(key).is_some()
    }
    fn input_list(&self, key: u64) -> Vec<([u8; 32], u64)> {
        let Some(n) = self.body().map_get(key) else { return vec![] };
        let n = n.untagged();
        let mut v = vec![];
        if let Some(items) = n.as_array() {
            for i in items {
                if let Some(a) = i.as_array() {
                    if let (Some(h), Some(ix)) = (a.first().and_then(|x| x.as_bytes()), a.get(1).and_then(|x| x.as_u64())) {
                        if let Ok(h) = <[u8; 32]>::try_from(h) {
                            v.push((h, ix));
                        }
                    }
                }
            }
        }
        v
    }
    pub fn inputs(&self) -> Vec<([u8; 32], u64)> {
        self.input_list(0)
    }
    pub fn collateral(&self) -> Vec<([u8; 32], u64)> {
        self.input_list(13)
    }
    pub fn outputs(&self) -> Option<Vec<OutView>> {
        self.body().map_get(1)?.as_array()?.iter().map(out_view).collect()
    }
    pub fn fee(&self) -> Option<BigInt> {
        Some(BigInt::from(self.body().map_get(2)?.as_u64()?))
    }
    pub fn mint(&self) -> Option<BTreeMap<AssetId, BigInt>> {
        let mut m = BTreeMap::new();
        if let Some(n) = self.body().map_get(9) {
            for (p, a) in n.as_map()? {
                for (name, q) in a.as_map()? {
                    *m.entry((p.as_bytes()?, name.as_bytes()?)).or_default() += BigInt::from(q.as_i128()?);
                }
            }
        }
        Some(m)
    }
    pub fn required_signers(&self) -> Vec<Vec<u8>> {
        self.body().map_get(14).map(|n| n.untagged()).and_then(|n| n.as_array()).map(|a| a.iter().filter_map(|x| x.as_bytes()).collect()).unwrap_or_default()
    }
    /// (vkey, signature) pairs of witness-set field 0.
    pub fn vkey_witnesses(&self) -> Vec<(Vec<u8>, Vec<u8>)> {
        self.wits()
            .map_get(0)
            .map(|n| n.untagged())
            .and_then(|n| n.as_array())
            .map(|a| a.iter().filter_map(|w| w.as_array().and_then(|p| Some((p.first()?.as_bytes()?, p.get(1)?.as_bytes()?)))).collect())
            .unwrap_or_default()
    }
    /// Does the witness set carry Plutus scripts (fields 3, 6, 7 non-empty)?
    pub fn has_plutus_scripts(&self) -> bool {
        [3u64, 6, 7].iter().any(|k| self.wits().map_get(*k).map(|n| n.untagged()).and_then(|n| n.as_array()).map(|a| !a.is_empty()).unwrap_or(false))
    }
    /// (mem, steps) of every redeemer, list form or map form.
    pub fn redeemer_budgets(&self) -> Option<(Vec<(u64, u64)>, &'static str)> {
        let n = self.wits().map_get(5)?;
        let ex = |e: &Node| -> Option<(u64, u64)> {
            let a = e.as_array()?;
            Some((a.first()?.as_u64()?, a.get(1)?.as_u64()?))
        };
        match &n.kind {
            Kind::Array(items, _) => Some((items.iter().filter_map(|r| ex(r.as_array()?.get(3)?)).collect(), "list")),
            Kind::Map(items, _) => Some((items.iter().filter_map(|(_, v)| ex(v.as_array()?.get(1)?)).collect(), "map")),
            _ => None,
        }
    }
}

pub fn key_hash(vkey: &[u8]) -> [u8; 28] {
    blake2b_224(vkey)
}

/// View of a Byron `[tx, witnesses]` payload.
pub struct ByronView {
    pub inputs: Vec<([u8; 32], u64)>,
    pub outputs: Vec<BigInt>,
    /// |tx| + |witnesses|
    pub size: u64,
}

pub fn byron_view(bytes: &[u8]) -> Option<ByronView> {
    let root = refcbor::parse_one(bytes).ok()?;
    let parts = root.as_array()?;
    let tx = parts.first()?.as_array()?;
    let mut inputs = vec![];
    for i in tx.first()?.as_array()? {
        let a = i.as_array()?;
        if a.first()?.as_u64()? == 0 {
            let inner = refcbor::parse_one(&a.get(1)?.untagged().as_bytes()?).ok()?;
            let p = inner.as_array()?;
            inputs.push((<[u8; 32]>::try_from(p.first()?.as_bytes()?).ok()?, p.get(1)?.as_u64()?));
        }
    }
    let mut outputs = vec![];
    for o in tx.get(1)?.as_array()? {
        outputs.push(BigInt::from(o.as_array()?.get(1)?.as_u64()?));
    }
    let size = ((parts[0].end - parts[0].start) + (parts.get(1)?.end - parts[1].start)) as u64;
    Some(ByronView { inputs, outputs, size })
}
