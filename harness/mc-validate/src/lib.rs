//! mc-validate — TxLab: a generator of *signable* transactions for checking
//! `pallas_validate::phase1::validate_tx` (properties C33..C39).
//!
//! Layout (library, so that further checks can be stacked on it):
//!
//! * [`keys`]    three fixed Ed25519 keys (ed25519-dalek), Blake2b-224 key hashes
//! * [`params`]  protocol parameters per era, copied from pallas-validate/tests
//! * [`txlab`]   the transaction / environment model (`Case`), addresses, scripts,
//!               the CBOR builder (mc_core::refcbor only) and `Built`
//! * [`byron`]   the small Byron generator (own model, same `Built`)
//! * [`bases`]   accepted base transactions B1/B2/B3 per era
//! * [`devs`]    deviations ("mutators"): closures over `Case`, grouped by dimension
//! * [`wire`]    independent reading of the built bytes (refcbor spans): tx id,
//!               ledger size, balance, witnesses, redeemers — input of every oracle
//! * [`exec`]    decoding with pallas-traverse and calling the real validator
//! * [`explore`] enumeration of base x {single, pair} deviations and the shared sweep
//! * [`rulemodel`] independent model of the rule x era table of DESIGN.md Appendix B (C38)
//! * [`checks`]  c33 .. c39

pub mod bases;
pub mod byron;
pub mod checks;
pub mod devs;
pub mod exec;
pub mod explore;
pub mod keys;
pub mod params;
pub mod rulemodel;
pub mod txlab;
pub mod wire;

/// pallas-validate has a stray `dbg!` (babbage check_minting) that writes to
/// stderr on every minting case; the explorers run with stderr pointed at
/// /dev/null and restore it before anything is reported.
pub mod quiet {
    use std::sync::atomic::{AtomicI32, Ordering};
    static SAVED: AtomicI32 = AtomicI32::new(-1);

    pub fn silence_stderr() {
        // VERIF_NOQUIET=1 keeps stderr (debugging a panic of the harness itself)
        if SAVED.load(Ordering::SeqCst) >= 0 || std::env::var_os("VERIF_NOQUIET").is_some() {
            return;
        }
        unsafe {
            let saved = libc::dup(2);
            let null = libc::open(b"/dev/null\0".as_ptr() as *const libc::c_char, libc::O_WRONLY);
            if saved >= 0 && null >= 0 {
                libc::dup2(null, 2);
                libc::close(null);
                SAVED.store(saved, Ordering::SeqCst);
            }
        }
    }

    pub fn restore_stderr() {
        let saved = SAVED.swap(-1, Ordering::SeqCst);
        if saved >= 0 {
            unsafe {
                libc::dup2(saved, 2);
                libc::close(saved);
            }
        }
    }
}

/// Machinery failure (exit 2) with stderr restored first.
pub fn fail(msg: &str) -> ! {
    quiet::restore_stderr();
    mc_core::report::machinery_failure(msg)
}
