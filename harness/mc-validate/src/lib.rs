//! mc-validate — TxLab: a generator of *signable* transactions for checking
//! `pallas_validate::phase1::validate_tx` (properties C33..C39).
//!
//! Layout (library, so that further checks can be stacked on it):
//!
//! * [`keys`]    three fixed Ed25519 keys (ed25519-dalek), Blake2b-224 key hashes
//! * [`params`]  protocol parameters per era, copied from pallas-validate/tests
//! * [`txlab`]   the transaction / environment model (`Case`), addresses, scripts,
//!               the CBOR builder (mc_core::refcbor only) and `Built`
//! * [`byron`]   the small Byron generator (own model, same `Built`)
//! * [`bases`]   accepted base transactions B1/B2/B3 per era
//! * [`devs`]    deviations ("mutators"): closures over `Case`, grouped by dimension
//! * [`wire`]    independent reading of the built bytes (refcbor spans): tx id,
//!               ledger size, balance, witnesses, redeemers — input of every oracle
//! * [`exec`]    decoding with pallas-traverse and calling the real validator
//! * [`explore`] enumeration of base x {single, pair} deviations and the shared sweep
//! * [`checks`]  c33 .. c37

pub mod bases;
pub mod byron;
pub mod checks;
pub mod devs;
pub mod exec;
pub mod explore;
pub mod keys;
pub mod params;
pub mod txlab;
pub mod wire;
