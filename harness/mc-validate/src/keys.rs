//! Three Ed25519 keys from fixed seeds. Signing and the oracle's verification
//! use ed25519-dalek; key hashes use mc_core's own Blake2b.

use ed25519_dalek::{Signature, Signer, SigningKey, Verifier, VerifyingKey};
use mc_core::blake2b::blake2b_224;

pub const NKEYS: usize = 3;

#[derive(Clone)]
pub struct Key {
    pub id: usize,
    sk: SigningKey,
    pub vk: [u8; 32],
    pub hash: [u8; 28],
}

impl Key {
    pub fn sign(&self, msg: &[u8]) -> [u8; 64] {
        self.sk.sign(msg).to_bytes()
    }
    /// Byron "extended" public key: the Ed25519 key followed by a fixed chain code.
    pub fn xpub(&self) -> [u8; 64] {
        let mut x = [0u8; 64];
        x[..32].copy_from_slice(&self.vk);
        for (i, b) in x[32..].iter_mut().enumerate() {
            *b = 0xC0 ^ (self.id as u8) ^ (i as u8);
        }
        x
    }
}

/// K0, K1: owners of the UTxO alphabet; K2: the unrelated key.
pub fn key(id: usize) -> Key {
    static KEYS: std::sync::OnceLock<Vec<Key>> = std::sync::OnceLock::new();
    KEYS.get_or_init(|| {
        (0..NKEYS)
            .map(|id| {
                let seed = [0x11u8 * (id as u8 + 1); 32];
                let sk = SigningKey::from_bytes(&seed);
                let vk = sk.verifying_key().to_bytes();
                Key { id, sk, vk, hash: blake2b_224(&vk) }
            })
            .collect()
    })[id]
        .clone()
}

pub fn keys() -> Vec<Key> {
    (0..NKEYS).map(key).collect()
}

/// Independent verification (RFC 8032 as implemented by dalek). Wrong lengths
/// and invalid points are simply "not a valid signature".
pub fn verify(vk: &[u8], msg: &[u8], sig: &[u8]) -> bool {
    let Ok(vk32) = <[u8; 32]>::try_from(vk) else { return false };
    let Ok(sig64) = <[u8; 64]>::try_from(sig) else { return false };
    let Ok(vk) = VerifyingKey::from_bytes(&vk32) else { return false };
    vk.verify(msg, &Signature::from_bytes(&sig64)).is_ok()
}
