use mc_validate::checks;

fn main() {
    let ctx = mc_core::Ctx::from_args();
    match ctx.prop.as_str() {
        "C33" => checks::c33::run(ctx),
        "C34" => checks::c34::run(ctx),
        "C35" => checks::c35::run(ctx),
        "C36" => checks::c36::run(ctx),
        "C37" => checks::c37::run(ctx),
        "SPELLINGS" => checks::spellings(ctx),
        "C38" => checks::c38::run(ctx),
        "C39" => checks::c39::run(ctx),
        p => mc_core::report::machinery_failure(&format!("mc-validate does not serve {p} yet")),
    }
}
