//! The small Byron generator: inputs, outputs, pk / redeem witnesses.
//! Wire format built with refcbor only; address roots use SHA3-256 (cryptoxide)
//! and the harness' own Blake2b.

use crate::devs::Dev;
use crate::keys;
use crate::params;
use crate::txlab::{Built, Era, FeeSpec, InRef, SizeSpec, UtxoEntry};
use cryptoxide::hashing::sha3_256;
use mc_core::blake2b::{blake2b_224, blake2b_256};
use mc_core::misc::crc32;
use mc_core::refcbor::Node;

#[derive(Clone, Debug, PartialEq)]
pub enum BAddr {
    /// public-key address of key k (spending data = 64-byte extended key)
    Key(usize),
    /// redeem address of key k (32-byte key)
    Redeem(usize),
    /// public-key address made for a 31-byte "key"
    ShortKey,
}

fn spending(addr: &BAddr) -> (u64, Vec<u8>) {
    match addr {
        BAddr::Key(k) => (0, keys::key(*k).xpub().to_vec()),
        BAddr::Redeem(k) => (2, keys::key(*k).vk.to_vec()),
        BAddr::ShortKey => (0, keys::key(2).xpub()[..31].to_vec()),
    }
}

pub fn address_node_of(addr: &BAddr) -> Node {
    let (ty, sd) = spending(addr);
    let pre = Node::array(vec![Node::uint(ty), Node::array(vec![Node::uint(ty), Node::bytes(&sd)]), Node::map(vec![])]).to_vec();
    let root = blake2b_224(&sha3_256(&pre));
    let payload = Node::array(vec![Node::bytes(&root), Node::map(vec![]), Node::uint(ty)]).to_vec();
    Node::array(vec![Node::tag(24, Node::bytes(&payload)), Node::uint(crc32(&payload) as u64)])
}

pub fn address_node(k: usize) -> Node {
    address_node_of(&BAddr::Key(k))
}

#[derive(Clone, Debug, PartialEq, Eq, PartialOrd, Ord)]
pub enum BWit {
    Valid(usize),
    CorruptSig(usize),
    WrongLenSig(usize),
    /// 31-byte key (matches BAddr::ShortKey) with a 64-byte signature
    ShortKey,
    RedeemValid(usize),
    RedeemCorrupt(usize),
    /// script witness (type 1)
    Script,
}

impl BWit {
    pub fn show(&self) -> String {
        match self {
            BWit::Valid(k) => format!("V{k}"),
            BWit::CorruptSig(k) => format!("C{k}"),
            BWit::WrongLenSig(k) => format!("WLS{k}"),
            BWit::ShortKey => "SHORTKEY".into(),
            BWit::RedeemValid(k) => format!("RV{k}"),
            BWit::RedeemCorrupt(k) => format!("RC{k}"),
            BWit::Script => "SCRIPT".into(),
        }
    }
    fn node(&self, tx_hash: &[u8; 32], magic: u32) -> Node {
        let msg = |tag: u8| {
            let mut m = vec![tag];
            m.extend(Node::uint(magic as u64).to_vec());
            m.extend(Node::bytes(tx_hash).to_vec());
            m
        };
        let wrap = |ty: u64, pk: Vec<u8>, sig: Vec<u8>| Node::array(vec![Node::uint(ty), Node::tag(24, Node::bytes(&Node::array(vec![Node::bytes(&pk), Node::bytes(&sig)]).to_vec()))]);
        match self {
            BWit::Valid(k) => wrap(0, keys::key(*k).xpub().to_vec(), keys::key(*k).sign(&msg(1)).to_vec()),
            BWit::CorruptSig(k) => {
                let mut s = keys::key(*k).sign(&msg(1)).to_vec();
                s[0] ^= 1;
                wrap(0, keys::key(*k).xpub().to_vec(), s)
            }
            BWit::WrongLenSig(k) => wrap(0, keys::key(*k).xpub().to_vec(), keys::key(*k).sign(&msg(1))[..63].to_vec()),
            BWit::ShortKey => wrap(0, keys::key(2).xpub()[..31].to_vec(), keys::key(2).sign(&msg(1)).to_vec()),
            BWit::RedeemValid(k) => wrap(2, keys::key(*k).vk.to_vec(), keys::key(*k).sign(&msg(2)).to_vec()),
            BWit::RedeemCorrupt(k) => {
                let mut s = keys::key(*k).sign(&msg(2)).to_vec();
                s[0] ^= 1;
                wrap(2, keys::key(*k).vk.to_vec(), s)
            }
            BWit::Script => Node::array(vec![
                Node::uint(1),
                Node::tag(24, Node::bytes(&Node::array(vec![Node::array(vec![Node::uint(0), Node::bytes(&[1])]), Node::array(vec![Node::uint(0), Node::bytes(&[2])])]).to_vec())),
            ]),
        }
    }
}

#[derive(Clone, Debug, PartialEq)]
pub enum BCoin {
    Fixed(u64),
    /// inputs - other outputs - fee, fee = summand + multiplier * (|tx| + |witnesses|) + d (or exact)
    Change(FeeSpec),
}

#[derive(Clone, Debug, PartialEq)]
pub struct ByronCase {
    pub base: String,
    pub devs: Vec<String>,
    pub inputs: Vec<InRef>,
    pub outputs: Vec<(BAddr, BCoin)>,
    pub wits: Vec<BWit>,
    /// inputs / outputs as indefinite-length arrays (as on mainnet)
    pub indef: bool,
    pub utxo: Vec<(InRef, BAddr, u64)>,
    pub magic: u32,
    pub max_tx_size: SizeSpec,
    /// the environment carries an account state (Byron does not need one)
    pub with_account_state: bool,
}

impl ByronCase {
    pub fn label(&self) -> String {
        if self.devs.is_empty() {
            format!("byron/{}", self.base)
        } else {
            format!("byron/{} + {}", self.base, self.devs.join(" + "))
        }
    }
}

fn txin_node(i: &InRef) -> Node {
    Node::array(vec![Node::uint(0), Node::tag(24, Node::bytes(&i.node().to_vec()))])
}

fn tx_node(c: &ByronCase, change: u64) -> Node {
    let ins: Vec<Node> = c.inputs.iter().map(txin_node).collect();
    let outs: Vec<Node> = c
        .outputs
        .iter()
        .map(|(a, v)| {
            Node::array(vec![
                address_node_of(a),
                Node::uint(match v {
                    BCoin::Fixed(x) => *x,
                    BCoin::Change(_) => change,
                }),
            ])
        })
        .collect();
    if c.indef {
        Node::array(vec![Node::array_indef(ins), Node::array_indef(outs), Node::map(vec![])])
    } else {
        Node::array(vec![Node::array(ins), Node::array(outs), Node::map(vec![])])
    }
}

/// Size the Byron fee is computed over by this harness: |tx| + |witnesses|.
pub fn build(c: &ByronCase) -> Built {
    let in_sum: u128 = c.inputs.iter().map(|i| c.utxo.iter().find(|u| u.0 == *i).map(|u| u.2 as u128).unwrap_or(0)).sum();
    let fixed: u128 = c.outputs.iter().map(|(_, v)| if let BCoin::Fixed(x) = v { *x as u128 } else { 0 }).sum();
    let spec = c.outputs.iter().find_map(|(_, v)| if let BCoin::Change(f) = v { Some(*f) } else { None });
    let zero = [0u8; 32];
    let wits_len = Node::array(c.wits.iter().map(|w| w.node(&zero, c.magic)).collect()).to_vec().len() as u64;
    let mut change: u64 = 0;
    let mut size = 0u64;
    for _ in 0..8 {
        let tx = tx_node(c, change).to_vec();
        size = tx.len() as u64 + wits_len;
        let fee = match spec {
            Some(FeeSpec::Exact(f)) => f,
            Some(FeeSpec::MinPlus(d)) => ((params::MINFEE_B + params::MINFEE_A * size) as i128 + d as i128).max(0) as u64,
            None => 0,
        };
        let want = in_sum.saturating_sub(fixed).saturating_sub(fee as u128).min(u64::MAX as u128) as u64;
        if want == change {
            break;
        }
        change = want;
    }
    let tx = tx_node(c, change);
    let tx_hash = blake2b_256(&tx.to_vec());
    let wits = Node::array(c.wits.iter().map(|w| w.node(&tx_hash, c.magic)).collect());
    let payload = Node::array(vec![tx, wits]).to_vec();
    let utxo = c
        .utxo
        .iter()
        .map(|(at, a, v)| UtxoEntry { tx_id: at.tx_id(), ix: at.ix, era: Era::Byron, bytes: Node::array(vec![address_node_of(a), Node::uint(*v)]).to_vec() })
        .collect();
    let max_tx_size = match c.max_tx_size {
        SizeSpec::Default => params::numbers(Era::Byron).max_tx_size,
        SizeSpec::Exact(x) => x,
        SizeSpec::LedgerPlus(d) => (size as i64 + d).max(0) as u64,
    };
    Built {
        era: Era::Byron,
        label: c.label(),
        tx: payload,
        utxo,
        params_era: Era::Byron,
        max_tx_size,
        slot: params::numbers(Era::Byron).default_slot,
        network_id: 1,
        magic: c.magic,
        account_state: c.with_account_state,
    }
}

pub const IN0: InRef = InRef::new(0, 0);
pub const IN1: InRef = InRef::new(0, 1);
pub const IN_MISSING: InRef = InRef::new(2, 0);

pub fn bases() -> Vec<ByronCase> {
    let b1 = ByronCase {
        base: "B1-payment".into(),
        devs: vec![],
        inputs: vec![IN0],
        outputs: vec![(BAddr::Key(2), BCoin::Fixed(2_000_000)), (BAddr::Key(0), BCoin::Change(FeeSpec::MinPlus(1000)))],
        wits: vec![BWit::Valid(0)],
        indef: true,
        utxo: vec![(IN0, BAddr::Key(0), 10_000_000), (IN1, BAddr::Key(1), 5_000_000)],
        magic: params::MAINNET_MAGIC,
        max_tx_size: SizeSpec::Default,
        with_account_state: false,
    };
    let mut b1r = b1.clone();
    b1r.base = "B1r-redeem".into();
    b1r.utxo = vec![(IN0, BAddr::Redeem(0), 10_000_000), (IN1, BAddr::Redeem(1), 5_000_000)];
    b1r.wits = vec![BWit::RedeemValid(0)];
    // two inputs, each witnessed by its own key: pk + pk, pk + redeem (either order), redeem + redeem.
    // The fee exemption of the Byron ledger holds only when EVERY input is a redeem address.
    let two = |name: &str, a0: BAddr, a1: BAddr| {
        let mut c = b1.clone();
        c.base = name.into();
        c.inputs = vec![IN0, IN1];
        let w = |a: &BAddr| match a {
            BAddr::Redeem(k) => BWit::RedeemValid(*k),
            BAddr::Key(k) => BWit::Valid(*k),
            BAddr::ShortKey => BWit::ShortKey,
        };
        c.wits = vec![w(&a0), w(&a1)];
        c.utxo = vec![(IN0, a0, 10_000_000), (IN1, a1, 5_000_000)];
        c
    };
    vec![
        b1.clone(),
        b1r,
        two("B2-two-pk-inputs", BAddr::Key(0), BAddr::Key(1)),
        two("B2m-pk+redeem-inputs", BAddr::Key(0), BAddr::Redeem(1)),
        two("B2n-redeem+pk-inputs", BAddr::Redeem(0), BAddr::Key(1)),
        two("B2r-two-redeem-inputs", BAddr::Redeem(0), BAddr::Redeem(1)),
    ]
}

fn is_redeem(a: &BAddr) -> bool {
    matches!(a, BAddr::Redeem(_))
}

/// Witness alphabet of a base: for every input owner its valid and corrupted
/// witness (of the address' own type), the valid witness of the OTHER type for
/// the first owner, an unrelated valid and corrupt one, and (pk only) the
/// wrong-length signature and the short key.
pub fn witness_alphabet(base: &ByronCase) -> Vec<BWit> {
    let mut v: Vec<BWit> = vec![];
    let mut push = |w: BWit| {
        if !v.contains(&w) {
            v.push(w)
        }
    };
    let owners: Vec<&BAddr> = base.inputs.iter().filter_map(|i| base.utxo.iter().find(|u| u.0 == *i).map(|u| &u.1)).collect();
    for a in &owners {
        match a {
            BAddr::Redeem(k) => {
                push(BWit::RedeemValid(*k));
                push(BWit::RedeemCorrupt(*k));
            }
            BAddr::Key(k) => {
                push(BWit::Valid(*k));
                push(BWit::CorruptSig(*k));
            }
            BAddr::ShortKey => push(BWit::ShortKey),
        }
    }
    let any_redeem = owners.iter().any(|a| is_redeem(a));
    let any_pk = owners.iter().any(|a| !is_redeem(a));
    if any_redeem {
        push(BWit::RedeemValid(2));
        push(BWit::RedeemCorrupt(2));
    }
    if any_pk {
        push(BWit::Valid(2));
        push(BWit::CorruptSig(2));
    }
    match owners.first() {
        Some(BAddr::Redeem(k)) => push(BWit::Valid(*k)),
        Some(BAddr::Key(k)) if owners.len() > 1 => push(BWit::RedeemValid(*k)),
        _ => {}
    }
    if owners.len() == 1 && any_pk {
        push(BWit::WrongLenSig(0));
        push(BWit::ShortKey);
    }
    v
}

pub fn deviations(base: &ByronCase, max_wits: usize) -> Vec<Dev<ByronCase>> {
    let mut d: Vec<Dev<ByronCase>> = vec![];
    let two = base.inputs.len() > 1;
    let in_sum: u64 = base.inputs.iter().filter_map(|i| base.utxo.iter().find(|u| u.0 == *i).map(|u| u.2)).sum();
    let t0 = base.utxo.first().map(|u| is_redeem(&u.1)).unwrap_or(false);
    let t1 = base.utxo.get(1).map(|u| is_redeem(&u.1)).unwrap_or(false);
    let own = |redeem: bool, k: usize| if redeem { BAddr::Redeem(k) } else { BAddr::Key(k) };
    // outputs
    for (name, v) in [("0", 0u64), ("1", 1), ("inputs", in_sum), ("inputs+1", in_sum + 1), ("2^63", 1 << 63), ("2^64-1", u64::MAX)] {
        d.push(Dev::new(format!("out0={name}"), "out0", move |c: &mut ByronCase| if let Some(o) = c.outputs.get_mut(0) { o.1 = BCoin::Fixed(v) }));
        d.push(Dev::new(format!("change={name}"), "fee", move |c: &mut ByronCase| if let Some(o) = c.outputs.get_mut(1) { o.1 = BCoin::Fixed(v) }));
    }
    for (name, f) in [("min-1", FeeSpec::MinPlus(-1)), ("min", FeeSpec::MinPlus(0)), ("min+1", FeeSpec::MinPlus(1)), ("0", FeeSpec::Exact(0)), ("1", FeeSpec::Exact(1))] {
        d.push(Dev::new(format!("fee={name}"), "fee", move |c: &mut ByronCase| if let Some(o) = c.outputs.get_mut(1) { o.1 = BCoin::Change(f) }));
    }
    d.push(Dev::new("outputs=[]", "outs", |c: &mut ByronCase| c.outputs.clear()));
    d.push(Dev::new("outputs+=K1:1000000", "outs+", |c: &mut ByronCase| c.outputs.push((BAddr::Key(1), BCoin::Fixed(1_000_000)))));
    d.push(Dev::new("outputs+=K1:2^64-1", "outs+", |c: &mut ByronCase| c.outputs.push((BAddr::Key(1), BCoin::Fixed(u64::MAX)))));
    // inputs
    d.push(Dev::new("inputs=[]", "ins", |c: &mut ByronCase| c.inputs.clear()));
    d.push(Dev::new("inputs=[missing]", "ins", |c: &mut ByronCase| c.inputs = vec![IN_MISSING]));
    d.push(Dev::new("inputs+=missing", "ins", |c: &mut ByronCase| c.inputs.push(IN_MISSING)));
    d.push(Dev::new("inputs+=dup", "ins", |c: &mut ByronCase| c.inputs.push(IN0)));
    if two {
        d.push(Dev::new("inputs=[T0#0]", "ins", |c: &mut ByronCase| c.inputs = vec![IN0]));
        d.push(Dev::new("inputs=[T0#1]", "ins", |c: &mut ByronCase| c.inputs = vec![IN1]));
        d.push(Dev::new("inputs=reversed", "ins", |c: &mut ByronCase| c.inputs.reverse()));
        d.push(Dev::new("inputs+=dup(T0#1)", "ins", |c: &mut ByronCase| c.inputs.push(IN1)));
    } else {
        d.push(Dev::new("inputs+=T0#1", "ins", |c: &mut ByronCase| c.inputs.push(IN1)));
    }
    // UTxO
    for (name, v) in [("0", 0u64), ("2^63", 1 << 63), ("2^64-1", u64::MAX)] {
        d.push(Dev::new(format!("utxo[T0#0].coin={name}"), "utxo0", move |c: &mut ByronCase| if let Some(u) = c.utxo.get_mut(0) { u.2 = v }));
        d.push(Dev::new(format!("utxo[T0#1].coin={name}"), "utxo1", move |c: &mut ByronCase| if let Some(u) = c.utxo.get_mut(1) { u.2 = v }));
    }
    d.push(Dev::new("utxo[T0#0].addr=K1", "utxo0a", move |c: &mut ByronCase| if let Some(u) = c.utxo.get_mut(0) { u.1 = own(t0, 1) }));
    d.push(Dev::new("utxo[T0#0].addr=shortkey", "utxo0a", |c: &mut ByronCase| if let Some(u) = c.utxo.get_mut(0) { u.1 = BAddr::ShortKey }));
    d.push(Dev::new("utxo[T0#0].addr=other-type", "utxo0a", move |c: &mut ByronCase| if let Some(u) = c.utxo.get_mut(0) { u.1 = own(!t0, 0) }));
    d.push(Dev::new("utxo[T0#1].addr=other-type", "utxo1a", move |c: &mut ByronCase| if let Some(u) = c.utxo.get_mut(1) { u.1 = own(!t1, 1) }));
    d.push(Dev::new("utxo[T0#1].addr=K0", "utxo1a", move |c: &mut ByronCase| if let Some(u) = c.utxo.get_mut(1) { u.1 = own(t1, 0) }));
    d.push(Dev::new("utxo=[]", "utxo", |c: &mut ByronCase| c.utxo.clear()));
    // environment
    d.push(Dev::new("magic=1", "magic", |c: &mut ByronCase| c.magic = 1));
    d.push(Dev::new("max_tx_size=size-1", "maxsize", |c: &mut ByronCase| c.max_tx_size = SizeSpec::LedgerPlus(-1)));
    d.push(Dev::new("max_tx_size=size", "maxsize", |c: &mut ByronCase| c.max_tx_size = SizeSpec::LedgerPlus(0)));
    d.push(Dev::new("account-state=present", "acnt", |c: &mut ByronCase| c.with_account_state = true));
    d.push(Dev::new("arrays=definite", "form", |c: &mut ByronCase| c.indef = false));
    // witnesses: every list up to max_wits over the alphabet, in every order
    let alpha = witness_alphabet(base);
    for l in crate::devs::lists(&alpha, max_wits) {
        if l == base.wits {
            continue;
        }
        let name = format!("wits=[{}]", l.iter().map(|w| w.show()).collect::<Vec<_>>().join(","));
        let n = l.len();
        d.push(Dev::new(name, "wits", move |c: &mut ByronCase| c.wits = l.clone()).sized(n));
    }
    d.push(Dev::new("wits+=script", "wits+", |c: &mut ByronCase| c.wits.push(BWit::Script)));
    d.push(Dev::new("wits+=WLS0", "wits+", |c: &mut ByronCase| c.wits.push(BWit::WrongLenSig(0))));
    d
}
