//! C23 — pallas-network agents follow the mini-protocol state machines.
//! SEQ: for every mini-protocol and role, BFS (to fixpoint) over histories of
//! the agent's public high-level operations, each history replayed on a fresh
//! real agent joined to a raw peer through two real Plexers (rig of mc-net1).
//! At every reached state and for every message variant: send / receive
//! acceptance is compared with the specification table, the state after every
//! operation with the specification state after exactly the messages the
//! agent sent (read back from the wire) plus the injected messages it consumed
//! (counted through the bounded demultiplexer->agent queue): an allowed
//! consumed message moves the state as the table says, a forbidden one moves
//! nothing.

use crate::agents::*;
use crate::engine::{replay, run_agent, AgentReport, Event, Probe, Spec};
use mc_core::{cov, json, Ctx, Level, Value};
use rayon::prelude::*;

type Runner = fn(bool) -> AgentReport;

fn runners() -> Vec<Runner> {
    vec![
        run_agent::<HsN2nClient>,
        run_agent::<HsN2nServer>,
        run_agent::<HsN2cClient>,
        run_agent::<HsN2cServer>,
        run_agent::<CsN2nClient>,
        run_agent::<CsN2nServer>,
        run_agent::<CsN2cClient>,
        run_agent::<CsN2cServer>,
        run_agent::<BfClient>,
        run_agent::<BfServer>,
        run_agent::<TxsClient>,
        run_agent::<TxsServer>,
        run_agent::<KaClient>,
        run_agent::<KaServer>,
        run_agent::<PsClient>,
        run_agent::<PsServer>,
        run_agent::<LsClient>,
        run_agent::<LsServer>,
        run_agent::<LtsClient>,
        run_agent::<LtsServer>,
        run_agent::<TmClient>,
    ]
}

fn replay_case<S: Spec>(case: &Value) -> bool {
    if case["protocol"].as_str() != Some(S::LABEL) || case["role"].as_str() != Some(S::ROLE.name()) {
        return false;
    }
    let vars = S::variants();
    let ops = S::ops();
    let mut hist = vec![];
    for e in case["history"].as_array().cloned().unwrap_or_default() {
        let op = ops.iter().position(|o| Some(o.name) == e["op"].as_str()).expect("op name");
        let inj = e["peer_injects"].as_array().cloned().unwrap_or_default().iter().map(|n| vars.iter().position(|v| Some(v.name) == n.as_str()).expect("variant")).collect();
        hist.push(Event { op, inj, cancel: e["cancelled_after_request"].as_bool().unwrap_or(false) });
    }
    println!("replay C23 {} {}: kind={} table_state={} message={} then={}", S::LABEL, S::ROLE.name(), case["kind"], case["table_state"], case["message"], case["then"]);
    let find = |n: &Value| vars.iter().position(|v| Some(v.name) == n.as_str());
    let probe = if let Some(i) = find(&case["then"]["send_message"]) {
        Some(Probe::Send(i))
    } else if case["then"]["recv_message"].as_bool() == Some(true) {
        Some(Probe::Recv(find(&case["then"]["peer_injects"])))
    } else {
        None
    };
    match replay::<S>(&hist, probe.clone()) {
        None => println!("  history blocks"),
        Some(o) => {
            println!("  initial state class {}", o.init_class);
            for (e, s) in hist.iter().zip(o.steps.iter()) {
                println!("  {} inject {:?}{} -> {:?}, {} message(s) sent, state class {}", ops[e.op].name, e.inj.iter().map(|i| vars[*i].name).collect::<Vec<_>>(), if e.cancel { " (cancelled)" } else { "" }, s.ok.as_ref().map(|_| "Ok"), s.sent.len(), s.class);
            }
            if let Some(s) = &o.probe {
                println!("  then {:?} -> {:?}, {} message(s) sent, state class {}", probe, s.ok.as_ref().map(|_| "Ok"), s.sent.len(), s.class);
            }
        }
    }
    true
}

pub fn run(ctx: Ctx) -> ! {
    if let Some(p) = &ctx.replay {
        let v: Value = std::fs::read_to_string(p).ok().and_then(|s| serde_json::from_str(&s).ok()).unwrap_or_else(|| mc_core::report::machinery_failure(&format!("cannot read replay file {p:?}")));
        let c = &v["case"];
        let _ = replay_case::<HsN2nClient>(c)
            || replay_case::<HsN2nServer>(c)
            || replay_case::<HsN2cClient>(c)
            || replay_case::<HsN2cServer>(c)
            || replay_case::<CsN2nClient>(c)
            || replay_case::<CsN2nServer>(c)
            || replay_case::<CsN2cClient>(c)
            || replay_case::<CsN2cServer>(c)
            || replay_case::<BfClient>(c)
            || replay_case::<BfServer>(c)
            || replay_case::<TxsClient>(c)
            || replay_case::<TxsServer>(c)
            || replay_case::<KaClient>(c)
            || replay_case::<KaServer>(c)
            || replay_case::<PsClient>(c)
            || replay_case::<PsServer>(c)
            || replay_case::<LsClient>(c)
            || replay_case::<LsServer>(c)
            || replay_case::<LtsClient>(c)
            || replay_case::<LtsServer>(c)
            || replay_case::<TmClient>(c);
        std::process::exit(0);
    }
    let thorough = ctx.thorough;
    let reports: Vec<AgentReport> = runners().par_iter().map(|f| f(thorough)).collect();

    let mut states = 0usize;
    let mut transitions = 0usize;
    let mut traces = 0u64;
    let mut evaluations = 0u64;
    let mut outcomes = 0usize;
    let mut fixpoint = true;
    let mut per_agent = serde_json::Map::new();
    let mut samples: Vec<Value> = vec![];
    let mut disagreements: Vec<Value> = vec![];
    let mut machinery: Vec<String> = vec![];
    let mut diagnostics: Vec<Value> = vec![];
    let mut measured = 0u64;
    for r in &reports {
        measured += r.acc.measured;
        for (k, d) in &r.acc.diagnostics {
            diagnostics.push(json!({"id": k, "agent": format!("{}/{}", r.label, r.role), "what": d.0, "shortest_history": d.1, "witnesses": d.2}));
        }
        let name = format!("{}/{}", r.label, r.role);
        states += r.stats.states;
        transitions += r.stats.transitions + r.deep.as_ref().map(|d| d.transitions).unwrap_or(0);
        traces += r.acc.replays;
        evaluations += r.acc.ok_ops + r.acc.err_ops + r.acc.cancelled_ops + r.acc.probes;
        outcomes += r.acc.outcomes.len();
        fixpoint &= r.stats.fixpoint;
        machinery.extend(r.acc.machinery.iter().take(3).cloned());
        // vacuity guards
        if !r.stats.fixpoint {
            machinery.push(format!("{name}: BFS did not close (depth {}, {} states)", r.stats.max_depth, r.stats.states));
        }
        if r.reached.len() < 2 || r.acc.ok_ops == 0 || r.acc.err_ops == 0 || r.acc.outcomes.len() < 4 {
            machinery.push(format!("{name}: exploration is vacuous (reached {:?}, ok {}, err {}, outcomes {})", r.reached, r.acc.ok_ops, r.acc.err_ops, r.acc.outcomes.len()));
        }
        for (fp, f) in &r.acc.findings {
            let mut case = f.case.clone();
            case["witnesses"] = json!(f.count);
            ctx.violation(fp.clone(), f.what.clone(), case);
            disagreements.push(json!({"fingerprint": fp, "agent": name, "what": f.what, "witnesses": f.count, "shortest_history": f.case["history"], "then": f.case["then"]}));
        }
        if samples.len() < 8 {
            if let Some((e, op, to)) = r.acc.edges.iter().nth(r.acc.edges.len() / 2) {
                samples.push(json!({"agent": name, "from": e, "operation": op, "to": to}));
            }
        }
        per_agent.insert(
            name,
            json!({
                "table": r.family,
                "states": r.stats.states,
                "transitions": r.stats.transitions,
                "depth": r.stats.max_depth,
                "fixpoint": r.stats.fixpoint,
                "new_states_per_depth": r.stats.per_depth_new_states,
                "table_states_reached": r.reached,
                "table_states_not_reached_by_any_operation": r.unreached,
                "histories_executed": r.acc.replays,
                "operations_ok": r.acc.ok_ops,
                "operations_err": r.acc.err_ops,
                "operations_cancelled": r.acc.cancelled_ops,
                "operations_waiting_for_ever": r.acc.blocked,
                "probes": r.acc.probes,
                "consumption_measurements": r.acc.measured,
                "distinct_outcomes": r.acc.outcomes.len(),
                "clean_edges": r.acc.edges.len(),
                "unfolding": r.deep.as_ref().map(|d| json!({"depth": d.max_depth, "histories": d.states, "transitions": d.transitions, "capped": d.capped})),
                "matrix": r.matrix,
                "disagreements": r.acc.findings.keys().collect::<Vec<_>>(),
            }),
        );
    }
    if !machinery.is_empty() {
        mc_core::report::machinery_failure(&format!("C23: {}", machinery.join("; ")));
    }
    let cov = cov! {
        "states" => states,
        "transitions" => transitions,
        "traces_validated_against_impl" => traces,
        "samples" => samples,
        "fixpoint" => fixpoint,
        "agents" => reports.len(),
        "evaluations" => evaluations,
        "distinct_outcomes" => outcomes,
        "state_key" => "(class of agent.state(), specification state tracked by the harness); histories extend only through operations that leave nothing in flight",
        "matrix_legend" => "per reached specification state x message variant: 'send spec/impl ab recv spec/impl cd' with a = table lets this role send it, b = the agent accepted to send it (send_message, or some public operation where send_message is private), c = table lets the peer send it, d = the agent accepted to receive it",
        "per_agent" => Value::Object(per_agent),
        "disagreements" => disagreements,
        "consumption_measurements" => measured,
        "state_rule" => "after every operation (Ok, Err or dropped) state() must be the specification state after exactly the messages the agent put on the wire (read back from the raw side) plus the injected messages it took out of its channel (count measured through the bounded demultiplexer->agent queue); a consumed message the table allows moves the state as the table says, a consumed message the table forbids moves nothing; an operation that returned Ok must not have consumed a forbidden message",
        "diagnostics_not_demanded_by_the_property" => diagnostics,
        "tables" => "/verif/spec/net1_protocols.json",
    };
    ctx.finish(
        Level::ModelChecking,
        cov,
        &[
            "specification = tables of /verif/spec/net1_protocols.json (transcribed from the network specification, DESIGN.md Appendix A); message payloads are one value per variant",
            "default schedule of the owned scheduler (the quantifier is over histories, not schedules); tokio mpsc/duplex trusted",
            "state classes ignore payloads (keep-alive cookie, peer-sharing amount); the random keep-alive cookie is read back from the wire",
            "localmsgsubmission / localmsgnotification (DMQ) are outside the property's list of protocols",
        ],
    )
}
