//! Adapters: every client / server agent of pallas-network's mini-protocols
//! behind the `Spec` trait (constructors, one value per message variant, the
//! list of public high-level operations).

use crate::engine::{op, OpDesc, Spec, Variant, WireCtx};
use crate::spec::Side;
use pallas_codec::utils::AnyCbor;
use pallas_network::miniprotocols::{self as mp, blockfetch, chainsync, handshake, keepalive, localstate, localtxsubmission, peersharing, txmonitor, txsubmission, Point};
use pallas_network::multiplexer::AgentChannel;
use std::fmt::Debug;

fn r<T: Debug, E: Debug>(x: Result<T, E>) -> Result<String, String> {
    x.map(|v| format!("{v:?}")).map_err(|e| format!("{e:?}"))
}
fn ru<T, E: Debug>(x: Result<T, E>) -> Result<String, String> {
    x.map(|_| "ok".to_string()).map_err(|e| format!("{e:?}"))
}

macro_rules! pub_send {
    () => {
        const PUB_SEND: bool = true;
        async fn send_message(a: &mut Self::Agent, m: &Self::Msg) -> Result<(), String> {
            a.send_message(m).await.map_err(|e| format!("{e:?}"))
        }
    };
}
macro_rules! no_send {
    () => {
        const PUB_SEND: bool = false;
        async fn send_message(_a: &mut Self::Agent, _m: &Self::Msg) -> Result<(), String> {
            unreachable!("send_message is private")
        }
    };
}
macro_rules! pub_recv {
    () => {
        const PUB_RECV: bool = true;
        async fn recv_message(a: &mut Self::Agent) -> Result<Self::Msg, String> {
            a.recv_message().await.map_err(|e| format!("{e:?}"))
        }
    };
}
macro_rules! no_recv {
    () => {
        const PUB_RECV: bool = false;
        async fn recv_message(_a: &mut Self::Agent) -> Result<Self::Msg, String> {
            unreachable!("recv_message is private")
        }
    };
}
macro_rules! basics {
    ($agent:ty) => {
        fn new(ch: AgentChannel) -> Self::Agent {
            <$agent>::new(ch)
        }
        fn state(a: &Self::Agent) -> String {
            format!("{:?}", a.state())
        }
    };
}

fn v<M>(name: &'static str, make: fn(&WireCtx) -> M) -> Variant<M> {
    Variant { name, make, wire: None }
}

fn pt() -> Point {
    Point::Specific(5, vec![0xcd; 32])
}
fn pt2() -> Point {
    Point::Specific(9, vec![0xee; 32])
}

// ------------------------------------------------------------------ handshake

fn vt<D: Debug + Clone>(entries: Vec<(u64, D)>) -> handshake::VersionTable<D> {
    handshake::VersionTable { values: entries.into_iter().collect() }
}

macro_rules! handshake_agents {
    ($cli:ident, $srv:ident, $data:ty, $mk:expr, $ver:expr, $label:expr, $proto:expr) => {
        pub struct $cli;
        impl $cli {
            fn variants() -> Vec<Variant<handshake::Message<$data>>> {
                let mk: fn(u64) -> $data = $mk;
                let _ = mk;
                vec![
                    v("Propose", |_| handshake::Message::Propose(vt(vec![($ver, ($mk)(1))]))),
                    v("Accept", |_| handshake::Message::Accept($ver, ($mk)(1))),
                    v("Refuse", |_| handshake::Message::Refuse(handshake::RefuseReason::VersionMismatch(vec![$ver]))),
                    v("QueryReply", |_| handshake::Message::QueryReply(vt(vec![($ver, ($mk)(1))]))),
                ]
            }
        }
        impl Spec for $cli {
            type Agent = handshake::Client<$data>;
            type Msg = handshake::Message<$data>;
            const FAMILY: &'static str = "handshake";
            const LABEL: &'static str = $label;
            const ROLE: Side = Side::Client;
            const PROTO: u16 = $proto;
            basics!(handshake::Client<$data>);
            pub_send!();
            pub_recv!();
            fn variants() -> Vec<Variant<Self::Msg>> {
                $cli::variants()
            }
            fn ops() -> Vec<OpDesc> {
                vec![op("send_propose", 0, Some("Propose")), op("recv_while_confirm", 1, None), op("handshake", 1, Some("Propose"))]
            }
            async fn op(a: &mut Self::Agent, i: usize) -> Result<String, String> {
                let table = vt(vec![($ver, ($mk)(1))]);
                match i {
                    0 => r(a.send_propose(table).await),
                    1 => r(a.recv_while_confirm().await),
                    2 => r(a.handshake(table).await),
                    _ => unreachable!(),
                }
            }
        }
        pub struct $srv;
        impl Spec for $srv {
            type Agent = handshake::Server<$data>;
            type Msg = handshake::Message<$data>;
            const FAMILY: &'static str = "handshake";
            const LABEL: &'static str = $label;
            const ROLE: Side = Side::Server;
            const PROTO: u16 = $proto;
            basics!(handshake::Server<$data>);
            pub_send!();
            pub_recv!();
            fn variants() -> Vec<Variant<Self::Msg>> {
                $cli::variants()
            }
            fn ops() -> Vec<OpDesc> {
                vec![
                    op("receive_proposed_versions", 1, None),
                    op("accept_version", 0, Some("Accept")),
                    op("refuse", 0, Some("Refuse")),
                    op("handshake(same table)", 1, None),
                    op("handshake(other magic)", 1, None),
                    op("handshake(disjoint versions)", 1, None),
                ]
            }
            async fn op(a: &mut Self::Agent, i: usize) -> Result<String, String> {
                match i {
                    0 => r(a.receive_proposed_versions().await),
                    1 => r(a.accept_version($ver, ($mk)(1)).await),
                    2 => r(a.refuse(handshake::RefuseReason::Refused($ver, "no".into())).await),
                    3 => r(a.handshake(vt(vec![($ver, ($mk)(1))])).await),
                    4 => r(a.handshake(vt(vec![($ver, ($mk)(2))])).await),
                    5 => r(a.handshake(vt(vec![($ver + 1, ($mk)(1))])).await),
                    _ => unreachable!(),
                }
            }
        }
    };
}

handshake_agents!(HsN2nClient, HsN2nServer, handshake::n2n::VersionData, |m| handshake::n2n::VersionData::new(m, false, Some(0), Some(false)), 13u64, "handshake-n2n", mp::PROTOCOL_N2N_HANDSHAKE);
handshake_agents!(HsN2cClient, HsN2cServer, handshake::n2c::VersionData, |m| handshake::n2c::VersionData::new(m, Some(false)), 32784u64, "handshake-n2c", mp::PROTOCOL_N2C_HANDSHAKE);

// ------------------------------------------------------------------ chainsync

fn tip() -> chainsync::Tip {
    chainsync::Tip(Point::Specific(7, vec![0xab; 32]), 3)
}
fn header() -> chainsync::HeaderContent {
    chainsync::HeaderContent { variant: 6, byron_prefix: None, cbor: vec![0x80] }
}
fn block() -> chainsync::BlockContent {
    chainsync::BlockContent(vec![0x80])
}

macro_rules! chainsync_agents {
    ($cli:ident, $srv:ident, $content:ty, $sample:expr, $label:expr, $proto:expr) => {
        pub struct $cli;
        impl $cli {
            fn variants() -> Vec<Variant<chainsync::Message<$content>>> {
                vec![
                    v("RequestNext", |_| chainsync::Message::RequestNext),
                    v("AwaitReply", |_| chainsync::Message::AwaitReply),
                    v("RollForward", |_| chainsync::Message::RollForward($sample(), tip())),
                    v("RollBackward", |_| chainsync::Message::RollBackward(pt(), tip())),
                    v("FindIntersect", |_| chainsync::Message::FindIntersect(vec![pt(), Point::Origin])),
                    v("IntersectFound", |_| chainsync::Message::IntersectFound(pt(), tip())),
                    v("IntersectNotFound", |_| chainsync::Message::IntersectNotFound(tip())),
                    v("Done", |_| chainsync::Message::Done),
                ]
            }
        }
        impl Spec for $cli {
            type Agent = chainsync::Client<$content>;
            type Msg = chainsync::Message<$content>;
            const FAMILY: &'static str = "chain-sync";
            const LABEL: &'static str = $label;
            const ROLE: Side = Side::Client;
            const PROTO: u16 = $proto;
            basics!(chainsync::Client<$content>);
            pub_send!();
            pub_recv!();
            fn variants() -> Vec<Variant<Self::Msg>> {
                $cli::variants()
            }
            fn ops() -> Vec<OpDesc> {
                vec![
                    op("send_find_intersect", 0, Some("FindIntersect")),
                    op("recv_intersect_response", 1, None),
                    op("find_intersect", 1, Some("FindIntersect")),
                    op("send_request_next", 0, Some("RequestNext")),
                    op("recv_while_can_await", 1, None),
                    op("recv_while_must_reply", 1, None),
                    op("request_next", 1, Some("RequestNext")),
                    op("request_or_await_next", 1, None),
                    op("intersect_origin", 1, Some("FindIntersect")),
                    op("intersect_tip", 2, Some("FindIntersect")),
                    op("send_done", 0, Some("Done")),
                ]
            }
            async fn op(a: &mut Self::Agent, i: usize) -> Result<String, String> {
                match i {
                    0 => r(a.send_find_intersect(vec![pt()]).await),
                    1 => r(a.recv_intersect_response().await),
                    2 => r(a.find_intersect(vec![pt()]).await),
                    3 => r(a.send_request_next().await),
                    4 => r(a.recv_while_can_await().await),
                    5 => r(a.recv_while_must_reply().await),
                    6 => r(a.request_next().await),
                    7 => r(a.request_or_await_next().await),
                    8 => r(a.intersect_origin().await),
                    9 => r(a.intersect_tip().await),
                    10 => r(a.send_done().await),
                    _ => unreachable!(),
                }
            }
        }
        pub struct $srv;
        impl Spec for $srv {
            type Agent = chainsync::Server<$content>;
            type Msg = chainsync::Message<$content>;
            const FAMILY: &'static str = "chain-sync";
            const LABEL: &'static str = $label;
            const ROLE: Side = Side::Server;
            const PROTO: u16 = $proto;
            basics!(chainsync::Server<$content>);
            pub_send!();
            no_recv!();
            fn variants() -> Vec<Variant<Self::Msg>> {
                $cli::variants()
            }
            fn ops() -> Vec<OpDesc> {
                vec![
                    op("recv_while_idle", 1, None),
                    op("send_intersect_not_found", 0, Some("IntersectNotFound")),
                    op("send_intersect_found", 0, Some("IntersectFound")),
                    op("send_roll_forward", 0, Some("RollForward")),
                    op("send_roll_backward", 0, Some("RollBackward")),
                    op("send_await_reply", 0, Some("AwaitReply")),
                ]
            }
            async fn op(a: &mut Self::Agent, i: usize) -> Result<String, String> {
                match i {
                    0 => r(a.recv_while_idle().await),
                    1 => r(a.send_intersect_not_found(tip()).await),
                    2 => r(a.send_intersect_found(pt(), tip()).await),
                    3 => r(a.send_roll_forward($sample(), tip()).await),
                    4 => r(a.send_roll_backward(pt(), tip()).await),
                    5 => r(a.send_await_reply().await),
                    _ => unreachable!(),
                }
            }
        }
    };
}

chainsync_agents!(CsN2nClient, CsN2nServer, chainsync::HeaderContent, header, "chainsync-n2n", mp::PROTOCOL_N2N_CHAIN_SYNC);
chainsync_agents!(CsN2cClient, CsN2cServer, chainsync::BlockContent, block, "chainsync-n2c", mp::PROTOCOL_N2C_CHAIN_SYNC);

// ----------------------------------------------------------------- blockfetch

fn bf_variants() -> Vec<Variant<blockfetch::Message>> {
    vec![
        v("RequestRange", |_| blockfetch::Message::RequestRange { range: (pt(), pt2()) }),
        v("ClientDone", |_| blockfetch::Message::ClientDone),
        v("StartBatch", |_| blockfetch::Message::StartBatch),
        v("NoBlocks", |_| blockfetch::Message::NoBlocks),
        v("Block", |_| blockfetch::Message::Block { body: vec![0x80] }),
        v("BatchDone", |_| blockfetch::Message::BatchDone),
    ]
}

pub struct BfClient;
impl Spec for BfClient {
    type Agent = blockfetch::Client;
    type Msg = blockfetch::Message;
    const FAMILY: &'static str = "block-fetch";
    const LABEL: &'static str = "blockfetch";
    const ROLE: Side = Side::Client;
    const PROTO: u16 = mp::PROTOCOL_N2N_BLOCK_FETCH;
    basics!(blockfetch::Client);
    pub_send!();
    pub_recv!();
    fn variants() -> Vec<Variant<Self::Msg>> {
        bf_variants()
    }
    fn ops() -> Vec<OpDesc> {
        vec![
            op("send_request_range", 0, Some("RequestRange")),
            op("recv_while_busy", 1, None),
            op("request_range", 1, Some("RequestRange")),
            op("recv_while_streaming", 1, None),
            op("fetch_single", 3, Some("RequestRange")),
            op("fetch_range", 4, Some("RequestRange")),
            op("send_done", 0, Some("ClientDone")),
        ]
    }
    async fn op(a: &mut Self::Agent, i: usize) -> Result<String, String> {
        match i {
            0 => r(a.send_request_range((pt(), pt2())).await),
            1 => r(a.recv_while_busy().await),
            2 => r(a.request_range((pt(), pt2())).await),
            3 => r(a.recv_while_streaming().await),
            4 => r(a.fetch_single(pt()).await),
            5 => r(a.fetch_range((pt(), pt2())).await),
            6 => r(a.send_done().await),
            _ => unreachable!(),
        }
    }
}

pub struct BfServer;
impl Spec for BfServer {
    type Agent = blockfetch::Server;
    type Msg = blockfetch::Message;
    const FAMILY: &'static str = "block-fetch";
    const LABEL: &'static str = "blockfetch";
    const ROLE: Side = Side::Server;
    const PROTO: u16 = mp::PROTOCOL_N2N_BLOCK_FETCH;
    basics!(blockfetch::Server);
    pub_send!();
    pub_recv!();
    fn variants() -> Vec<Variant<Self::Msg>> {
        bf_variants()
    }
    fn ops() -> Vec<OpDesc> {
        vec![
            op("send_start_batch", 0, Some("StartBatch")),
            op("send_no_blocks", 0, Some("NoBlocks")),
            op("send_block", 0, Some("Block")),
            op("send_batch_done", 0, Some("BatchDone")),
            op("recv_while_idle", 1, None),
            op("send_block_range(empty)", 0, Some("NoBlocks")),
            op("send_block_range(2 blocks)", 0, Some("StartBatch")),
        ]
    }
    async fn op(a: &mut Self::Agent, i: usize) -> Result<String, String> {
        match i {
            0 => r(a.send_start_batch().await),
            1 => r(a.send_no_blocks().await),
            2 => r(a.send_block(vec![0x80]).await),
            3 => r(a.send_batch_done().await),
            4 => r(a.recv_while_idle().await),
            5 => r(a.send_block_range(vec![]).await),
            6 => r(a.send_block_range(vec![vec![0x80], vec![0x81, 0x00]]).await),
            _ => unreachable!(),
        }
    }
}

// --------------------------------------------------------------- txsubmission

type TxsMsg = txsubmission::Message<txsubmission::EraTxId, txsubmission::EraTxBody>;

fn txid() -> txsubmission::EraTxId {
    txsubmission::EraTxId(6, vec![0x11; 32])
}
fn txs_variants() -> Vec<Variant<TxsMsg>> {
    vec![
        v("Init", |_| txsubmission::Message::Init),
        v("RequestTxIdsBlocking", |_| txsubmission::Message::RequestTxIds(true, 0, 2)),
        v("RequestTxIdsNonBlocking", |_| txsubmission::Message::RequestTxIds(false, 1, 2)),
        v("ReplyTxIds", |_| txsubmission::Message::ReplyTxIds(vec![txsubmission::TxIdAndSize(txid(), 100)])),
        v("RequestTxs", |_| txsubmission::Message::RequestTxs(vec![txid()])),
        v("ReplyTxs", |_| txsubmission::Message::ReplyTxs(vec![txsubmission::EraTxBody(6, vec![0x80])])),
        v("Done", |_| txsubmission::Message::Done),
    ]
}

pub struct TxsClient;
impl Spec for TxsClient {
    type Agent = txsubmission::Client;
    type Msg = TxsMsg;
    const FAMILY: &'static str = "tx-submission-2";
    const LABEL: &'static str = "txsubmission";
    const ROLE: Side = Side::Client;
    const PROTO: u16 = mp::PROTOCOL_N2N_TX_SUBMISSION;
    basics!(txsubmission::Client);
    pub_send!();
    pub_recv!();
    fn variants() -> Vec<Variant<Self::Msg>> {
        txs_variants()
    }
    fn ops() -> Vec<OpDesc> {
        vec![
            op("send_init", 0, Some("Init")),
            op("reply_tx_ids", 0, Some("ReplyTxIds")),
            op("reply_txs", 0, Some("ReplyTxs")),
            op("next_request", 1, None),
            op("send_done", 0, Some("Done")),
        ]
    }
    async fn op(a: &mut Self::Agent, i: usize) -> Result<String, String> {
        match i {
            0 => r(a.send_init().await),
            1 => r(a.reply_tx_ids(vec![txsubmission::TxIdAndSize(txid(), 100)]).await),
            2 => r(a.reply_txs(vec![txsubmission::EraTxBody(6, vec![0x80])]).await),
            3 => ru(a.next_request().await),
            4 => r(a.send_done().await),
            _ => unreachable!(),
        }
    }
}

pub struct TxsServer;
impl Spec for TxsServer {
    type Agent = txsubmission::Server;
    type Msg = TxsMsg;
    const FAMILY: &'static str = "tx-submission-2";
    const LABEL: &'static str = "txsubmission";
    const ROLE: Side = Side::Server;
    const PROTO: u16 = mp::PROTOCOL_N2N_TX_SUBMISSION;
    basics!(txsubmission::Server);
    pub_send!();
    pub_recv!();
    fn variants() -> Vec<Variant<Self::Msg>> {
        txs_variants()
    }
    fn ops() -> Vec<OpDesc> {
        vec![
            op("wait_for_init", 1, None),
            op("acknowledge_and_request_tx_ids(blocking)", 0, Some("RequestTxIdsBlocking")),
            op("acknowledge_and_request_tx_ids(non-blocking)", 0, Some("RequestTxIdsNonBlocking")),
            op("request_txs", 0, Some("RequestTxs")),
            op("receive_next_reply", 1, None),
        ]
    }
    async fn op(a: &mut Self::Agent, i: usize) -> Result<String, String> {
        match i {
            0 => r(a.wait_for_init().await),
            1 => r(a.acknowledge_and_request_tx_ids(true, 0, 2).await),
            2 => r(a.acknowledge_and_request_tx_ids(false, 1, 2).await),
            3 => r(a.request_txs(vec![txid()]).await),
            4 => ru(a.receive_next_reply().await),
            _ => unreachable!(),
        }
    }
}

// ------------------------------------------------------------------ keepalive

fn ka_variants() -> Vec<Variant<keepalive::Message>> {
    vec![
        v("KeepAlive", |c| keepalive::Message::KeepAlive(c.cookie)),
        // the cookie last seen on the wire is echoed
        v("ResponseKeepAlive", |c| keepalive::Message::ResponseKeepAlive(c.cookie)),
        v("Done", |_| keepalive::Message::Done),
    ]
}

pub struct KaClient;
impl Spec for KaClient {
    type Agent = keepalive::Client;
    type Msg = keepalive::Message;
    const FAMILY: &'static str = "keep-alive";
    const LABEL: &'static str = "keepalive";
    const ROLE: Side = Side::Client;
    const PROTO: u16 = mp::PROTOCOL_N2N_KEEP_ALIVE;
    basics!(keepalive::Client);
    pub_send!();
    pub_recv!();
    fn variants() -> Vec<Variant<Self::Msg>> {
        ka_variants()
    }
    fn ops() -> Vec<OpDesc> {
        vec![
            op("send_keepalive_request", 0, Some("KeepAlive")),
            op("recv_keepalive_response", 1, None),
            OpDesc { name: "keepalive_roundtrip", max_recv: 1, wait: true, sends_first: Some("KeepAlive") },
        ]
    }
    async fn op(a: &mut Self::Agent, i: usize) -> Result<String, String> {
        match i {
            0 => r(a.send_keepalive_request().await),
            1 => r(a.recv_keepalive_response().await),
            2 => r(a.keepalive_roundtrip().await),
            _ => unreachable!(),
        }
    }
}

pub struct KaServer;
impl Spec for KaServer {
    type Agent = keepalive::Server;
    type Msg = keepalive::Message;
    const FAMILY: &'static str = "keep-alive";
    const LABEL: &'static str = "keepalive";
    const ROLE: Side = Side::Server;
    const PROTO: u16 = mp::PROTOCOL_N2N_KEEP_ALIVE;
    basics!(keepalive::Server);
    pub_send!();
    pub_recv!();
    fn variants() -> Vec<Variant<Self::Msg>> {
        ka_variants()
    }
    fn ops() -> Vec<OpDesc> {
        vec![op("recv_keepalive_request", 1, None), op("send_keepalive_response", 0, Some("ResponseKeepAlive")), op("keepalive_roundtrip", 1, None)]
    }
    async fn op(a: &mut Self::Agent, i: usize) -> Result<String, String> {
        match i {
            0 => r(a.recv_keepalive_request().await),
            1 => r(a.send_keepalive_response().await),
            2 => r(a.keepalive_roundtrip().await),
            _ => unreachable!(),
        }
    }
}

// ---------------------------------------------------------------- peersharing

fn ps_variants() -> Vec<Variant<peersharing::Message>> {
    vec![
        v("ShareRequest", |_| peersharing::Message::ShareRequest(3)),
        v("SharePeers", |_| peersharing::Message::SharePeers(vec![peersharing::PeerAddress::V4(std::net::Ipv4Addr::new(10, 0, 0, 1), 3001)])),
        v("Done", |_| peersharing::Message::Done),
    ]
}

pub struct PsClient;
impl Spec for PsClient {
    type Agent = peersharing::Client;
    type Msg = peersharing::Message;
    const FAMILY: &'static str = "peer-sharing";
    const LABEL: &'static str = "peersharing";
    const ROLE: Side = Side::Client;
    const PROTO: u16 = mp::PROTOCOL_N2N_PEER_SHARING;
    basics!(peersharing::Client);
    pub_send!();
    pub_recv!();
    fn variants() -> Vec<Variant<Self::Msg>> {
        ps_variants()
    }
    fn ops() -> Vec<OpDesc> {
        vec![op("send_share_request", 0, Some("ShareRequest")), op("recv_peer_addresses", 1, None), op("send_done", 0, Some("Done"))]
    }
    async fn op(a: &mut Self::Agent, i: usize) -> Result<String, String> {
        match i {
            0 => r(a.send_share_request(3).await),
            1 => r(a.recv_peer_addresses().await),
            2 => r(a.send_done().await),
            _ => unreachable!(),
        }
    }
}

pub struct PsServer;
impl Spec for PsServer {
    type Agent = peersharing::Server;
    type Msg = peersharing::Message;
    const FAMILY: &'static str = "peer-sharing";
    const LABEL: &'static str = "peersharing";
    const ROLE: Side = Side::Server;
    const PROTO: u16 = mp::PROTOCOL_N2N_PEER_SHARING;
    basics!(peersharing::Server);
    pub_send!();
    pub_recv!();
    fn variants() -> Vec<Variant<Self::Msg>> {
        ps_variants()
    }
    fn ops() -> Vec<OpDesc> {
        vec![op("recv_share_request", 1, None), op("send_peer_addresses", 0, Some("SharePeers"))]
    }
    async fn op(a: &mut Self::Agent, i: usize) -> Result<String, String> {
        match i {
            0 => r(a.recv_share_request().await),
            1 => r(a.send_peer_addresses(vec![peersharing::PeerAddress::V4(std::net::Ipv4Addr::new(10, 0, 0, 1), 3001)]).await),
            _ => unreachable!(),
        }
    }
}

// ----------------------------------------------------------------- localstate

fn ls_variants() -> Vec<Variant<localstate::Message>> {
    vec![
        v("Acquire", |_| localstate::Message::Acquire(Some(pt()))),
        v("Failure", |_| localstate::Message::Failure(localstate::AcquireFailure::PointTooOld)),
        v("Acquired", |_| localstate::Message::Acquired),
        v("Query", |_| localstate::Message::Query(AnyCbor::from_encode(1u8))),
        v("Result", |_| localstate::Message::Result(AnyCbor::from_encode(2u8))),
        v("ReAcquire", |_| localstate::Message::ReAcquire(None)),
        v("Release", |_| localstate::Message::Release),
        v("Done", |_| localstate::Message::Done),
    ]
}

pub struct LsClient;
impl Spec for LsClient {
    type Agent = localstate::Client;
    type Msg = localstate::Message;
    const FAMILY: &'static str = "local-state-query";
    const LABEL: &'static str = "localstate";
    const ROLE: Side = Side::Client;
    const PROTO: u16 = mp::PROTOCOL_N2C_STATE_QUERY;
    basics!(localstate::Client);
    pub_send!();
    pub_recv!();
    fn variants() -> Vec<Variant<Self::Msg>> {
        ls_variants()
    }
    fn ops() -> Vec<OpDesc> {
        vec![
            op("send_acquire", 0, Some("Acquire")),
            op("send_reacquire", 0, Some("ReAcquire")),
            op("send_release", 0, Some("Release")),
            op("send_done", 0, Some("Done")),
            op("recv_while_acquiring", 1, None),
            op("acquire", 1, Some("Acquire")),
            op("send_query", 0, Some("Query")),
            op("recv_while_querying", 1, None),
            op("query_any", 1, Some("Query")),
            op("query::<u8,u8>", 1, Some("Query")),
        ]
    }
    async fn op(a: &mut Self::Agent, i: usize) -> Result<String, String> {
        match i {
            0 => r(a.send_acquire(Some(pt())).await),
            1 => r(a.send_reacquire(None).await),
            2 => r(a.send_release().await),
            3 => r(a.send_done().await),
            4 => r(a.recv_while_acquiring().await),
            5 => r(a.acquire(None).await),
            6 => ru(a.send_query(AnyCbor::from_encode(1u8)).await),
            7 => ru(a.recv_while_querying().await),
            8 => ru(a.query_any(AnyCbor::from_encode(1u8)).await),
            9 => r(a.query::<u8, u8>(1u8).await),
            _ => unreachable!(),
        }
    }
}

pub struct LsServer;
impl Spec for LsServer {
    type Agent = localstate::Server;
    type Msg = localstate::Message;
    const FAMILY: &'static str = "local-state-query";
    const LABEL: &'static str = "localstate";
    const ROLE: Side = Side::Server;
    const PROTO: u16 = mp::PROTOCOL_N2C_STATE_QUERY;
    basics!(localstate::Server);
    pub_send!();
    pub_recv!();
    fn variants() -> Vec<Variant<Self::Msg>> {
        ls_variants()
    }
    fn ops() -> Vec<OpDesc> {
        vec![
            op("send_failure", 0, Some("Failure")),
            op("send_acquired", 0, Some("Acquired")),
            op("send_result", 0, Some("Result")),
            op("recv_while_idle", 1, None),
            op("recv_while_acquired", 1, None),
        ]
    }
    async fn op(a: &mut Self::Agent, i: usize) -> Result<String, String> {
        match i {
            0 => r(a.send_failure(localstate::AcquireFailure::PointNotOnChain).await),
            1 => r(a.send_acquired().await),
            2 => r(a.send_result(AnyCbor::from_encode(2u8)).await),
            3 => ru(a.recv_while_idle().await),
            4 => ru(a.recv_while_acquired().await),
            _ => unreachable!(),
        }
    }
}

// ---------------------------------------------------------- localtxsubmission

type LtsMsg = localtxsubmission::Message<localtxsubmission::EraTx, localtxsubmission::TxValidationError>;

fn reject() -> localtxsubmission::TxValidationError {
    localtxsubmission::TxValidationError::ShelleyTxValidationError { error: localtxsubmission::ApplyTxError(vec![]), era: localtxsubmission::ShelleyBasedEra::Conway }
}
fn lts_variants() -> Vec<Variant<LtsMsg>> {
    vec![
        v("SubmitTx", |_| localtxsubmission::Message::SubmitTx(localtxsubmission::EraTx(6, vec![0x80]))),
        v("AcceptTx", |_| localtxsubmission::Message::AcceptTx),
        // the pallas decoder wants [2, [[era, errors]]], its encoder writes
        // [2, [era, errors]]: inject the form the decoder takes
        Variant { name: "RejectTx", make: |_| localtxsubmission::Message::RejectTx(reject()), wire: Some(|_| vec![0x82, 0x02, 0x81, 0x82, 0x06, 0x80]) },
        v("Done", |_| localtxsubmission::Message::Done),
    ]
}

pub struct LtsClient;
impl Spec for LtsClient {
    type Agent = localtxsubmission::Client;
    type Msg = LtsMsg;
    const FAMILY: &'static str = "local-tx-submission";
    const LABEL: &'static str = "localtxsubmission";
    const ROLE: Side = Side::Client;
    const PROTO: u16 = mp::PROTOCOL_N2C_TX_SUBMISSION;
    basics!(localtxsubmission::Client);
    no_send!();
    no_recv!();
    fn variants() -> Vec<Variant<Self::Msg>> {
        lts_variants()
    }
    fn ops() -> Vec<OpDesc> {
        vec![
            op("submit_tx", 1, Some("SubmitTx")),
            op("terminate_gracefully", 0, Some("Done")),
            op("send_submit_tx", 0, Some("SubmitTx")),
            op("recv_submit_tx_response", 1, None),
        ]
    }
    async fn op(a: &mut Self::Agent, i: usize) -> Result<String, String> {
        let tx = localtxsubmission::EraTx(6, vec![0x80]);
        match i {
            0 => r(a.submit_tx(tx).await),
            1 => r(a.terminate_gracefully().await),
            2 => r(a.send_submit_tx(tx).await),
            3 => r(a.recv_submit_tx_response().await),
            _ => unreachable!(),
        }
    }
}

pub struct LtsServer;
impl Spec for LtsServer {
    type Agent = localtxsubmission::Server;
    type Msg = LtsMsg;
    const FAMILY: &'static str = "local-tx-submission";
    const LABEL: &'static str = "localtxsubmission";
    const ROLE: Side = Side::Server;
    const PROTO: u16 = mp::PROTOCOL_N2C_TX_SUBMISSION;
    basics!(localtxsubmission::Server);
    no_send!();
    no_recv!();
    fn variants() -> Vec<Variant<Self::Msg>> {
        lts_variants()
    }
    fn ops() -> Vec<OpDesc> {
        vec![op("send_submit_tx_response(Accepted)", 0, Some("AcceptTx")), op("send_submit_tx_response(Rejected)", 0, Some("RejectTx")), op("recv_next_request", 1, None)]
    }
    async fn op(a: &mut Self::Agent, i: usize) -> Result<String, String> {
        match i {
            0 => r(a.send_submit_tx_response(localtxsubmission::Response::Accepted).await),
            1 => r(a.send_submit_tx_response(localtxsubmission::Response::Rejected(reject())).await),
            2 => r(a.recv_next_request().await),
            _ => unreachable!(),
        }
    }
}

// ------------------------------------------------------------------ txmonitor

pub struct TmClient;
impl Spec for TmClient {
    type Agent = txmonitor::Client;
    type Msg = txmonitor::Message;
    const FAMILY: &'static str = "local-tx-monitor";
    const LABEL: &'static str = "txmonitor";
    const ROLE: Side = Side::Client;
    const PROTO: u16 = mp::PROTOCOL_N2C_TX_MONITOR;
    basics!(txmonitor::Client);
    pub_send!();
    pub_recv!();
    fn variants() -> Vec<Variant<Self::Msg>> {
        vec![
            v("Acquire", |_| txmonitor::Message::Acquire),
            v("AwaitAcquire", |_| txmonitor::Message::AwaitAcquire),
            v("Acquired", |_| txmonitor::Message::Acquired(5)),
            v("RequestHasTx", |_| txmonitor::Message::RequestHasTx("ab".into())),
            v("RequestNextTx", |_| txmonitor::Message::RequestNextTx),
            v("RequestSizeAndCapacity", |_| txmonitor::Message::RequestSizeAndCapacity),
            v("ResponseHasTx", |_| txmonitor::Message::ResponseHasTx(true)),
            v("ResponseNextTx", |_| txmonitor::Message::ResponseNextTx(None)),
            v("ResponseSizeAndCapacity", |_| txmonitor::Message::ResponseSizeAndCapacity(txmonitor::MempoolSizeAndCapacity { capacity_in_bytes: 10, size_in_bytes: 2, number_of_txs: 1 })),
            v("Release", |_| txmonitor::Message::Release),
            v("Done", |_| txmonitor::Message::Done),
        ]
    }
    fn ops() -> Vec<OpDesc> {
        vec![
            op("acquire", 1, Some("Acquire")),
            op("query_has_tx", 1, Some("RequestHasTx")),
            op("query_next_tx", 1, Some("RequestNextTx")),
            op("query_size_and_capacity", 1, Some("RequestSizeAndCapacity")),
            op("release", 0, Some("Release")),
        ]
    }
    async fn op(a: &mut Self::Agent, i: usize) -> Result<String, String> {
        match i {
            0 => r(a.acquire().await),
            1 => r(a.query_has_tx("ab".into()).await),
            2 => r(a.query_next_tx().await),
            3 => r(a.query_size_and_capacity().await),
            4 => r(a.release().await),
            _ => unreachable!(),
        }
    }
}
