mod agents;
mod c23;
mod engine;
mod spec;

fn main() {
    let ctx = mc_core::Ctx::from_args();
    match ctx.prop.as_str() {
        "C23" => c23::run(ctx),
        p => mc_core::report::machinery_failure(&format!("mc-agents does not serve {p}")),
    }
}
