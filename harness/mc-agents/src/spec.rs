//! Specification tables for C23, loaded from `/verif/spec/net1_protocols.json`
//! (compiled in). Independent of pallas: states, agency, transitions and the
//! wire label of each message come from the network specification.

use mc_core::refcbor::{Kind, Node};
use mc_core::Value;
use std::collections::{BTreeMap, BTreeSet};

pub const TABLES_JSON: &str = include_str!("../../../spec/net1_protocols.json");

#[derive(Clone, Copy, Debug, PartialEq, Eq)]
pub enum Side {
    Client,
    Server,
    Nobody,
}

impl Side {
    pub fn name(&self) -> &'static str {
        match self {
            Side::Client => "client",
            Side::Server => "server",
            Side::Nobody => "nobody",
        }
    }
    pub fn other(&self) -> Side {
        match self {
            Side::Client => Side::Server,
            Side::Server => Side::Client,
            Side::Nobody => Side::Nobody,
        }
    }
}

#[derive(Debug, Clone)]
pub struct Table {
    pub name: String,
    pub initial: String,
    pub states: BTreeMap<String, Side>,
    pub trans: BTreeMap<(String, String), String>,
    pub wire: BTreeMap<u64, String>,
    pub class: BTreeMap<String, String>,
    pub messages: BTreeSet<String>,
}

impl Table {
    pub fn load(name: &str) -> Table {
        let v: Value = serde_json::from_str(TABLES_JSON).unwrap_or_else(|e| mc_core::report::machinery_failure(&format!("net1_protocols.json: {e}")));
        let p = &v["protocols"][name];
        if p.is_null() {
            mc_core::report::machinery_failure(&format!("no table for protocol {name}"));
        }
        let side = |s: &str| match s {
            "client" => Side::Client,
            "server" => Side::Server,
            "nobody" => Side::Nobody,
            o => mc_core::report::machinery_failure(&format!("table {name}: bad agency {o}")),
        };
        let mut t = Table {
            name: name.to_string(),
            initial: p["initial"].as_str().unwrap_or("").to_string(),
            states: BTreeMap::new(),
            trans: BTreeMap::new(),
            wire: BTreeMap::new(),
            class: BTreeMap::new(),
            messages: BTreeSet::new(),
        };
        for (k, a) in p["states"].as_object().cloned().unwrap_or_default() {
            t.states.insert(k, side(a.as_str().unwrap_or("")));
        }
        for tr in p["transitions"].as_array().cloned().unwrap_or_default() {
            let f = tr[0].as_str().unwrap_or("").to_string();
            let m = tr[1].as_str().unwrap_or("").to_string();
            let to = tr[2].as_str().unwrap_or("").to_string();
            t.messages.insert(m.clone());
            if t.trans.insert((f.clone(), m.clone()), to).is_some() {
                mc_core::report::machinery_failure(&format!("table {name}: duplicate transition ({f},{m})"));
            }
        }
        for (k, m) in p["wire"].as_object().cloned().unwrap_or_default() {
            t.wire.insert(k.parse().unwrap(), m.as_str().unwrap_or("").to_string());
        }
        for (k, c) in p["class"].as_object().cloned().unwrap_or_default() {
            t.class.insert(k, c.as_str().unwrap_or("").to_string());
        }
        for m in p["never_allowed"].as_array().cloned().unwrap_or_default() {
            t.messages.insert(m.as_str().unwrap_or("").to_string());
        }
        if let Err(e) = t.shape_check() {
            mc_core::report::machinery_failure(&format!("table {name}: {e}"));
        }
        t
    }

    pub fn agency(&self, s: &str) -> Side {
        *self.states.get(s).unwrap_or(&Side::Nobody)
    }

    pub fn next(&self, s: &str, m: &str) -> Option<&String> {
        self.trans.get(&(s.to_string(), m.to_string()))
    }

    /// Implementation state class a table state is observed as.
    pub fn class_of<'a>(&'a self, s: &'a str) -> &'a str {
        self.class.get(s).map(|x| x.as_str()).unwrap_or(s)
    }

    /// May `side` send `m` in `s`?
    pub fn may_send(&self, side: Side, s: &str, m: &str) -> bool {
        self.agency(s) == side && self.next(s, m).is_some()
    }

    /// Shape conditions of DESIGN.md Appendix A: endpoints exist; exactly the
    /// states nobody has agency in are terminal; every state is reachable from
    /// the initial one; a terminal state is reachable from every state; every
    /// message has a wire label and the other way round.
    pub fn shape_check(&self) -> Result<(), String> {
        if !self.states.contains_key(&self.initial) {
            return Err("initial state missing".into());
        }
        for ((f, m), to) in &self.trans {
            if !self.states.contains_key(f) || !self.states.contains_key(to) {
                return Err(format!("transition ({f},{m},{to}) names an unknown state"));
            }
        }
        for (s, a) in &self.states {
            let exits = self.trans.keys().filter(|(f, _)| f == s).count();
            if *a == Side::Nobody && exits != 0 {
                return Err(format!("terminal state {s} has exits"));
            }
            if *a != Side::Nobody && exits == 0 {
                return Err(format!("state {s} has agency but no exit"));
            }
        }
        let reach = |from: &str| -> BTreeSet<String> {
            let mut seen = BTreeSet::new();
            let mut todo = vec![from.to_string()];
            while let Some(s) = todo.pop() {
                if seen.insert(s.clone()) {
                    for ((f, _), to) in &self.trans {
                        if *f == s {
                            todo.push(to.clone());
                        }
                    }
                }
            }
            seen
        };
        let all = reach(&self.initial);
        for s in self.states.keys() {
            if !all.contains(s) {
                return Err(format!("state {s} unreachable"));
            }
            if !reach(s).iter().any(|x| self.agency(x) == Side::Nobody) {
                return Err(format!("no terminal state reachable from {s}"));
            }
        }
        let wired: BTreeSet<&String> = self.wire.values().collect();
        for m in &self.messages {
            let base = m.strip_suffix("NonBlocking").or_else(|| m.strip_suffix("Blocking")).unwrap_or(m).to_string();
            if !wired.contains(m) && !wired.contains(&base) {
                return Err(format!("message {m} has no wire label"));
            }
        }
        Ok(())
    }

    /// Name of the message one CBOR item on the wire stands for (by label).
    pub fn wire_name(&self, item: &Node) -> Result<String, String> {
        let arr = item.as_array().ok_or_else(|| "message is not an array".to_string())?;
        let label = arr.first().and_then(|n| n.as_u64()).ok_or_else(|| "message has no numeric label".to_string())?;
        let name = self.wire.get(&label).ok_or_else(|| format!("unknown label {label}"))?;
        if name == "RequestTxIds" {
            return match arr.get(1).map(|n| &n.kind) {
                Some(Kind::Simple(21, _)) => Ok("RequestTxIdsBlocking".into()),
                Some(Kind::Simple(20, _)) => Ok("RequestTxIdsNonBlocking".into()),
                _ => Err("RequestTxIds without a boolean".into()),
            };
        }
        Ok(name.clone())
    }
}
