//! Generic machinery for C23: one real pallas-network agent on one side of the
//! deterministic plexer rig, a raw channel on the other side; replay of a
//! history of high-level operations; judgement of every step against the
//! specification table; BFS over histories; per-state send / receive probes.

use crate::spec::{Side, Table};
use mc_core::bfs::{self, Outcome};
use mc_core::refcbor;
use mc_core::{catch, json, Value};
use mc_net1::rig::Rig;
use pallas_codec::{minicbor, Fragment};
use pallas_network::multiplexer::AgentChannel;
use rayon::prelude::*;
use std::collections::{BTreeMap, BTreeSet};
use std::future::Future;
use std::pin::Pin;
use std::sync::Mutex;
use std::task::Poll;

/// What the raw peer has learnt from the wire (the keep-alive cookie is chosen
/// at random by the client: it is only ever read back, never assumed).
pub struct WireCtx {
    pub cookie: u16,
}

pub struct Variant<M> {
    pub name: &'static str,
    pub make: fn(&WireCtx) -> M,
    /// Bytes to inject when the pallas encoder of this variant is not accepted
    /// by the pallas decoder (the codec is another property's business).
    pub wire: Option<fn(&WireCtx) -> Vec<u8>>,
}

pub struct OpDesc {
    pub name: &'static str,
    /// Most messages the operation reads.
    pub max_recv: usize,
    /// The peer's answer depends on what the agent sends first (cookie echo).
    pub wait: bool,
    /// Message the operation sends before doing anything else.
    pub sends_first: Option<&'static str>,
}

pub const fn op(name: &'static str, max_recv: usize, sends_first: Option<&'static str>) -> OpDesc {
    OpDesc { name, max_recv, wait: false, sends_first }
}

#[allow(async_fn_in_trait)]
pub trait Spec: 'static {
    type Agent;
    type Msg: Fragment;
    /// Name of the specification table.
    const FAMILY: &'static str;
    /// Flavour under test (e.g. chainsync-n2n).
    const LABEL: &'static str;
    const ROLE: Side;
    const PROTO: u16;
    const PUB_SEND: bool;
    const PUB_RECV: bool;
    fn new(ch: AgentChannel) -> Self::Agent;
    /// `format!("{:?}", agent.state())`
    fn state(a: &Self::Agent) -> String;
    fn variants() -> Vec<Variant<Self::Msg>>;
    fn ops() -> Vec<OpDesc>;
    async fn send_message(a: &mut Self::Agent, m: &Self::Msg) -> Result<(), String>;
    async fn recv_message(a: &mut Self::Agent) -> Result<Self::Msg, String>;
    async fn op(a: &mut Self::Agent, i: usize) -> Result<String, String>;
}

/// State class = variant name of the state (payloads ignored).
pub fn class_of_debug(s: &str) -> String {
    s.split(|c: char| !(c.is_alphanumeric() || c == '_')).next().unwrap_or("").to_string()
}

#[derive(Clone, Debug, PartialEq, Eq, PartialOrd, Ord)]
pub struct Event {
    pub op: usize,
    /// Variant indices the peer injects for this operation.
    pub inj: Vec<usize>,
    /// The caller gives up (drops the operation's future) once the peer has
    /// seen the request and no reply comes.
    pub cancel: bool,
}

#[derive(Clone, Debug)]
pub enum Probe {
    Send(usize),
    Recv(Option<usize>),
}

#[derive(Clone, Debug)]
pub struct StepObs {
    pub ok: Result<String, String>,
    pub cancelled: bool,
    /// Complete CBOR items the agent put on the wire during the step.
    pub sent: Vec<Vec<u8>>,
    pub class: String,
    /// How many of the event's messages the peer really injected (a reply that
    /// waits for the agent's request is never sent if no request comes).
    pub injected: usize,
    /// recv probe: the message handed back, re-encoded.
    pub returned: Option<Vec<u8>>,
}

pub struct ReplayOut {
    pub init_class: String,
    pub steps: Vec<StepObs>,
    pub probe: Option<StepObs>,
    pub wire_errors: Vec<String>,
}

struct Peer {
    ch: AgentChannel,
    flush_tx: AgentChannel,
    flush_rx: AgentChannel,
    buf: Vec<u8>,
    pos: usize,
    msgs: Vec<Vec<u8>>,
    cookie: u16,
    errors: Vec<String>,
    /// messages injected so far
    injected: usize,
}

async fn try_dequeue(ch: &mut AgentChannel) -> Option<Vec<u8>> {
    let mut fut = Box::pin(ch.dequeue_chunk());
    std::future::poll_fn(|cx| match fut.as_mut().poll(cx) {
        Poll::Ready(Ok(v)) => Poll::Ready(Some(v)),
        Poll::Ready(Err(_)) => Poll::Ready(None),
        Poll::Pending => Poll::Ready(None),
    })
    .await
}

impl Peer {
    fn parse(&mut self) {
        while self.pos < self.buf.len() {
            match refcbor::parse_at(&self.buf, self.pos) {
                Ok(n) => {
                    if let Some(arr) = n.as_array() {
                        if arr.len() == 2 {
                            if let (Some(0), Some(c)) = (arr[0].as_u64(), arr[1].as_u64()) {
                                if c <= 0xffff {
                                    self.cookie = c as u16;
                                }
                            }
                        }
                    }
                    self.msgs.push(self.buf[self.pos..n.end].to_vec());
                    self.pos = n.end;
                }
                Err(refcbor::Error::Eof(_)) => break,
                Err(e) => {
                    self.errors.push(format!("agent wrote malformed CBOR: {e:?}"));
                    self.pos = self.buf.len();
                    break;
                }
            }
        }
    }

    /// Wait until the agent has put one more complete message on the wire.
    async fn read_one(&mut self) {
        let want = self.msgs.len() + 1;
        loop {
            self.parse();
            if self.msgs.len() >= want {
                return;
            }
            match self.ch.dequeue_chunk().await {
                Ok(c) => self.buf.extend(c),
                Err(_) => {
                    self.errors.push("raw channel closed".into());
                    std::future::pending::<()>().await;
                }
            }
        }
    }

    /// A marker sent after the agent's messages through the same muxer queue;
    /// once it has arrived everything the agent sent is in our channel.
    async fn flush(&mut self) {
        if self.flush_tx.enqueue_chunk(vec![0xf6]).await.is_err() {
            self.errors.push("flush enqueue failed".into());
            return;
        }
        if self.flush_rx.dequeue_chunk().await.is_err() {
            self.errors.push("flush dequeue failed".into());
            return;
        }
        while let Some(c) = try_dequeue(&mut self.ch).await {
            self.buf.extend(c);
        }
        self.parse();
        if self.pos != self.buf.len() {
            self.errors.push("agent left an incomplete message on the wire".into());
        }
    }
}

/// Run `a` and `b` together; finish with `Some` when `a` finishes, or with
/// `None` (dropping `a`) when `b` finishes with `true`.
async fn join_first<A: Future, B: Future<Output = bool>>(a: A, b: B) -> Option<A::Output> {
    let mut a: Pin<Box<A>> = Box::pin(a);
    let mut b: Pin<Box<B>> = Box::pin(b);
    let mut b_done = false;
    std::future::poll_fn(move |cx| {
        if let Poll::Ready(v) = a.as_mut().poll(cx) {
            return Poll::Ready(Some(v));
        }
        if !b_done {
            if let Poll::Ready(cancel) = b.as_mut().poll(cx) {
                b_done = true;
                if cancel {
                    return Poll::Ready(None);
                }
                if let Poll::Ready(v) = a.as_mut().poll(cx) {
                    return Poll::Ready(Some(v));
                }
            }
        }
        Poll::Pending
    })
    .await
}

fn wire_bytes<M: Fragment>(v: &Variant<M>, ctx: &WireCtx) -> Vec<u8> {
    match v.wire {
        Some(f) => f(ctx),
        None => minicbor::to_vec((v.make)(ctx)).expect("encode"),
    }
}

async fn script<M: Fragment>(peer: &mut Peer, vars: &[Variant<M>], inj: &[usize], wait: bool, cancel: bool) -> bool {
    if cancel {
        peer.read_one().await;
        return true;
    }
    if wait && !inj.is_empty() {
        peer.read_one().await;
    }
    for i in inj {
        let bytes = wire_bytes(&vars[*i], &WireCtx { cookie: peer.cookie });
        if peer.ch.enqueue_chunk(bytes).await.is_err() {
            peer.errors.push("inject failed".into());
        }
        peer.injected += 1;
    }
    false
}

enum Action<'a> {
    Op(&'a Event),
    Probe(&'a Probe),
}

async fn step<S: Spec>(agent: &mut S::Agent, peer: &mut Peer, vars: &[Variant<S::Msg>], ops: &[OpDesc], act: Action<'_>) -> StepObs {
    let before = peer.msgs.len();
    let injected_before = peer.injected;
    let mut returned = None;
    let mut cancelled = false;
    let ok = match act {
        Action::Op(ev) => {
            let d = &ops[ev.op];
            let r = if d.wait || ev.cancel {
                join_first(S::op(agent, ev.op), script(peer, vars, &ev.inj, d.wait, ev.cancel)).await
            } else {
                // everything the peer has to say is in flight before the operation starts
                script(peer, vars, &ev.inj, false, false).await;
                Some(S::op(agent, ev.op).await)
            };
            match r {
                Some(r) => r,
                None => {
                    cancelled = true;
                    Err("cancelled".into())
                }
            }
        }
        Action::Probe(Probe::Send(i)) => {
            let m = (vars[*i].make)(&WireCtx { cookie: peer.cookie });
            S::send_message(agent, &m).await.map(|_| "sent".to_string())
        }
        Action::Probe(Probe::Recv(i)) => {
            if let Some(i) = i {
                script(peer, vars, &[*i], false, false).await;
            }
            match S::recv_message(agent).await {
                Ok(m) => {
                    returned = minicbor::to_vec(&m).ok();
                    Ok("received".to_string())
                }
                Err(e) => Err(e),
            }
        }
    };
    peer.flush().await;
    StepObs { ok, cancelled, sent: peer.msgs[before..].to_vec(), class: class_of_debug(&S::state(agent)), injected: peer.injected - injected_before, returned }
}

const FLUSH_PROTO: u16 = 0x7f0;

/// Fresh rig, fresh agent, the whole history, then the probe. `None` = the
/// last action waits for ever.
pub fn replay<S: Spec>(hist: &[Event], probe: Option<Probe>) -> Option<ReplayOut> {
    let mut rig = Rig::new(1 << 16);
    let (cli, srv) = rig.pair(S::PROTO);
    let (fc, fs) = rig.pair(FLUSH_PROTO);
    let (agent_ch, raw_ch, flush_tx, flush_rx) = match S::ROLE {
        Side::Client => (cli, srv, fc, fs),
        _ => (srv, cli, fs, fc),
    };
    let hist = hist.to_vec();
    rig.drive(async move {
        let vars = S::variants();
        let ops = S::ops();
        let mut agent = S::new(agent_ch);
        let mut peer = Peer { ch: raw_ch, flush_tx, flush_rx, buf: vec![], pos: 0, msgs: vec![], cookie: 7, errors: vec![], injected: 0 };
        let init_class = class_of_debug(&S::state(&agent));
        let mut steps = vec![];
        for ev in &hist {
            steps.push(step::<S>(&mut agent, &mut peer, &vars, &ops, Action::Op(ev)).await);
        }
        let probe = match &probe {
            Some(p) => Some(step::<S>(&mut agent, &mut peer, &vars, &ops, Action::Probe(p)).await),
            None => None,
        };
        ReplayOut { init_class, steps, probe, wire_errors: peer.errors }
    })
}

/// How many single (filler, marker) pairs get through to the agent's side
/// after the history and a burst of `burst` filler chunks on the agent's
/// protocol. The demultiplexer hands chunks to the agent through a bounded
/// queue and stops reading the bearer when that queue is full, so the count
/// tells how many chunks the agent has left unread in its queue. Always ends
/// with the system blocked; the count is kept outside the driver.
fn filler_pairs<S: Spec>(hist: &[Event], burst: usize, limit: usize) -> Option<usize> {
    let mut rig = Rig::new(1 << 16);
    let (cli, srv) = rig.pair(S::PROTO);
    let (fc, fs) = rig.pair(FLUSH_PROTO);
    let (agent_ch, raw_ch, flush_tx, flush_rx) = match S::ROLE {
        Side::Client => (cli, srv, fc, fs),
        _ => (srv, cli, fs, fc),
    };
    let hist = hist.to_vec();
    let count: std::rc::Rc<std::cell::Cell<Option<usize>>> = Default::default();
    let c2 = count.clone();
    let _ = rig.drive(async move {
        let vars = S::variants();
        let ops = S::ops();
        let mut agent = S::new(agent_ch);
        let mut peer = Peer { ch: raw_ch, flush_tx, flush_rx, buf: vec![], pos: 0, msgs: vec![], cookie: 7, errors: vec![], injected: 0 };
        for ev in &hist {
            step::<S>(&mut agent, &mut peer, &vars, &ops, Action::Op(ev)).await;
        }
        for _ in 0..burst {
            let _ = peer.ch.enqueue_chunk(vec![0xff]).await;
        }
        // marker in the peer -> agent direction, behind the burst
        let _ = peer.flush_rx.enqueue_chunk(vec![0xf6]).await;
        let _ = peer.flush_tx.dequeue_chunk().await;
        c2.set(Some(0));
        for n in 1..=limit {
            let _ = peer.ch.enqueue_chunk(vec![0xff]).await;
            let _ = peer.flush_rx.enqueue_chunk(vec![0xf6]).await;
            let _ = peer.flush_tx.dequeue_chunk().await;
            c2.set(Some(n));
        }
        // keep the agent (and its queue) alive until the system is quiescent
        std::future::pending::<()>().await;
        drop(agent);
    });
    count.get()
}

/// Capacity of the demultiplexer -> agent queue, measured on a fresh agent.
pub fn queue_capacity<S: Spec>() -> usize {
    static CAP: std::sync::OnceLock<usize> = std::sync::OnceLock::new();
    *CAP.get_or_init(|| match filler_pairs::<S>(&[], 0, 4096) {
        Some(n) if n > 8 && n < 4096 => n,
        other => mc_core::report::machinery_failure(&format!("cannot calibrate the agent queue capacity: {other:?}")),
    })
}

/// Number of chunks (= injected messages) the agent has NOT taken out of its
/// queue after `hist`, given that at most `max_left` were injected in the
/// last step and every earlier step left nothing.
pub fn measure_leftover<S: Spec>(hist: &[Event], max_left: usize) -> Option<usize> {
    let cap = queue_capacity::<S>();
    let m = filler_pairs::<S>(hist, cap - max_left, max_left + 1)?;
    if m > max_left {
        return None;
    }
    Some(max_left - m)
}

// ---------------------------------------------------------------- judgement

#[derive(Clone, Debug)]
pub struct Finding {
    pub kind: &'static str,
    pub state: String,
    pub variant: String,
    pub detail: String,
    /// An operation that returned Err left a consumed, specification-valid
    /// message unapplied: (table state before the operation, operation). Whether
    /// the operation is meant for that state at all is decided once every
    /// operation has been tried there.
    pub helper: Option<(String, String)>,
}

impl Finding {
    pub fn new(kind: &'static str, state: &str, variant: &str, detail: String) -> Finding {
        Finding { kind, state: state.to_string(), variant: variant.to_string(), detail, helper: None }
    }
}

#[derive(Default, Debug)]
pub struct Judged {
    pub findings: Vec<Finding>,
    /// Table state after the step when the step is a clean edge: everything
    /// injected was consumed, nothing is left in flight, classes agree.
    pub next: Option<String>,
    pub send_ok: Vec<(String, String)>,
    pub recv_ok: Vec<(String, String)>,
    /// consumed valid messages that visibly moved the state as the table says
    /// although the operation reported an error (e.g. an acquire failure)
    pub applied: Vec<(String, String)>,
}

/// The verdict depends on how many injected messages the agent took out of
/// its channel: measure it (see `measure_leftover`) and ask again.
pub struct NeedConsumed;

#[derive(Debug, Default)]
struct Walk {
    fin: String,
    /// (from, message) of every applied transition, in order
    steps: Vec<(String, String)>,
    bad_sent: Option<(String, String)>,
    /// consumed messages the table does not let the peer send where they were read
    forbidden: Vec<(String, String)>,
    /// consumed messages the table allows (they were applied)
    valid: Vec<(String, String)>,
    send_ok: Vec<(String, String)>,
}

/// Specification state after exactly: every message the agent put on the wire
/// and the first `c` injected messages (those it consumed). Whoever has agency
/// moves next. A consumed message the table allows moves the state; a consumed
/// message it forbids (or one read while the peer has no agency) moves nothing.
fn walk(table: &Table, role: Side, t0: &str, sent: &[String], inj: &[String], c: usize) -> Walk {
    let mut w = Walk { fin: t0.to_string(), ..Default::default() };
    let (mut si, mut ii) = (0usize, 0usize);
    loop {
        let t = w.fin.clone();
        let ag = table.agency(&t);
        if ag == role && si < sent.len() {
            match table.next(&t, &sent[si]) {
                Some(n) => {
                    w.send_ok.push((t.clone(), sent[si].clone()));
                    w.steps.push((t.clone(), sent[si].clone()));
                    w.fin = n.clone();
                    si += 1;
                }
                None => {
                    w.bad_sent = Some((t, sent[si].clone()));
                    break;
                }
            }
        } else if ii < c {
            match (ag == role.other(), table.next(&t, &inj[ii])) {
                (true, Some(n)) => {
                    w.valid.push((t.clone(), inj[ii].clone()));
                    w.steps.push((t.clone(), inj[ii].clone()));
                    w.fin = n.clone();
                }
                _ => w.forbidden.push((t.clone(), inj[ii].clone())),
            }
            ii += 1;
        } else if si < sent.len() {
            w.bad_sent = Some((t, sent[si].clone()));
            break;
        } else {
            break;
        }
    }
    w
}

/// Compare one executed step with the table. `t0` = table state before,
/// `consumed` = number of injected messages the agent took (None = not measured).
pub fn judge(table: &Table, role: Side, t0: &str, opd: &OpDesc, inj: &[String], cancel: bool, obs: &StepObs, consumed: Option<usize>) -> Result<Judged, NeedConsumed> {
    let mut j = Judged::default();
    let mut sent: Vec<String> = vec![];
    for raw in &obs.sent {
        match refcbor::parse_one(raw).map_err(|e| format!("{e:?}")).and_then(|n| table.wire_name(&n)) {
            Ok(n) => sent.push(n),
            Err(e) => {
                j.findings.push(Finding::new("send", t0, "?", format!("{}: put an unrecognisable message on the wire ({e}): {}", opd.name, hex::encode(raw))));
                return Ok(j);
            }
        }
    }
    let ok = obs.ok.is_ok();
    let c = match consumed {
        Some(c) => c.min(inj.len()),
        None if inj.is_empty() => 0,
        None => {
            if ok {
                return Err(NeedConsumed);
            }
            let sig = |c: usize| {
                let w = walk(table, role, t0, &sent, inj, c);
                (table.class_of(&w.fin).to_string(), w.forbidden.is_empty(), w.valid.is_empty(), w.bad_sent.is_some())
            };
            let s0 = sig(0);
            if (1..=inj.len()).any(|c| sig(c) != s0) {
                return Err(NeedConsumed);
            }
            0
        }
    };
    let w = walk(table, role, t0, &sent, inj, c);
    j.send_ok = w.send_ok.clone();
    if let Some((s, m)) = &w.bad_sent {
        j.findings.push(Finding::new(
            "send",
            s,
            m,
            format!("{} put {m} on the wire in state {s} (agency: {}), which the specification does not let the {} send there", opd.name, table.agency(s).name(), role.name()),
        ));
        return Ok(j);
    }
    if ok {
        if let Some((s, m)) = w.forbidden.first() {
            j.findings.push(Finding::new(
                "recv",
                s,
                m,
                format!("{} returned Ok having consumed {m} in state {s} (agency: {}), which the specification does not let the peer send there", opd.name, table.agency(s).name()),
            ));
            return Ok(j);
        }
        j.recv_ok = w.valid.clone();
    }
    // a helper whose first act is to send M must not refuse where M is allowed
    if let Some(m) = opd.sends_first {
        if table.may_send(role, t0, m) && !ok && !obs.cancelled && sent.is_empty() {
            j.findings.push(Finding::new(
                "send",
                t0,
                m,
                format!("{} refused ({}) to send {m} in state {t0}, where the specification lets the {} send it", opd.name, obs.ok.clone().unwrap_err(), role.name()),
            ));
            return Ok(j);
        }
    }
    let exchange: Vec<&str> = w.steps.iter().map(|x| x.1.as_str()).collect();
    if table.class_of(&w.fin) == obs.class {
        if !ok && w.forbidden.is_empty() {
            if let Some((from, m)) = w.valid.last() {
                if table.class_of(from) != obs.class {
                    j.applied.push((from.clone(), m.clone()));
                }
            }
        }
        if (ok || (obs.cancelled && cancel)) && c == inj.len() && w.forbidden.is_empty() {
            j.next = Some(w.fin.clone());
        }
        return Ok(j);
    }
    let outcome = if ok {
        "returned Ok".to_string()
    } else if obs.cancelled {
        "was dropped after its request".to_string()
    } else {
        format!("returned {:?}", obs.ok)
    };
    if !ok && !w.forbidden.is_empty() {
        let (s, m) = w.forbidden[0].clone();
        j.findings.push(Finding::new(
            "state-after-reject",
            &s,
            &m,
            format!(
                "{} {outcome} after consuming {c} of the injected {:?}; {m} is not allowed in {s} and must move nothing: the specification state after the sent and consumed messages (applied {:?}) is {}, agent state is {}",
                opd.name, inj, exchange, w.fin, obs.class
            ),
        ));
        return Ok(j);
    }
    let (fs, fm) = w.steps.last().cloned().unwrap_or((t0.to_string(), format!("op:{}", opd.name)));
    let mut f = Finding::new(
        "next-state",
        &fs,
        &fm,
        format!(
            "{} {outcome}; it sent {:?} and consumed {c} of the injected {:?}: the exchange {:?} from {t0} ends in {} by the specification, agent state is {}",
            opd.name, sent, inj, exchange, w.fin, obs.class
        ),
    );
    if !ok && !obs.cancelled && !w.valid.is_empty() {
        f.helper = Some((t0.to_string(), opd.name.to_string()));
    }
    j.findings.push(f);
    Ok(j)
}

// ------------------------------------------------------------- exploration

#[derive(Default)]
pub struct Acc {
    pub replays: u64,
    pub blocked: u64,
    pub ok_ops: u64,
    pub err_ops: u64,
    pub cancelled_ops: u64,
    pub probes: u64,
    /// key -> (shortest history, table state, class)
    pub reps: BTreeMap<String, (Vec<Event>, String, String)>,
    pub findings: BTreeMap<String, FindingRec>,
    pub send_acc: BTreeSet<(String, String)>,
    pub recv_acc: BTreeSet<(String, String)>,
    pub edges: BTreeSet<(String, String, String)>,
    pub outcomes: BTreeSet<String>,
    pub machinery: Vec<String>,
    /// consumption measurements made
    pub measured: u64,
    /// (table state, operation) pairs where the operation returned Ok for some injection
    pub ok_at: BTreeSet<(String, String)>,
    pub applied_acc: BTreeSet<(String, String)>,
    /// findings whose class depends on `ok_at`: key -> (finding, shortest history, count)
    pub pending: BTreeMap<String, (Finding, Vec<Event>, u64)>,
    /// stronger observations than the property demands: key -> (what, shortest history, count, order)
    pub diagnostics: BTreeMap<String, (String, Value, u64, (usize, String))>,
}

pub struct AgentReport {
    pub label: String,
    pub family: String,
    pub role: String,
    pub stats: bfs::Stats,
    pub deep: Option<bfs::Stats>,
    pub acc: Acc,
    pub matrix: Value,
    pub reached: Vec<String>,
    pub unreached: Vec<String>,
}

fn hist_json<S: Spec>(h: &[Event]) -> Value {
    let vars = S::variants();
    let ops = S::ops();
    json!(h
        .iter()
        .map(|e| json!({"op": ops[e.op].name, "peer_injects": e.inj.iter().map(|i| vars[*i].name).collect::<Vec<_>>(), "cancelled_after_request": e.cancel}))
        .collect::<Vec<_>>())
}

fn record<S: Spec>(acc: &Mutex<Acc>, table: &Table, f: &Finding, hist: &[Event], extra: Value) {
    record_n::<S>(acc, table, f, hist, extra, 1, None)
}

fn record_n<S: Spec>(acc: &Mutex<Acc>, table: &Table, f: &Finding, hist: &[Event], extra: Value, n: u64, fp: Option<String>) {
    // the state enters the fingerprint as the implementation's state class
    let fp = fp.unwrap_or_else(|| format!("agent:{}:{}:{}:{}:{}", table.name, S::ROLE.name(), table.class_of(&f.state), f.variant, f.kind));
    let case = json!({"protocol": S::LABEL, "role": S::ROLE.name(), "history": hist_json::<S>(hist), "then": extra, "table_state": f.state, "message": f.variant, "kind": f.kind});
    let mut a = acc.lock().unwrap();
    let order = (hist.len(), format!("{}{hist:?}{extra}", S::LABEL));
    let what = format!("{} {}: {}", S::LABEL, S::ROLE.name(), f.detail);
    match a.findings.get_mut(&fp) {
        Some(e) => {
            e.count += n;
            if order < e.order {
                e.order = order;
                e.what = what;
                e.case = case;
            }
        }
        None => {
            a.findings.insert(fp, FindingRec { order, what, case, count: n });
        }
    }
}

/// One disagreement, with the shortest (then lexicographically first) history
/// that shows it.
pub struct FindingRec {
    pub order: (usize, String),
    pub what: String,
    pub case: Value,
    pub count: u64,
}

fn enabled_events<S: Spec>(max_seq: usize) -> Vec<Event> {
    let nv = S::variants().len();
    let mut out = vec![];
    for (oi, o) in S::ops().iter().enumerate() {
        if o.max_recv == 0 {
            out.push(Event { op: oi, inj: vec![], cancel: false });
            continue;
        }
        if o.sends_first.is_some() {
            out.push(Event { op: oi, inj: vec![], cancel: true });
        }
        let mut level: Vec<Vec<usize>> = vec![vec![]];
        for _ in 0..o.max_recv.min(max_seq) {
            let mut nxt = vec![];
            for p in &level {
                for v in 0..nv {
                    let mut q = p.clone();
                    q.push(v);
                    nxt.push(q);
                }
            }
            for q in &nxt {
                out.push(Event { op: oi, inj: q.clone(), cancel: false });
            }
            level = nxt;
        }
    }
    out
}

/// Replay `h`, judge every step (findings only for the last), optionally run
/// the probes at the state reached. Returns (table state, class) of a clean edge.
fn run_history<S: Spec>(table: &Table, acc: &Mutex<Acc>, h: &[Event]) -> Outcome {
    let vars = S::variants();
    let ops = S::ops();
    let out = match catch(|| replay::<S>(h, None)) {
        Err(p) => {
            let f = Finding { helper: None, kind: "panic", state: "-".into(), variant: p.site(), detail: format!("panicked: {} at {}", p.message, p.location) };
            record::<S>(acc, table, &f, h, json!(null));
            acc.lock().unwrap().replays += 1;
            return Outcome::Violation;
        }
        Ok(None) => {
            let mut a = acc.lock().unwrap();
            a.replays += 1;
            a.blocked += 1;
            return Outcome::Skip;
        }
        Ok(Some(o)) => o,
    };
    acc.lock().unwrap().replays += 1;
    if !out.wire_errors.is_empty() {
        acc.lock().unwrap().machinery.push(format!("{} {:?}: {:?}", S::LABEL, h, out.wire_errors));
        return Outcome::Skip;
    }
    let mut t = table.initial.clone();
    if table.class_of(&t) != out.init_class {
        let f = Finding { helper: None, kind: "next-state", state: t.clone(), variant: "op:new".into(), detail: format!("a new agent is in state {}, the specification starts in {t}", out.init_class) };
        record::<S>(acc, table, &f, &[], json!(null));
        return Outcome::Violation;
    }
    for (i, (ev, obs)) in h.iter().zip(out.steps.iter()).enumerate() {
        let inj: Vec<String> = ev.inj.iter().take(obs.injected).map(|i| vars[*i].name.to_string()).collect();
        let last = i + 1 == h.len();
        // prefix steps were clean edges when first judged: everything injected was consumed
        let first = judge(table, S::ROLE, &t, &ops[ev.op], &inj, ev.cancel, obs, if last { None } else { Some(inj.len()) });
        let j = match first {
            Ok(j) => j,
            Err(NeedConsumed) => {
                let left = catch(|| measure_leftover::<S>(h, inj.len()));
                let mut a = acc.lock().unwrap();
                a.replays += 1;
                a.measured += 1;
                drop(a);
                match left {
                    Ok(Some(l)) => match judge(table, S::ROLE, &t, &ops[ev.op], &inj, ev.cancel, obs, Some(inj.len() - l)) {
                        Ok(j) => j,
                        Err(_) => unreachable!(),
                    },
                    other => {
                        acc.lock().unwrap().machinery.push(format!("{} {:?}: consumption measurement failed: {:?}", S::LABEL, h, other.map_err(|p| p.message)));
                        return Outcome::Skip;
                    }
                }
            }
        };
        if !last {
            match j.next {
                Some(n) => t = n,
                None => {
                    acc.lock().unwrap().machinery.push(format!("{} {:?}: prefix step {i} is not a clean edge on replay", S::LABEL, h));
                    return Outcome::Skip;
                }
            }
            continue;
        }
        {
            let mut a = acc.lock().unwrap();
            if obs.cancelled {
                a.cancelled_ops += 1;
            } else if obs.ok.is_ok() {
                a.ok_ops += 1;
                a.ok_at.insert((t.clone(), ops[ev.op].name.to_string()));
            } else {
                a.err_ops += 1;
            }
            for x in &j.send_ok {
                a.send_acc.insert(x.clone());
            }
            for x in &j.recv_ok {
                a.recv_acc.insert(x.clone());
            }
            for x in &j.applied {
                a.applied_acc.insert(x.clone());
            }
            let oc = match (&obs.ok, obs.cancelled) {
                (_, true) => "cancelled".to_string(),
                (Ok(_), _) => "ok".to_string(),
                (Err(e), _) => format!("err:{}", class_of_debug(e)),
            };
            a.outcomes.insert(format!("{t}|{}|{:?}|{oc}|{}", ops[ev.op].name, inj, obs.class));
        }
        if !j.findings.is_empty() {
            for f in &j.findings {
                if f.helper.is_some() {
                    let key = format!("{:?}|{}|{}", f.helper, f.state, f.variant);
                    let mut a = acc.lock().unwrap();
                    match a.pending.get_mut(&key) {
                        Some(e) => {
                            e.2 += 1;
                            if (h.len(), format!("{h:?}")) < (e.1.len(), format!("{:?}", e.1)) {
                                e.0 = f.clone();
                                e.1 = h.to_vec();
                            }
                        }
                        None => {
                            a.pending.insert(key, (f.clone(), h.to_vec(), 1));
                        }
                    }
                } else {
                    record::<S>(acc, table, f, h, json!(null));
                }
            }
            return Outcome::Violation;
        }
        return match j.next {
            Some(n) => {
                let key = format!("{}|{n}", obs.class);
                let mut a = acc.lock().unwrap();
                let label = format!("{}{:?}{}", ops[ev.op].name, inj, if ev.cancel { " (cancelled)" } else { "" });
                a.edges.insert((t.clone(), label, n.clone()));
                let better = match a.reps.get(&key) {
                    None => true,
                    Some((old, _, _)) => (h.len(), format!("{h:?}")) < (old.len(), format!("{old:?}")),
                };
                if better {
                    a.reps.insert(key.clone(), (h.to_vec(), n.clone(), obs.class.clone()));
                }
                Outcome::State(key)
            }
            None => Outcome::Skip,
        };
    }
    Outcome::Skip
}

/// Probes (1) and (2) at the state reached by `h` (table state `t`).
fn probe_state<S: Spec>(table: &Table, acc: &Mutex<Acc>, h: &[Event], t: &str, class: &str, cells: &Mutex<BTreeMap<(String, String), (Option<bool>, Option<bool>)>>) {
    let vars = S::variants();
    let role = S::ROLE;
    let run = |p: Probe| -> Option<Option<ReplayOut>> {
        let r = catch(|| replay::<S>(h, Some(p.clone())));
        let mut a = acc.lock().unwrap();
        a.replays += 1;
        a.probes += 1;
        drop(a);
        match r {
            Err(pn) => {
                let f = Finding { helper: None, kind: "panic", state: t.into(), variant: pn.site(), detail: format!("panicked: {} at {}", pn.message, pn.location) };
                record::<S>(acc, table, &f, h, json!(format!("{p:?}")));
                None
            }
            Ok(o) => Some(o),
        }
    };
    for (vi, v) in vars.iter().enumerate() {
        if S::PUB_SEND {
            let then = json!({"send_message": v.name});
            match run(Probe::Send(vi)) {
                None => {}
                Some(None) => acc.lock().unwrap().machinery.push(format!("{} send probe blocked at {t}/{}", S::LABEL, v.name)),
                Some(Some(o)) => {
                    let obs = o.probe.unwrap();
                    let on_wire: Vec<String> = obs.sent.iter().map(|raw| refcbor::parse_one(raw).map_err(|e| format!("{e:?}")).and_then(|n| table.wire_name(&n)).unwrap_or_else(|e| format!("?{e}"))).collect();
                    let accepted = obs.ok.is_ok();
                    if accepted && on_wire != vec![v.name.to_string()] {
                        acc.lock().unwrap().machinery.push(format!("{} send_message({}) Ok but wire shows {:?}", S::LABEL, v.name, on_wire));
                    }
                    if !accepted && !on_wire.is_empty() {
                        let f = Finding { helper: None, kind: "send", state: t.into(), variant: v.name.into(), detail: format!("send_message({}) failed in state {t} but put {:?} on the wire", v.name, on_wire) };
                        record::<S>(acc, table, &f, h, then.clone());
                    }
                    let allowed = table.may_send(role, t, v.name);
                    cells.lock().unwrap().entry((t.to_string(), v.name.to_string())).or_default().0 = Some(accepted);
                    if accepted != allowed {
                        let f = Finding {
                            helper: None,
                            kind: "send",
                            state: t.into(),
                            variant: v.name.into(),
                            detail: format!(
                                "send_message({}) in state {t} (agency: {}) returned {:?}; the specification {} the {} send it there",
                                v.name,
                                table.agency(t).name(),
                                obs.ok,
                                if allowed { "lets" } else { "does not let" },
                                role.name()
                            ),
                        };
                        record::<S>(acc, table, &f, h, then.clone());
                    }
                    if obs.class != class {
                        let f = Finding {
                            helper: None,
                            kind: if accepted { "next-state" } else { "state-after-reject" },
                            state: t.into(),
                            variant: v.name.into(),
                            detail: format!("send_message({}) returned {:?} and moved the agent from {class} to {}", v.name, obs.ok, obs.class),
                        };
                        // send_message is not an exchange helper: it never moves the state, accepted or not
                        if !accepted {
                            record::<S>(acc, table, &f, h, then.clone());
                        }
                    }
                }
            }
        }
        if S::PUB_RECV {
            let then = json!({"peer_injects": v.name, "recv_message": true});
            match run(Probe::Recv(Some(vi))) {
                None => {}
                Some(None) => acc.lock().unwrap().machinery.push(format!("{} recv probe blocked at {t}/{} although a message was injected", S::LABEL, v.name)),
                Some(Some(o)) => {
                    let obs = o.probe.unwrap();
                    let accepted = obs.ok.is_ok();
                    if accepted {
                        let got = obs.returned.as_ref().and_then(|raw| refcbor::parse_one(raw).ok()).and_then(|n| table.wire_name(&n).ok());
                        if got.as_deref() != Some(v.name) {
                            acc.lock().unwrap().machinery.push(format!("{} recv_message at {t} returned {:?}, injected {}", S::LABEL, got, v.name));
                        }
                    }
                    let allowed = table.may_send(role.other(), t, v.name);
                    cells.lock().unwrap().entry((t.to_string(), v.name.to_string())).or_default().1 = Some(accepted);
                    if accepted != allowed {
                        // the table forbids it here but allows it in another state the
                        // implementation cannot tell apart (tx-monitor Busy kinds)
                        let kind_only = accepted && table.states.keys().any(|s| s != t && table.class_of(s) == table.class_of(t) && table.may_send(role.other(), s, v.name));
                        let f = Finding {
                            helper: None,
                            kind: if kind_only { "recv-kind" } else { "recv" },
                            state: t.into(),
                            variant: v.name.into(),
                            detail: format!(
                                "recv_message() with {} injected in state {t} (agency: {}) returned {}; the specification {} the peer send it there",
                                v.name,
                                table.agency(t).name(),
                                if accepted { "Ok".to_string() } else { format!("{:?}", obs.ok) },
                                if allowed { "lets" } else { "does not let" }
                            ),
                        };
                        record::<S>(acc, table, &f, h, then.clone());
                    }
                    if obs.class != class && !accepted {
                        let f = Finding { helper: None, kind: "state-after-reject", state: t.into(), variant: v.name.into(), detail: format!("recv_message() rejected {} ({:?}) but moved the agent from {class} to {}", v.name, obs.ok, obs.class) };
                        record::<S>(acc, table, &f, h, then);
                    }
                }
            }
        }
    }
    // agency is ours: receiving must fail at once, with nothing in flight
    if S::PUB_RECV && table.agency(t) == role {
        match run(Probe::Recv(None)) {
            None => {}
            Some(None) => {
                let f = Finding { helper: None, kind: "recv", state: t.into(), variant: "-".into(), detail: format!("recv_message() in state {t}, where the {} has agency, waits instead of failing", role.name()) };
                record::<S>(acc, table, &f, h, json!({"recv_message": true}));
            }
            Some(Some(o)) => {
                let obs = o.probe.unwrap();
                if obs.ok.is_ok() {
                    acc.lock().unwrap().machinery.push(format!("{} recv_message at {t} returned Ok with nothing in flight", S::LABEL));
                }
                if obs.class != class {
                    let f = Finding { helper: None, kind: "state-after-reject", state: t.into(), variant: "-".into(), detail: format!("recv_message() failed ({:?}) but moved the agent from {class} to {}", obs.ok, obs.class) };
                    record::<S>(acc, table, &f, h, json!({"recv_message": true}));
                }
            }
        }
    }
}

/// Every variant's injected bytes must decode (by pallas) to the same variant,
/// and the label map must name it: otherwise a receive verdict would be about
/// the codec, not the state machine.
fn selfcheck<S: Spec>(table: &Table) {
    let ctx = WireCtx { cookie: 7 };
    for v in S::variants() {
        if !table.messages.contains(v.name) {
            mc_core::report::machinery_failure(&format!("{}: variant {} is not in table {}", S::LABEL, v.name, table.name));
        }
        let bytes = wire_bytes(&v, &ctx);
        let name = refcbor::parse_one(&bytes).map_err(|e| format!("{e:?}")).and_then(|n| table.wire_name(&n));
        if name.as_deref() != Ok(v.name) {
            mc_core::report::machinery_failure(&format!("{}: wire bytes of {} are labelled {:?}", S::LABEL, v.name, name));
        }
        match catch(|| minicbor::decode::<S::Msg>(&bytes).map(|m| minicbor::to_vec(&m).ok())) {
            Ok(Ok(Some(re))) => {
                let again = refcbor::parse_one(&re).map_err(|e| format!("{e:?}")).and_then(|n| table.wire_name(&n));
                if again.as_deref() != Ok(v.name) {
                    mc_core::report::machinery_failure(&format!("{}: {} decodes to {:?}", S::LABEL, v.name, again));
                }
            }
            other => mc_core::report::machinery_failure(&format!("{}: pallas cannot decode the injected form of {}: {:?}", S::LABEL, v.name, other.map(|r| r.map(|_| ()).map_err(|e| e.to_string())))),
        }
    }
    for o in S::ops() {
        if let Some(m) = o.sends_first {
            if !table.messages.contains(m) {
                mc_core::report::machinery_failure(&format!("{}: op {} sends unknown {m}", S::LABEL, o.name));
            }
        }
    }
}

pub fn run_agent<S: Spec>(thorough: bool) -> AgentReport {
    let table = Table::load(S::FAMILY);
    selfcheck::<S>(&table);
    let acc = Mutex::new(Acc::default());
    let max_seq = if thorough { 4 } else { 3 };
    let unfold_depth = if thorough { 5 } else { 4 };
    let events = enabled_events::<S>(max_seq);
    // ---- initial state
    let init = match catch(|| replay::<S>(&[], None)) {
        Ok(Some(o)) => o,
        _ => mc_core::report::machinery_failure(&format!("{}: cannot build the agent", S::LABEL)),
    };
    if table.class_of(&table.initial) != init.init_class {
        let f = Finding { helper: None, kind: "next-state", state: table.initial.clone(), variant: "op:new".into(), detail: format!("a new agent is in state {}, the specification starts in {}", init.init_class, table.initial) };
        record::<S>(&acc, &table, &f, &[], json!(null));
    }
    let init_key = format!("{}|{}", init.init_class, table.initial);
    acc.lock().unwrap().reps.insert(init_key.clone(), (vec![], table.initial.clone(), init.init_class.clone()));
    // ---- BFS to fixpoint over (class, table state)
    let cfg = bfs::Config { max_depth: 12, max_states: 10_000, parallel: true };
    let stats = bfs::explore(init_key.clone(), |_h: &[Event]| events.clone(), |h: &[Event]| run_history::<S>(&table, &acc, h), &cfg);
    // ---- probes at every reached state
    let cells: Mutex<BTreeMap<(String, String), (Option<bool>, Option<bool>)>> = Mutex::new(BTreeMap::new());
    let reps: Vec<(Vec<Event>, String, String)> = acc.lock().unwrap().reps.values().cloned().collect();
    reps.par_iter().for_each(|(h, t, class)| probe_state::<S>(&table, &acc, h, t, class, &cells));
    // ---- unfolding: every history of clean edges to a fixed depth and
    // probe each of them (the verdicts must not depend on how a state was reached)
    let deep = if unfold_depth > 0 {
        let deep_events = enabled_events::<S>(2);
        let depth = unfold_depth;
        let cfg = bfs::Config { max_depth: depth, max_states: 2_000_000, parallel: true };
        let st = bfs::explore(
            init_key,
            |_h: &[Event]| deep_events.clone(),
            |h: &[Event]| match run_history::<S>(&table, &acc, h) {
                Outcome::State(k) => {
                    let (class, t) = k.split_once('|').unwrap();
                    let scratch = Mutex::new(BTreeMap::new());
                    probe_state::<S>(&table, &acc, h, t, class, &scratch);
                    Outcome::State(format!("{k}|{h:?}"))
                }
                o => o,
            },
            &cfg,
        );
        Some(st)
    } else {
        None
    };
    // ---- matrix, existence direction for agents without public send/recv
    let cells = cells.into_inner().unwrap();
    let vars = S::variants();
    let role = S::ROLE;
    let reached: BTreeSet<String> = reps.iter().map(|r| r.1.clone()).collect();
    let mut matrix = serde_json::Map::new();
    let acc_m = acc;
    for (h, t, _class) in &reps {
        let mut row = serde_json::Map::new();
        for v in &vars {
            let cell = cells.get(&(t.clone(), v.name.to_string())).cloned().unwrap_or_default();
            let (send_acc, recv_acc) = {
                let a = acc_m.lock().unwrap();
                (a.send_acc.contains(&(t.clone(), v.name.to_string())), a.recv_acc.contains(&(t.clone(), v.name.to_string())))
            };
            let ts = table.may_send(role, t, v.name);
            let tr = table.may_send(role.other(), t, v.name);
            let is = if S::PUB_SEND { cell.0.unwrap_or(false) } else { send_acc };
            let ir = if S::PUB_RECV { cell.1.unwrap_or(false) } else { recv_acc };
            if !S::PUB_SEND && ts && !is {
                let f = Finding { helper: None, kind: "send", state: t.clone(), variant: v.name.into(), detail: format!("no public operation of the agent gets {} onto the wire in state {t}, where the specification lets the {} send it", v.name, role.name()) };
                record::<S>(&acc_m, &table, &f, h, json!("every operation tried"));
            }
            if !S::PUB_RECV && tr && !ir {
                let f = Finding { helper: None, kind: "recv", state: t.clone(), variant: v.name.into(), detail: format!("no public operation of the agent accepts {} in state {t}, where the specification lets the peer send it", v.name) };
                record::<S>(&acc_m, &table, &f, h, json!("every operation tried"));
            }
            let b = |x: bool| if x { '1' } else { '0' };
            row.insert(v.name.to_string(), json!(format!("send spec/impl {}{} recv spec/impl {}{}", b(ts), b(is), b(tr), b(ir))));
        }
        matrix.insert(t.clone(), Value::Object(row));
    }
    // An operation returned Err, had consumed a specification-valid message and
    // did not apply it. If the operation works from that state for some
    // injection it is the helper for that state and the exchange was complete
    // and legal: violation. If no injection makes it succeed there while another
    // public operation does accept that message there, the *call* is what was
    // refused (error, state unchanged, as the property asks for everything
    // else); that the message is gone from the channel is logged, not demanded.
    let pending: Vec<(Finding, Vec<Event>, u64)> = acc_m.lock().unwrap().pending.values().cloned().collect();
    for (mut f, h, n) in pending {
        let (t0, opn) = f.helper.clone().unwrap();
        let (applicable, handled_elsewhere) = {
            let a = acc_m.lock().unwrap();
            (a.ok_at.contains(&(t0.clone(), opn.clone())), a.recv_acc.contains(&(f.state.clone(), f.variant.clone())) || a.applied_acc.contains(&(f.state.clone(), f.variant.clone())))
        };
        if applicable || !handled_elsewhere {
            record_n::<S>(&acc_m, &table, &f, &h, json!(null), n, None);
        } else {
            f.kind = "valid-message-dropped-by-wrong-helper";
            let key = format!("agent:{}:{}:{}:{}", table.name, S::ROLE.name(), opn, f.kind);
            let what = format!("{} {}: {} [no injection makes {opn} succeed from {t0}; another operation accepts {} there]", S::LABEL, S::ROLE.name(), f.detail, f.variant);
            let mut a = acc_m.lock().unwrap();
            let e = a.diagnostics.entry(key).or_insert((what.clone(), hist_json::<S>(&h), 0, (h.len(), format!("{h:?}"))));
            e.2 += n;
            if (h.len(), format!("{h:?}")) < e.3 {
                e.0 = what;
                e.1 = hist_json::<S>(&h);
                e.3 = (h.len(), format!("{h:?}"));
            }
        }
    }
    let acc = acc_m.into_inner().unwrap();
    let unreached: Vec<String> = table.states.keys().filter(|s| !reached.contains(*s)).cloned().collect();
    AgentReport {
        label: S::LABEL.to_string(),
        family: S::FAMILY.to_string(),
        role: role.name().to_string(),
        stats,
        deep,
        acc,
        matrix: Value::Object(matrix),
        reached: reached.into_iter().collect(),
        unreached,
    }
}
